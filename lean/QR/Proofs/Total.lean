import QR.Model.Compile
import QR.Proofs.Fit
import QR.Proofs.Stream
import QR.Proofs.Blank
import QR.Props.C02
/-
C03 (totality): for valid segments and a valid configuration, `compile` either succeeds or raises DataOverflowError,
and it overflows exactly when the stream does not fit the largest admissible version.

  part 1  `createData_total`     create_data is total on valid segments: ok iff the stream fits, else DataOverflowError
  part 2  `makeImpl_total`, `bestMaskPattern_total`
  part 3  `fits_forty`           anything that fits a version 1..40 also fits version 40
          `chooseVersion_char`, `compile_char`, `C03_total`, `C03_iff`, `C03_version`
-/
namespace QR

/-- a valid constructor configuration: `version` is `None` (0) or 1..40 (checked by `check_version`), the mask
    pattern is `None` or 0..7 (checked by `check_mask_pattern`) -/
def Model.Cfg.Valid (cfg : Model.Cfg) : Prop := cfg.version ≤ 40 ∧ ∀ m, cfg.mask = some m → m ≤ 7

/-- the largest admissible version: the requested one when a version is given and fitting is off, else 40 -/
def Model.Cfg.vmax (cfg : Model.Cfg) : Nat := if cfg.version ≠ 0 ∧ cfg.fit = false then cfg.version else 40

namespace Proofs
open QR Model

/-! ### part 1: `create_data` -/

theorem fits_true_iff (v : Nat) (l : Spec.Level) (cs : List (Spec.Mode × Nat)) :
    Spec.fits v l cs = true ↔ Spec.streamBits v cs ≤ Spec.capacityBits v l := by
  simp only [Spec.fits, decide_eq_true_eq]

theorem fits_false_iff (v : Nat) (l : Spec.Level) (cs : List (Spec.Mode × Nat)) :
    Spec.fits v l cs = false ↔ Spec.streamBits v cs > Spec.capacityBits v l := by
  simp only [Spec.fits, decide_eq_false_iff_not]; omega

theorem createData_total (v : Nat) (h1 : 1 ≤ v) (h40 : v ≤ 40) (l : Spec.Level) (segs : List Model.Seg)
    (hv : ∀ s ∈ segs, s.Valid) (ps : List Spec.PSeg) (hp : toPSegs segs = some ps) :
    (Spec.fits v l (segCounts ps) = true →
      ∃ cw, Model.createData v l.indicator segs = .ok cw ∧ cw.length = Spec.totalCodewords v) ∧
    (Spec.fits v l (segCounts ps) = false → Model.createData v l.indicator segs = .error .dataOverflow) := by
  constructor
  · intro hf
    rw [fits_true_iff] at hf
    obtain ⟨all, hall⟩ := C06_ok_of_fits h1 h40 l hv hp hf
    obtain ⟨_, hlen, hb⟩ := C06_codewords h1 h40 l hv hp hall
    have ht := Props.C02_table9 (v - 1) (by omega) l (mem_allLevels l)
    have hcb := Props.C02_blocks (v - 1) (by omega) l (packBytes all)
    rw [show v - 1 + 1 = v by omega] at ht hcb
    obtain ⟨cw, hcw, hl, _⟩ := hcb hlen hb
    refine ⟨cw, ?_, hl⟩
    unfold Model.createData
    rw [hall, R.bind_ok, ht, R.bind_ok, hcw]
  · intro hf
    rw [fits_false_iff] at hf
    have := (C06_overflow_iff h1 h40 l hv hp).2 hf
    unfold Model.createData
    rw [this, R.bind_error]

/-! ### part 2: `makeImpl`, `best_mask_pattern` -/

theorem makeImpl_total (v : Nat) (h1 : 1 ≤ v) (h40 : v ≤ 40) (level mask : Nat) (hm : mask ≤ 7) (test : Bool)
    (data : List Nat) : ∃ M, Model.makeImpl v level test mask data = .ok M := by
  obtain ⟨B, hB, _⟩ := blank_spec v h1 h40
  unfold Model.makeImpl
  rw [hB, R.bind_ok, if_neg (by omega)]
  exact ⟨_, rfl⟩

theorem pickMask_snd_le (st : Nat × Nat) (i lost : Nat) (hst : st.2 ≤ 7) (hi : i ≤ 7) :
    (Model.pickMask st i lost).2 ≤ 7 := by
  unfold Model.pickMask
  split
  · exact hi
  · exact hst

theorem maskLoop_total (v : Nat) (h1 : 1 ≤ v) (h40 : v ≤ 40) (level : Nat) (data : List Nat) :
    ∀ (is : List Nat) (st : Nat × Nat), (∀ i ∈ is, i ≤ 7) → st.2 ≤ 7 →
      ∃ st', is.foldlM (fun (st : Nat × Nat) i => do
          let m ← Model.makeImpl v level true i data
          pure (Model.pickMask st i (Model.lostPoint m.toBMat))) st = (.ok st' : R (Nat × Nat)) ∧ st'.2 ≤ 7 := by
  intro is
  induction is with
  | nil => intro st _ hst; exact ⟨st, rfl, hst⟩
  | cons i is ih =>
    intro st his hst
    have hi : i ≤ 7 := his i (List.mem_cons_self ..)
    obtain ⟨M, hM⟩ := makeImpl_total v h1 h40 level i hi true data
    rw [List.foldlM_cons, hM, R.bind_ok, R.pure_eq, R.bind_ok]
    exact ih _ (fun j hj => his j (List.mem_cons_of_mem _ hj)) (pickMask_snd_le st i _ hst hi)

theorem bestMaskPattern_total (v : Nat) (h1 : 1 ≤ v) (h40 : v ≤ 40) (level : Nat) (data : List Nat) :
    ∃ k, Model.bestMaskPattern v level data = .ok k ∧ k ≤ 7 := by
  obtain ⟨st', hst', hle⟩ := maskLoop_total v h1 h40 level data (List.range 8) (0, 0)
    (fun i hi => by have := List.mem_range.mp hi; omega) (Nat.zero_le _)
  unfold Model.bestMaskPattern
  rw [hst', R.bind_ok]
  exact ⟨st'.2, rfl, hle⟩

/-! ### part 3: version 40 holds everything a smaller version holds -/

theorem countWidth_ge_eight (u : Nat) (m : Spec.Mode) : 8 ≤ Spec.countWidth u m := by
  unfold Spec.countWidth
  cases m <;> dsimp only <;> split <;> omega

theorem countWidth_forty_le (m : Spec.Mode) : Spec.countWidth 40 m ≤ 16 := by
  cases m <;> decide

/-- going to the widest count fields at most doubles the stream (each segment has at least 12 header bits and gains
    at most 8) -/
theorem streamBits_forty_le (u : Nat) (cs : List (Spec.Mode × Nat)) :
    Spec.streamBits 40 cs ≤ 2 * Spec.streamBits u cs := by
  unfold Spec.streamBits
  induction cs with
  | nil => exact Nat.le_refl _
  | cons c t ih =>
    have h8 := countWidth_ge_eight u c.1
    have h16 := countWidth_forty_le c.1
    simp only [List.map_cons, List.sum_cons] at ih ⊢
    omega

set_option maxRecDepth 100000 in
/-- capacity of version 40 dominates every capacity, and is at least twice the capacity of versions 1..26 -/
theorem capacity_forty (l : Spec.Level) (u : Nat) (h1 : 1 ≤ u) (h40 : u ≤ 40) :
    Spec.capacityBits u l ≤ Spec.capacityBits 40 l ∧
      (u ≤ 26 → 2 * Spec.capacityBits u l ≤ Spec.capacityBits 40 l) := by
  have h : Props.allLevels.all (fun l => (List.range 40).all fun u =>
      decide (Spec.capacityBits (u + 1) l ≤ Spec.capacityBits 40 l) &&
      (decide (26 ≤ u) || decide (2 * Spec.capacityBits (u + 1) l ≤ Spec.capacityBits 40 l))) = true := by
    decide +kernel
  have := forall_lt_of_all (forall_mem_of_all h l (mem_allLevels l)) (u - 1) (by omega)
  rw [show u - 1 + 1 = u by omega] at this
  simp only [Bool.and_eq_true, Bool.or_eq_true, decide_eq_true_eq] at this
  refine ⟨this.1, fun h26 => ?_⟩
  rcases this.2 with h | h
  · omega
  · exact h

/-- KEY: a stream that fits some version 1..40 (with that version's count widths) fits version 40 -/
theorem fits_forty (l : Spec.Level) (cs : List (Spec.Mode × Nat)) (u : Nat) (h1 : 1 ≤ u) (h40 : u ≤ 40)
    (h : Spec.fits u l cs = true) : Spec.fits 40 l cs = true := by
  rw [fits_true_iff] at h ⊢
  obtain ⟨hc1, hc2⟩ := capacity_forty l u h1 h40
  by_cases h26 : u ≤ 26
  · have := streamBits_forty_le u cs
    have := hc2 h26
    omega
  · have hcl : Spec.versionClass u = Spec.versionClass 40 := by
      unfold Spec.versionClass
      rw [if_neg (by omega), if_neg (by omega)]
      rfl
    rw [← streamBits_congr hcl cs]
    omega

/-- no version in `s..40` fits iff version 40 does not -/
theorem noFit_iff (l : Spec.Level) (cs : List (Spec.Mode × Nat)) (s : Nat) (h1 : 1 ≤ s) (h40 : s ≤ 40) :
    (∀ u, s ≤ u → u ≤ 40 → Spec.fits u l cs = false) ↔ Spec.fits 40 l cs = false := by
  constructor
  · intro h; exact h 40 h40 (Nat.le_refl _)
  · intro h u hu1 hu2
    cases hf : Spec.fits u l cs with
    | false => rfl
    | true => rw [fits_forty l cs u (by omega) hu2 hf] at h; cases h

/-! ### part 3: `chooseVersion` and `compile` -/

/-- `best_fit(start = v)` returns `v` when `v` itself is adequate -/
theorem bestFit_of_fits (v : Nat) (h1 : 1 ≤ v) (h40 : v ≤ 40) (l : Spec.Level) (segs : List Model.Seg)
    (ps : List Spec.PSeg) (hv : ∀ s ∈ segs, s.Valid) (hp : toPSegs segs = some ps)
    (hf : Spec.fits v l (segCounts ps) = true) : Model.bestFit 4 v l.indicator segs = .ok v := by
  rcases bestFit_total v h40 l segs ps hv hp with ⟨w, hw, m1, m2, m3, m4⟩ | ⟨_, hno⟩
  · rw [hw]
    by_cases hvw : v < w
    · have := m4 v (by omega) hvw
      rw [hf] at this; cases this
    · have : w = v := by omega
      rw [this]
  · have := hno v (by omega) h40
    rw [hf] at this; cases this

/-- what `C03_version` says about the version -/
def VersionSpec (cfg : Model.Cfg) (l : Spec.Level) (cs : List (Spec.Mode × Nat)) (v : Nat) : Prop :=
  if cfg.fit then Spec.minVersion cfg.version l cs = some v
  else (cfg.version ≠ 0 → v = cfg.version) ∧ (cfg.version = 0 → Spec.minVersion 0 l cs = some v)

theorem chooseVersion_eq (cfg : Model.Cfg) (segs : List Model.Seg) :
    Model.chooseVersion cfg segs =
      ((if cfg.version = 0 then Model.bestFit 4 0 cfg.level segs else .ok cfg.version) >>= fun v0 =>
        if cfg.fit = true then Model.bestFit 4 v0 cfg.level segs else .ok v0) := by
  by_cases h : cfg.version = 0 <;> simp only [Model.chooseVersion, h, ↓reduceIte] <;> rfl

/-- the version `make(fit)` compiles at: either a version 1..40 as specified - adequate unless it was forced
    (version given, fitting off) - or DataOverflowError, the latter only when not forced and version 40 is too small -/
theorem chooseVersion_char (cfg : Model.Cfg) (hver : cfg.version ≤ 40) (l : Spec.Level) (hl : cfg.level = l.indicator)
    (segs : List Model.Seg) (hv : ∀ s ∈ segs, s.Valid) (ps : List Spec.PSeg) (hp : toPSegs segs = some ps) :
    (∃ v, Model.chooseVersion cfg segs = .ok v ∧ 1 ≤ v ∧ v ≤ 40 ∧ VersionSpec cfg l (segCounts ps) v ∧
        (Spec.fits v l (segCounts ps) = true ∨ (cfg.version ≠ 0 ∧ cfg.fit = false))) ∨
    (Model.chooseVersion cfg segs = .error .dataOverflow ∧ Spec.fits 40 l (segCounts ps) = false ∧
        ¬ (cfg.version ≠ 0 ∧ cfg.fit = false)) := by
  obtain ⟨version, level, mask, fit⟩ := cfg
  simp only at hver hl
  subst hl
  rw [chooseVersion_eq]
  simp only [VersionSpec]
  by_cases h0 : version = 0
  · -- version None: `self.version` runs best_fit() first
    subst h0
    rw [if_pos rfl]
    rcases bestFit_total 0 (by omega) l segs ps hv hp with ⟨w, hw, hmin⟩ | ⟨he, hno⟩
    · left
      have hmv := minVersion_eq_some 0 l _ w hmin
      obtain ⟨m1, m2, m3, _⟩ := hmin
      have hw1 : 1 ≤ w := by omega
      refine ⟨w, ?_, hw1, m2, ?_, Or.inl m3⟩
      · rw [hw, R.bind_ok]
        cases fit with
        | false => rfl
        | true => rw [if_pos rfl]; exact bestFit_of_fits w hw1 m2 l segs ps hv hp m3
      · cases fit with
        | false => exact ⟨fun h => absurd rfl h, fun _ => hmv⟩
        | true => exact hmv
    · right
      refine ⟨?_, ?_, fun h => h.1 rfl⟩
      · rw [he, R.bind_error]
      · exact (noFit_iff l _ (max 0 1) (by omega) (by omega)).1 hno
  · rw [if_neg h0, R.bind_ok]
    cases fit with
    | false =>
      left
      exact ⟨version, rfl, by omega, hver, ⟨fun _ => rfl, fun h => absurd h h0⟩, Or.inr ⟨h0, rfl⟩⟩
    | true =>
      rw [if_pos rfl]
      rcases bestFit_total version hver l segs ps hv hp with ⟨w, hw, hmin⟩ | ⟨he, hno⟩
      · left
        have hmv := minVersion_eq_some version l _ w hmin
        obtain ⟨m1, m2, m3, _⟩ := hmin
        exact ⟨w, hw, by omega, m2, hmv, Or.inl m3⟩
      · right
        refine ⟨he, ?_, fun h => Bool.noConfusion h.2⟩
        exact (noFit_iff l _ (max version 1) (by omega) (by omega)).1 hno

theorem compile_eq (cfg : Model.Cfg) (segs : List Model.Seg) :
    Model.compile cfg segs =
      (Model.chooseVersion cfg segs >>= fun v =>
        Model.createData v cfg.level segs >>= fun data =>
          (match cfg.mask with
            | some m => (.ok m : R Nat)
            | none => Model.bestMaskPattern v cfg.level data) >>= fun mask =>
            Model.makeImpl v cfg.level false mask data >>= fun m => .ok (v, mask, m)) := by
  cases hm : cfg.mask <;> simp only [Model.compile, hm] <;> rfl

/-- complete characterisation of `compile` on valid input -/
theorem compile_char (cfg : Model.Cfg) (hcfg : cfg.Valid) (l : Spec.Level) (hl : cfg.level = l.indicator)
    (segs : List Model.Seg) (hv : ∀ s ∈ segs, s.Valid) (ps : List Spec.PSeg) (hp : toPSegs segs = some ps) :
    (∃ v m M, Model.compile cfg segs = .ok (v, m, M) ∧ 1 ≤ v ∧ v ≤ 40 ∧ m ≤ 7 ∧
        VersionSpec cfg l (segCounts ps) v ∧ (∀ m', cfg.mask = some m' → m = m') ∧
        Spec.fits v l (segCounts ps) = true ∧ Spec.fits cfg.vmax l (segCounts ps) = true) ∨
    (Model.compile cfg segs = .error .dataOverflow ∧ Spec.fits cfg.vmax l (segCounts ps) = false) := by
  obtain ⟨hver, hmask⟩ := hcfg
  rw [compile_eq]
  rcases chooseVersion_char cfg hver l hl segs hv ps hp with ⟨v, hcv, h1, h40, hvs, hfit⟩ | ⟨he, h40f, hnf⟩
  · rw [hcv, R.bind_ok, hl]
    obtain ⟨hok, herr⟩ := createData_total v h1 h40 l segs hv ps hp
    cases hf : Spec.fits v l (segCounts ps) with
    | true =>
      left
      obtain ⟨cw, hcw, _⟩ := hok hf
      rw [hcw, R.bind_ok]
      have hmax : Spec.fits cfg.vmax l (segCounts ps) = true := by
        unfold Model.Cfg.vmax
        by_cases hforced : cfg.version ≠ 0 ∧ cfg.fit = false
        · rw [if_pos hforced]
          have : v = cfg.version := by
            unfold VersionSpec at hvs
            rw [hforced.2] at hvs
            exact hvs.1 hforced.1
          rw [← this]; exact hf
        · rw [if_neg hforced]; exact fits_forty l _ v h1 h40 hf
      cases hm : cfg.mask with
      | some m =>
        have hm7 := hmask m hm
        obtain ⟨M, hM⟩ := makeImpl_total v h1 h40 l.indicator m hm7 false cw
        refine ⟨v, m, M, ?_, h1, h40, hm7, hvs, ?_, hf, hmax⟩
        · simp only [R.bind_ok, hM]
        · intro m' h'; cases h'; rfl
      | none =>
        obtain ⟨k, hk, hk7⟩ := bestMaskPattern_total v h1 h40 l.indicator cw
        obtain ⟨M, hM⟩ := makeImpl_total v h1 h40 l.indicator k hk7 false cw
        refine ⟨v, k, M, ?_, h1, h40, hk7, hvs, ?_, hf, hmax⟩
        · simp only [hk, R.bind_ok, hM]
        · intro m' h'; cases h'
    | false =>
      right
      rw [herr hf, R.bind_error]
      refine ⟨rfl, ?_⟩
      rcases hfit with hfit | hforced
      · rw [hf] at hfit; cases hfit
      · unfold Model.Cfg.vmax
        rw [if_pos hforced]
        have : v = cfg.version := by
          unfold VersionSpec at hvs
          rw [hforced.2] at hvs
          exact hvs.1 hforced.1
        rw [← this]; exact hf
  · right
    rw [he, R.bind_error]
    refine ⟨rfl, ?_⟩
    unfold Model.Cfg.vmax
    rw [if_neg hnf]; exact h40f

/-- **C03**: `compile` either succeeds or raises DataOverflowError - no other exception, for any data content -/
theorem C03_total (cfg : Model.Cfg) (hcfg : cfg.Valid) (l : Spec.Level) (hl : cfg.level = l.indicator)
    (segs : List Model.Seg) (hv : ∀ s ∈ segs, s.Valid) :
    (∃ r, Model.compile cfg segs = .ok r) ∨ Model.compile cfg segs = .error .dataOverflow := by
  obtain ⟨ps, hp⟩ := toPSegs_of_valid hv
  rcases compile_char cfg hcfg l hl segs hv ps hp with ⟨v, m, M, h, _⟩ | ⟨h, _⟩
  · exact Or.inl ⟨_, h⟩
  · exact Or.inr h

/-- **C03**: it overflows exactly when the stream exceeds the data capacity of the largest admissible version -/
theorem C03_iff (cfg : Model.Cfg) (hcfg : cfg.Valid) (l : Spec.Level) (hl : cfg.level = l.indicator)
    (segs : List Model.Seg) (hv : ∀ s ∈ segs, s.Valid) (ps : List Spec.PSeg) (hp : toPSegs segs = some ps) :
    Model.compile cfg segs = .error .dataOverflow ↔ Spec.fits cfg.vmax l (segCounts ps) = false := by
  rcases compile_char cfg hcfg l hl segs hv ps hp with ⟨v, m, M, h, _, _, _, _, _, _, hmax⟩ | ⟨h, hmax⟩
  · constructor
    · intro h'; rw [h] at h'; cases h'
    · intro h'; rw [hmax] at h'; cases h'
  · exact ⟨fun _ => hmax, fun _ => h⟩

/-- **C03**: on success the version is the specified one (smallest adequate version from the start when fitting, the
    requested version otherwise) and a requested mask pattern is the one used -/
theorem C03_version (cfg : Model.Cfg) (hcfg : cfg.Valid) (l : Spec.Level) (hl : cfg.level = l.indicator)
    (segs : List Model.Seg) (hv : ∀ s ∈ segs, s.Valid) (ps : List Spec.PSeg) (hp : toPSegs segs = some ps)
    (v m : Nat) (M : Model.Mat) (h : Model.compile cfg segs = .ok (v, m, M)) :
    (if cfg.fit then Spec.minVersion cfg.version l (segCounts ps) = some v
     else (cfg.version ≠ 0 → v = cfg.version) ∧ (cfg.version = 0 → Spec.minVersion 0 l (segCounts ps) = some v)) ∧
    (∀ m', cfg.mask = some m' → m = m') := by
  rcases compile_char cfg hcfg l hl segs hv ps hp with ⟨v', m', M', h', _, _, _, hvs, hm, _⟩ | ⟨h', _⟩
  · rw [h'] at h
    injection h with h
    injection h with h1 h2
    injection h2 with h2 h3
    subst h1 h2
    exact ⟨hvs, hm⟩
  · rw [h'] at h; cases h

/-- on success: the version is in range, adequate, and the mask is one of the eight patterns -/
theorem C03_ok_range (cfg : Model.Cfg) (hcfg : cfg.Valid) (l : Spec.Level) (hl : cfg.level = l.indicator)
    (segs : List Model.Seg) (hv : ∀ s ∈ segs, s.Valid) (ps : List Spec.PSeg) (hp : toPSegs segs = some ps)
    (v m : Nat) (M : Model.Mat) (h : Model.compile cfg segs = .ok (v, m, M)) :
    1 ≤ v ∧ v ≤ 40 ∧ m ≤ 7 ∧ Spec.fits v l (segCounts ps) = true := by
  rcases compile_char cfg hcfg l hl segs hv ps hp with ⟨v', m', M', h', a1, a2, a3, _, _, a4, _⟩ | ⟨h', _⟩
  · rw [h'] at h
    injection h with h
    injection h with h1 h2
    injection h2 with h2 h3
    subst h1 h2
    exact ⟨a1, a2, a3, a4⟩
  · rw [h'] at h; cases h

end Proofs
end QR
