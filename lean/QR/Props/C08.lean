import QR.Proofs.Penalty
import QR.Proofs.SourceTieC08
import QR.Proofs.Pinned
import QR.Proofs.SourceTieT3
import QR.Proofs.SourceTieD3
/-
C08 - the penalty score the library uses to rank masks equals the ISO 18004 definition, for EVERY square matrix
(any side n ≥ 1, not only QR sizes).  Model.lostPoint mirrors util.lost_point with its histogram, `next(iter)` skipping
and Horspool shift; Spec.penalty is the plain ISO count (runs, 2x2 blocks, 11-module windows, 5 % steps).
Rule 4 of the model is the integer form of the code's float formula (tied exhaustively over all QR sizes x dark counts
by the correspondence check).
-/
namespace QR.Props
open QR QR.Model

/-- **C08**: `lost_point(M) = N1 + N2 + N3 + N4` for every n x n Boolean matrix, n ≥ 1 -/
theorem C08_lost_point (M : BMat) (n : Nat) (hn : 1 ≤ n) (hlen : M.length = n) (hrow : ∀ row ∈ M, row.length = n) :
    lostPoint M = Spec.penalty M :=
  QR.Proofs.Penalty.lostPoint_eq_penalty M n hn hlen hrow

/-- rule 1 alone: runs of L ≥ 5 same-colour modules score L − 2 (rows and columns) -/
theorem C08_rule1 (M : BMat) (n : Nat) (hlen : M.length = n) (hrow : ∀ row ∈ M, row.length = n) :
    level1 M n = Spec.N1 M n := QR.Proofs.Penalty.level1_eq M n hlen hrow

/-- rule 2 alone: 3 per monochrome 2x2 block; the column skipping of the scanner is sound (any row lengths) -/
theorem C08_rule2 (M : BMat) : level2 M = Spec.N2 M := QR.Proofs.Penalty.level2_eq M

/-- rule 3 alone: 40 per 1:1:3:1:1 window with four light modules on one side; the Horspool skip is sound -/
theorem C08_rule3 (M : BMat) (n : Nat) : level3 M n = Spec.N3 M n := QR.Proofs.Penalty.level3_eq M n

/-- rule 4 alone (integer form): 10 per full 5 % step of the dark proportion away from 50 % -/
theorem C08_rule4 (M : BMat) (n : Nat) (hn : 0 < n) (hlen : M.length = n) (hrow : ∀ row ∈ M, row.length = n) :
    level4 M n = Spec.N4 M n :=
  QR.Proofs.Penalty.level4_eq M n hn (QR.Proofs.Penalty.darkCount_le M n hlen hrow)

/-- non-vacuity: a 6x6 matrix with a long run, a 2x2 block and a skewed dark ratio satisfies the hypotheses and has a positive ISO score -/
example : let M : BMat := [[true,true,true,true,true,true],[true,true,false,false,false,false],[false,true,false,true,false,true],
                           [true,false,true,false,true,false],[false,false,false,false,false,true],[true,false,true,true,false,true]]
    M.length = 6 ∧ (∀ row ∈ M, row.length = 6) ∧ 0 < Spec.penalty M := by decide

/-! ### tie to the source: the model's expressions are the ones translated from the current Python AST (T2) -/

/-- the window test, skip test and weights of the scanners as they stand in the source (rows AND columns) -/
theorem C08_source_rules :
    (∀ a0 a1 a2 a3 a4 a5 a6 a7 a8 a9 a10 : Bool,
      Gen.Code.l3_row_cond a0 a1 a2 a3 a4 a5 a6 a7 a8 a9 a10 = cond3 a0 a1 a2 a3 a4 a5 a6 a7 a8 a9 a10 ∧
      Gen.Code.l3_col_cond a0 a1 a2 a3 a4 a5 a6 a7 a8 a9 a10 = cond3 a0 a1 a2 a3 a4 a5 a6 a7 a8 a9 a10 ∧
      Gen.Code.l3_row_skip a0 a1 a2 a3 a4 a5 a6 a7 a8 a9 a10 = a10 ∧ Gen.Code.l3_col_skip a0 a1 a2 a3 a4 a5 a6 a7 a8 a9 a10 = a10) ∧
    Gen.Code.l3_row_weight = 40 ∧ Gen.Code.l3_col_weight = 40 ∧ Gen.Code.l2_weight = 3 ∧ Gen.Code.l1_threshold = 5 ∧
    (∀ cnt len, Gen.Code.l1_term cnt len = cnt * (len - 2)) ∧ (∀ n, Gen.Code.l1_range n = (5, n + 1)) :=
  ⟨QR.SourceTie.rule3_eq, QR.SourceTie.rule_weights⟩


/-! ### Source tie, part 2 (T2 plugins `tools/t2_fragments/`): (second plugin round, `frag_c.py`) the hand-written Model equals the definitions translated from
    /repo's current Python AST (`QR.Gen.Code`, regenerated on every run). Restated verbatim from `QR/Proofs/SourceTie*.lean`. -/
section SourceTieT2b
open QR.Model QR.Gen QR.Gen.Code QR.SourceTieT

/-- the four comparisons, the skip and the weight of the translated body, spelled out -/
theorem C08_source_lp2_body_src (f g : Nat → Bool) (col lost : Nat) :
    lp2_body f g col lost =
      if f (col + 1) ≠ g (col + 1) then (true, lost)
      else if f (col + 1) ≠ f col then (false, lost)
      else if f (col + 1) ≠ g col then (false, lost)
      else (false, lost + l2_weight) :=
  QR.SourceTieT.lp2_body_src f g col lost

/-- **`_lost_point_level2`**: on an `n × n` matrix the Model's list recursion equals the translated source (outer `for row in
    range(n - 1)`, inner `for col in iter(range(n - 1))` with the translated body, `lost_point` threaded through) -/
theorem C08_source_lostPointLevel2_src (M : BMat) (n : Nat) (hlen : M.length = n) (hrow : ∀ row ∈ M, row.length = n) :
    level2 M = level2Src M n :=
  QR.SourceTieT.lostPointLevel2_src M n hlen hrow

/-- the translated step / flush of both scanners are the same function of the cell they read -/
theorem C08_source_lp1_step_src (m : Nat → Nat → Bool) (o i : Nat) (p : Bool) (len : Nat) (c : List Nat) :
    lp1_row_step m o i p len c = lp1_lineStep (m o i) (p, len, c) ∧ lp1_col_step m o i p len c = lp1_lineStep (m i o) (p, len, c) ∧
    lp1_row_flush m o p len c = lp1_lineFlush (p, len, c) ∧ lp1_col_flush m o p len c = lp1_lineFlush (p, len, c) ∧
    lp1_row_init m o = (m o 0, 0) ∧ lp1_col_init m o = (m 0 o, 0) :=
  QR.SourceTieT.lp1_step_src m o i p len c

/-- **`_lost_point_level1`**: on an `n × n` matrix the Model (`lineRuns` of all rows and columns, histogram by `count`,
    weighted sum) equals the translated source (row scanners and column scanners updating `container`, final sum) -/
theorem C08_source_lostPointLevel1_src (M : BMat) (n : Nat) (hlen : M.length = n) (hrow : ∀ row ∈ M, row.length = n) :
    level1 M n = level1Src M n :=
  QR.SourceTieT.lostPointLevel1_src M n hlen hrow

/-- `sum(map(sum, modules))` is the Model's dark count -/
theorem C08_source_lp4_dark_count_src (M : BMat) : lp4_dark_count M = darkCount M :=
  QR.SourceTieT.lp4_dark_count_src M

/-- **`_lost_point_level4`**: the Model's integer form equals the EXACT (rational-arithmetic) value of the translated Python
    expression `int(abs(float(dark_count) / modules_count ** 2 * 100 - 50) / 5) * 10`, for every matrix and every `n`.
    (Assumption outside Lean: the IEEE double evaluation yields the same integer as the exact evaluation.) -/
theorem C08_source_lostPointLevel4_src (M : BMat) (n : Nat) :
    (level4 M n : Int) = lp4_result (lp4_dark_count M) n :=
  QR.SourceTieT.lostPointLevel4_src M n

end SourceTieT2b

/-! ### Source tie, part 3 (T2 plugin `tools/t2_fragments/frag_d3.py`): `_lost_point_level3` with its two loops and iterator
    skipping, and `lost_point` as a whole. Restated verbatim from `QR/Proofs/SourceTieD3.lean`. -/
section SourceTieD3
open QR.Model QR.Gen QR.Gen.Code QR.SourceTieT QR.SourceTieD3

/-- the translated body of the ROW pass of `util._lost_point_level3` (`for col in modules_range_short_iter`, reading
    `this_row[col + k]` = `modules[row][col + k]`) is the Model's window test `cond3`, weight 40 and Horspool skip (`stepSpec`) -/
theorem C08_source_row_step_src (m : Nat → Nat → Bool) (row col lost : Nat) :
    l3f_row_step m row col lost = stepSpec (fun c => m row c) col lost :=
  QR.SourceTieD3.row_step_src m row col lost

/-- the translated body of the COLUMN pass of `util._lost_point_level3` (`for row in modules_range_short_iter`, reading
    `modules[row + k][col]`) is the Model's window test `cond3`, weight 40 and Horspool skip (`stepSpec`) -/
theorem C08_source_col_step_src (m : Nat → Nat → Bool) (col row lost : Nat) :
    l3f_col_step m col row lost = stepSpec (fun r => m r col) row lost :=
  QR.SourceTieD3.col_step_src m col row lost

/-- the literals of the translation of `util._lost_point_level3`: `range(modules_count)`, `range(modules_count - 10)`,
    `lost_point = 0`, the dead stores `col = 0` / `row = 0`, order and kind of the statements before each inner loop -/
theorem C08_source_level3_literals :
    (∀ n, l3f_range0_stop n = (n : Int)) ∧ (∀ n, l3f_range1_stop n = (n : Int) - 10) ∧ l3f_init = 0 ∧
    l3f_row_dead_init = 0 ∧ l3f_col_dead_init = 0 ∧
    l3f_row_prologue = ["alias this_row", "iter modules_range_short_iter", "init col"] ∧
    l3f_col_prologue = ["iter modules_range_short_iter", "init row"] :=
  QR.SourceTieD3.level3_literals

/-- **`util._lost_point_level3`, complete** = `Model.level3`: on every `n × n` matrix (every `n ≥ 0`) the Model's list
    recursion `l3scan` over all rows and columns equals the translated source (both passes, `iter(range(n - 10))`, the
    translated bodies, `next(it, None)` as one more advance of the iterator position) -/
theorem C08_source_lostPointLevel3_src (M : BMat) (n : Nat) (hlen : M.length = n) (hrow : ∀ row ∈ M, row.length = n) :
    level3 M n = l3f_level3 (lp_cell M) n :=
  QR.SourceTieD3.lostPointLevel3_src M n hlen hrow

/-- both inner loops of `util._lost_point_level3` (`for col/row in modules_range_short_iter` with `next(it, None)` inside)
    terminate, and the fuel the translated `l3f_level3` runs them with gives the result of the fuel-free semantics `IterFor` -/
theorem C08_source_inner_loops_terminate (m : Nat → Nat → Bool) (o stop lost : Nat) :
    IterFor stop (l3f_row_step m o) 0 lost (l3f_iter_run stop (l3f_row_step m o) stop 0 lost) ∧
    IterFor stop (l3f_col_step m o) 0 lost (l3f_iter_run stop (l3f_col_step m o) stop 0 lost) :=
  QR.SourceTieD3.inner_loops_terminate m o stop lost

/-- the callees of `util.lost_point`, in call order -/
theorem C08_source_lost_point_literals : l3f_lost_point_callees =
    ["_lost_point_level1", "_lost_point_level2", "_lost_point_level3", "_lost_point_level4"] :=
  QR.SourceTieD3.lost_point_literals

/-- **`util.lost_point`** = `Model.lostPoint`: the translated function (`len(modules)`, the four calls and their sum, in
    statement order) applied to the four TRANSLATED scanners, for every square matrix -/
theorem C08_source_lost_point_src (M : BMat) (hrow : ∀ row ∈ M, row.length = M.length) :
    lostPoint M = l3f_lost_point List.length level1Src level2Src (fun M n => l3f_level3 (lp_cell M) n)
      (fun M n => (lp4_result (lp4_dark_count M) n).toNat) M :=
  QR.SourceTieD3.lost_point_src M hrow

end SourceTieD3

/-! ### Capstones: the property composed with the source tie. The TRANSLATED SOURCE ITSELF (`QR.Gen.Code`, regenerated
    from /repo's current Python AST on every run) satisfies the ISO statement, for all inputs; no `QR.Model` function
    occurs in a conclusion. `level1Src` / `level2Src` (QR/Proofs/SourceTieT3.lean) are the translated fragments of
    `_lost_point_level1` / `_lost_point_level2` (`lp1_*`, `l1_*`, `lp2_*` of `Gen.Code`) assembled by the loop
    combinators written there (`foldl` over `range`, `lp2_iterLoop` for `next(it)`); `lp_cell M r c` is `modules[r][c]`. -/
section Capstone
open QR.Model QR.Gen QR.Gen.Code QR.SourceTieT QR.SourceTieD3

/-- **capstone, `qrcode/util.py:lost_point`** (with all four callees `_lost_point_level1..4` TRANSLATED; rule 4 through the
    exact-arithmetic reading of its float expression, see `C08_source_lostPointLevel4_src`): for every `n × n` matrix,
    `n ≥ 1`, the translated `lost_point` returns the ISO 18004 penalty `Spec.penalty M = N1 + N2 + N3 + N4`.
    From `C08_source_lost_point_src` and `C08_lost_point`. -/
theorem C08_source_capstone_lost_point (M : BMat) (n : Nat) (hn : 1 ≤ n) (hlen : M.length = n)
    (hrow : ∀ row ∈ M, row.length = n) :
    l3f_lost_point List.length level1Src level2Src (fun M n => l3f_level3 (lp_cell M) n)
      (fun M n => (lp4_result (lp4_dark_count M) n).toNat) M = Spec.penalty M := by
  rw [← C08_source_lost_point_src M (fun row h => (hrow row h).trans hlen.symm)]
  exact C08_lost_point M n hn hlen hrow

/-- **capstone, `qrcode/util.py:_lost_point_level3`** (complete: both passes, `iter(range(n - 10))`, `next(it, None)`): on every
    `n × n` matrix (every `n ≥ 0`) the translated function returns ISO rule 3, `Spec.N3 M n` = 40 per 1:1:3:1:1 window with
    four light modules on one side, rows and columns. From `C08_source_lostPointLevel3_src` and `C08_rule3`. -/
theorem C08_source_capstone_rule3 (M : BMat) (n : Nat) (hlen : M.length = n) (hrow : ∀ row ∈ M, row.length = n) :
    l3f_level3 (lp_cell M) n = Spec.N3 M n := by
  rw [← C08_source_lostPointLevel3_src M n hlen hrow]
  exact C08_rule3 M n

/-- **capstone, `qrcode/util.py:_lost_point_level1`** (translated fragments assembled as `level1Src`): on every `n × n` matrix the
    source returns ISO rule 1, `Spec.N1 M n` = L − 2 per run of L ≥ 5 same-colour modules, rows and columns.
    From `C08_source_lostPointLevel1_src` and `C08_rule1`. -/
theorem C08_source_capstone_rule1 (M : BMat) (n : Nat) (hlen : M.length = n) (hrow : ∀ row ∈ M, row.length = n) :
    level1Src M n = Spec.N1 M n := by
  rw [← C08_source_lostPointLevel1_src M n hlen hrow]
  exact C08_rule1 M n hlen hrow

/-- **capstone, `qrcode/util.py:_lost_point_level2`** (translated fragments assembled as `level2Src`): on every `n × n` matrix the
    source returns ISO rule 2, `Spec.N2 M` = 3 per monochrome 2x2 block. From `C08_source_lostPointLevel2_src` and `C08_rule2`. -/
theorem C08_source_capstone_rule2 (M : BMat) (n : Nat) (hlen : M.length = n) (hrow : ∀ row ∈ M, row.length = n) :
    level2Src M n = Spec.N2 M := by
  rw [← C08_source_lostPointLevel2_src M n hlen hrow]
  exact C08_rule2 M

/-- **capstone, `qrcode/util.py:_lost_point_level4`**: on every `n × n` matrix, `n ≥ 1`, the EXACT (rational-arithmetic) value of the
    translated expression `int(abs(float(dark_count) / modules_count ** 2 * 100 - 50) / 5) * 10` with the translated
    `dark_count = sum(map(sum, modules))` is ISO rule 4, `Spec.N4 M n` = 10 per full 5 % step away from 50 % dark.
    (Outside Lean, as in `C08_source_lostPointLevel4_src`: IEEE double evaluation gives the same integer.)
    From `C08_source_lostPointLevel4_src` and `C08_rule4`. -/
theorem C08_source_capstone_rule4 (M : BMat) (n : Nat) (hn : 0 < n) (hlen : M.length = n)
    (hrow : ∀ row ∈ M, row.length = n) :
    lp4_result (lp4_dark_count M) n = (Spec.N4 M n : Int) := by
  rw [← C08_source_lostPointLevel4_src M n, C08_rule4 M n hn hlen hrow]

/-- the capstones at a concrete 6x6 matrix (a long run, a 2x2 block, skewed dark ratio): the translated `lost_point`
    is the ISO penalty of that matrix, which is 10 -/
example : let M : BMat := [[true,true,true,true,true,true],[true,true,false,false,false,false],[false,true,false,true,false,true],
                           [true,false,true,false,true,false],[false,false,false,false,false,true],[true,false,true,true,false,true]]
    l3f_lost_point List.length level1Src level2Src (fun M n => l3f_level3 (lp_cell M) n)
      (fun M n => (lp4_result (lp4_dark_count M) n).toNat) M = Spec.penalty M ∧ Spec.penalty M = 10 :=
  ⟨C08_source_capstone_lost_point _ 6 (by decide) rfl (by decide), by decide⟩

/-- the same evaluated directly by the kernel on the translated definitions -/
example : l3f_lost_point List.length level1Src level2Src (fun M n => l3f_level3 (lp_cell M) n)
      (fun M n => (lp4_result (lp4_dark_count M) n).toNat)
      [[true,true,true,true,true,true],[true,true,false,false,false,false],[false,true,false,true,false,true],
       [true,false,true,false,true,false],[false,false,false,false,false,true],[true,false,true,true,false,true]] = 10 := by decide

end Capstone

/-- the Python functions this property's model mirrors have, in /repo's current working tree, exactly the normalised
    ASTs the model was written and validated against (fingerprints regenerated by T1 on every run) -/
theorem C08_source_fingerprints : QR.Gen.fp_C08 = QR.Pinned.fp_C08 := by decide

end QR.Props
