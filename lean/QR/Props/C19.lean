import QR.Model.Threads
import QR.Proofs.Pinned
/-
C19 - independent objects are thread-safe under every interleaving of the shared accesses.
Atomicity granularity (single dict operations under the GIL) and completeness of the shared-state inventory are
assumptions, validated by the deterministic scheduler and the static inventory of the check.
-/
namespace QR.Props
open QR QR.Model

/-- the cache holds nothing but the blank of its key -/
def SharedInv (blankOf : Nat → Mat) (sh : Shared) : Prop := ∀ v b, sh.blanks v = some b → b = blankOf v

/-- everything a thread has observed so far is the blank of the version it asked for -/
def LogOK (blankOf : Nat → Mat) (t : Thr) : Prop := ∀ e ∈ t.log, e.2 = some (blankOf e.1)

/-- while a thread sits between its membership test and its read, the entry it saw is still there (nobody deletes) -/
def PhaseOK (sh : Shared) (t : Thr) : Prop :=
  t.phase = .load → ∀ v rest, t.todo = v :: rest → (sh.blanks v).isSome = true

theorem step_inv (blankOf : Nat → Mat) (sh : Shared) (t : Thr) (hs : SharedInv blankOf sh) :
    SharedInv blankOf (stepThr blankOf sh t).1 := by
  unfold stepThr
  cases htodo : t.todo with
  | nil => exact hs
  | cons v rest =>
    cases hp : t.phase with
    | probe => simp only; split <;> exact hs
    | load => exact hs
    | store =>
      simp only
      intro w b hw
      by_cases h : w = v
      · simp [h] at hw; rw [← hw, h]
      · simp [h] at hw; exact hs w b hw

theorem step_log (blankOf : Nat → Mat) (sh : Shared) (t : Thr) (hs : SharedInv blankOf sh)
    (hl : LogOK blankOf t) (hp : PhaseOK sh t) : LogOK blankOf (stepThr blankOf sh t).2 := by
  unfold stepThr
  cases htodo : t.todo with
  | nil => exact hl
  | cons v rest =>
    cases hph : t.phase with
    | probe => simp only; split <;> exact hl
    | load =>
      simp only
      intro e he
      rcases List.mem_append.mp he with he | he
      · exact hl e he
      · simp only [List.mem_singleton] at he
        subst he
        have hsome := hp hph v rest htodo
        cases hb : sh.blanks v with
        | none => simp [hb] at hsome
        | some b => simp [hs v b hb]
    | store =>
      simp only
      intro e he
      rcases List.mem_append.mp he with he | he
      · exact hl e he
      · simp only [List.mem_singleton] at he
        subst he; rfl

/-- entries are never removed: whatever is present stays present under any step of any thread -/
theorem step_mono (blankOf : Nat → Mat) (sh : Shared) (t : Thr) (w : Nat)
    (h : (sh.blanks w).isSome = true) : ((stepThr blankOf sh t).1.blanks w).isSome = true := by
  unfold stepThr
  cases htodo : t.todo with
  | nil => exact h
  | cons v rest =>
    cases hp : t.phase with
    | probe => simp only; split <;> exact h
    | load => exact h
    | store =>
      simp only
      by_cases hw : w = v
      · simp [hw]
      · simp [hw, h]

theorem step_phase_self (blankOf : Nat → Mat) (sh : Shared) (t : Thr) (hp : PhaseOK sh t) :
    PhaseOK (stepThr blankOf sh t).1 (stepThr blankOf sh t).2 := by
  unfold stepThr PhaseOK
  cases htodo : t.todo with
  | nil => simpa [PhaseOK, htodo] using hp
  | cons v rest =>
    cases hph : t.phase with
    | probe =>
      simp only
      split
      · rename_i hsome
        intro _ v' rest' hv'
        simp only [htodo] at hv'
        injection hv' with h1 h2
        subst h1; exact hsome
      · intro hc; cases hc
    | load => simp only; intro hc; cases hc
    | store => simp only; intro hc; cases hc

theorem step_phase_other (blankOf : Nat → Mat) (sh : Shared) (t u : Thr) (hp : PhaseOK sh u) :
    PhaseOK (stepThr blankOf sh t).1 u := by
  intro hl v rest hv
  exact step_mono blankOf sh t v (hp hl v rest hv)

/-- **C19 (schedule independence of the model)**: for any number of threads, any programs and ANY schedule, starting
    from a cache that satisfies the invariant (e.g. cold, or warmed by earlier correct compiles), every makeImpl of every
    thread starts from exactly the blank of its version - i.e. from what it obtains when running alone - and the cache
    invariant holds again at the end -/
theorem C19_schedule_independent (blankOf : Nat → Mat) (sched : List Nat) :
    ∀ (sh : Shared) (ts : List Thr), SharedInv blankOf sh → (∀ t ∈ ts, LogOK blankOf t ∧ PhaseOK sh t) →
      SharedInv blankOf (runSchedule blankOf sh ts sched).1 ∧
      ∀ t ∈ (runSchedule blankOf sh ts sched).2, LogOK blankOf t := by
  induction sched with
  | nil => intro sh ts hs ht; exact ⟨hs, fun t h => (ht t h).1⟩
  | cons i sched ih =>
    intro sh ts hs ht
    unfold runSchedule
    cases hi : ts[i]? with
    | none => exact ih sh ts hs ht
    | some t =>
      simp only
      have htm : t ∈ ts := List.mem_of_getElem? hi
      apply ih
      · exact step_inv blankOf sh t hs
      · intro u hu
        rcases List.mem_or_eq_of_mem_set hu with hu | hu
        · exact ⟨(ht u hu).1, step_phase_other blankOf sh t u (ht u hu).2⟩
        · subst hu
          exact ⟨step_log blankOf sh t hs (ht t htm).1 (ht t htm).2, step_phase_self blankOf sh t (ht t htm).2⟩

/-- non-vacuity: a cold cache and fresh threads satisfy the hypotheses -/
example (blankOf : Nat → Mat) (progs : List (List Nat)) :
    SharedInv blankOf { blanks := fun _ => none } ∧
    ∀ t ∈ progs.map (fun p => ({ todo := p, phase := .probe, log := [] } : Thr)),
      LogOK blankOf t ∧ PhaseOK { blanks := fun _ => none } t := by
  constructor
  · intro v b h; cases h
  · intro t ht
    obtain ⟨p, _, rfl⟩ := List.mem_map.mp ht
    constructor
    · intro e he; cases he
    · intro hc; cases hc

/-- the Python functions this property's model mirrors have, in /repo's current working tree, exactly the normalised
    ASTs the model was written and validated against (fingerprints regenerated by T1 on every run) -/
theorem C19_source_fingerprints : QR.Gen.fp_C19 = QR.Pinned.fp_C19 := by decide

end QR.Props
