import QR.Model.Render
import QR.Spec.Render
import QR.Proofs.Frame
/-
C16 - get_matrix frames the symbol with exactly `border` light modules.
-/
namespace QR.Props
open QR QR.Model

/-- border 0 yields the bare symbol -/
theorem C16_zero (M : Mods) : getMatrix M 0 = M := by simp [getMatrix]

/-- the result has n + 2*border rows -/
theorem C16_rows (M : Mods) (border : Nat) : (getMatrix M border).length = M.length + 2 * border := by
  unfold getMatrix
  split
  · simp_all
  · simp; omega

/-- **C16**: for every n x n module matrix and every border, `get_matrix()` is exactly the symbol framed by `border`
light modules on each side (`Spec.frame`, defined pointwise by `Spec.framed`: position (r, c) is dark iff it lies
inside the n x n window starting at (border, border) and the module there is dark).  For `border = 0` this says that
`M` itself is its own n x n table, which is where the shape hypotheses are needed. -/
theorem C16_frame (M : List (List Bool)) (n border : Nat)
    (hlen : M.length = n) (hrow : ∀ row ∈ M, row.length = n) :
    getMatrix M border = Spec.frame M n border :=
  Proofs.Frame.getMatrix_eq_frame M n border hlen hrow

/-- the result is square of side n + 2*border -/
theorem C16_shape (M : List (List Bool)) (n border : Nat)
    (hlen : M.length = n) (hrow : ∀ row ∈ M, row.length = n) :
    (getMatrix M border).length = n + 2 * border ∧ ∀ row ∈ getMatrix M border, row.length = n + 2 * border :=
  ⟨Proofs.Frame.getMatrix_length M n border hlen hrow, Proofs.Frame.getMatrix_row_length M n border hlen hrow⟩

/-- pointwise form, for all `r c` (outside the result both sides are light) -/
theorem C16_pointwise (M : List (List Bool)) (n border : Nat)
    (hlen : M.length = n) (hrow : ∀ row ∈ M, row.length = n) (r c : Nat) :
    ((getMatrix M border).getD r []).getD c false = Spec.framed M n border r c :=
  Proofs.Frame.getMatrix_getD M n border hlen hrow r c

/-- non-vacuity: a concrete 2 x 2 symbol with border 1; the frame is light and the symbol is kept -/
example : getMatrix [[true, false], [true, true]] 1 =
    [[false, false, false, false], [false, true, false, false], [false, true, true, false],
     [false, false, false, false]] := by decide
example : Spec.frame [[true, false], [true, true]] 2 1 =
    [[false, false, false, false], [false, true, false, false], [false, true, true, false],
     [false, false, false, false]] := by decide
example : getMatrix [[true, false], [true, true]] 1 = Spec.frame [[true, false], [true, true]] 2 1 :=
  C16_frame _ 2 1 rfl (by decide)
/-- the shape hypotheses matter: a ragged "matrix" is not its own frame -/
example : getMatrix [[true], [false, true]] 0 ≠ Spec.frame [[true], [false, true]] 2 0 := by decide

end QR.Props
