import QR.Model.Render
import QR.Spec.Render
import QR.Proofs.Frame
import QR.Proofs.Pinned
import QR.Proofs.Implicit
import QR.Proofs.SourceTieB3
/-
C16 - get_matrix frames the symbol with exactly `border` light modules.
-/
namespace QR.Props
open QR QR.Model

/-- border 0 yields the bare symbol -/
theorem C16_zero (M : Mods) : getMatrix M 0 = M := by simp [getMatrix]

/-- the result has n + 2*border rows -/
theorem C16_rows (M : Mods) (border : Nat) : (getMatrix M border).length = M.length + 2 * border := by
  unfold getMatrix
  split
  · simp_all
  · simp; omega

/-- **C16**: for every n x n module matrix and every border, `get_matrix()` is exactly the symbol framed by `border`
light modules on each side (`Spec.frame`, defined pointwise by `Spec.framed`: position (r, c) is dark iff it lies
inside the n x n window starting at (border, border) and the module there is dark).  For `border = 0` this says that
`M` itself is its own n x n table, which is where the shape hypotheses are needed. -/
theorem C16_frame (M : List (List Bool)) (n border : Nat)
    (hlen : M.length = n) (hrow : ∀ row ∈ M, row.length = n) :
    getMatrix M border = Spec.frame M n border :=
  Proofs.Frame.getMatrix_eq_frame M n border hlen hrow

/-- the result is square of side n + 2*border -/
theorem C16_shape (M : List (List Bool)) (n border : Nat)
    (hlen : M.length = n) (hrow : ∀ row ∈ M, row.length = n) :
    (getMatrix M border).length = n + 2 * border ∧ ∀ row ∈ getMatrix M border, row.length = n + 2 * border :=
  ⟨Proofs.Frame.getMatrix_length M n border hlen hrow, Proofs.Frame.getMatrix_row_length M n border hlen hrow⟩

/-- pointwise form, for all `r c` (outside the result both sides are light) -/
theorem C16_pointwise (M : List (List Bool)) (n border : Nat)
    (hlen : M.length = n) (hrow : ∀ row ∈ M, row.length = n) (r c : Nat) :
    ((getMatrix M border).getD r []).getD c false = Spec.framed M n border r c :=
  Proofs.Frame.getMatrix_getD M n border hlen hrow r c

/-- non-vacuity: a concrete 2 x 2 symbol with border 1; the frame is light and the symbol is kept -/
example : getMatrix [[true, false], [true, true]] 1 =
    [[false, false, false, false], [false, true, false, false], [false, true, true, false],
     [false, false, false, false]] := by decide
example : Spec.frame [[true, false], [true, true]] 2 1 =
    [[false, false, false, false], [false, true, false, false], [false, true, true, false],
     [false, false, false, false]] := by decide
example : getMatrix [[true, false], [true, true]] 1 = Spec.frame [[true, false], [true, true]] 2 1 :=
  C16_frame _ 2 1 rfl (by decide)
/-- the shape hypotheses matter: a ragged "matrix" is not its own frame -/
example : getMatrix [[true], [false, true]] 0 ≠ Spec.frame [[true], [false, true]] 2 0 := by decide


/-! ### Source tie, part 2 (T2 plugins `tools/t2_fragments/`): the hand-written Model equals the definitions translated from
    /repo's current Python AST (`QR.Gen.Code`, regenerated on every run). Restated verbatim from `QR/Proofs/SourceTie*.lean`. -/
section SourceTieT2
open QR.Model QR.Gen.Code QR.SourceTieB

theorem C16_source_getMatrix_literals :
    get_matrix_compile_call = "self.make()" ∧ get_matrix_early_value = "self.modules" ∧
    (∀ len border, get_matrix_width len border = len + border * 2) :=
  QR.SourceTieB.getMatrix_literals

/-- the early-return test is `border = 0` -/
theorem C16_source_get_matrix_early_eq (border : Nat) : get_matrix_early border = decide (border = 0) :=
  QR.SourceTieB.get_matrix_early_eq border

/-- `get_matrix()` once compiled, for every matrix (of any shape) and every border -/
theorem C16_source_getMatrix_src (M : Mods) (border : Nat) :
    getMatrix M border = if get_matrix_early border then M else get_matrix_code false M border :=
  QR.SourceTieB.getMatrix_src M border

/-- the same on the object model's cells (`None` possible before compilation, `False` fill = `some false`) -/
theorem C16_source_framedOpt_src (m : List (List (Option Bool))) (border : Nat) :
    framedOpt m border = if get_matrix_early border then m else get_matrix_code (some false) m border :=
  QR.SourceTieB.framedOpt_src m border

/-- `if self.data_cache is None: self.make()` - with `make`'s default `fit` -/
theorem C16_source_ensureMade_src (st : St) :
    ensureMade st = if get_matrix_compile_test st.2.dataCache.isNone then makeS make_fit_default st else (st, .ok ()) :=
  QR.SourceTieB.ensureMade_src st

end SourceTieT2

/-! ### Capstones: the property composed with the source tie. The TRANSLATED SOURCE ITSELF (`QR.Gen.Code`, regenerated
    from /repo's current Python AST on every run) satisfies the Spec statement, for all inputs; no `QR.Model` function
    occurs in a conclusion. Covered: `qrcode/main.py:QRCode.get_matrix` after its `if self.data_cache is None: self.make()`
    (that implicit compile is NOT part of these capstones - `make` is a callee treated by `C16_implicit_compile`):
    the early return `if not self.border: return self.modules` (`get_matrix_early`) and the framing code
    (`get_matrix_code`, with Python's `False` instantiated by `false`). -/
section Capstone
open QR.Model QR.Gen.Code QR.SourceTieB

/-- **capstone, `qrcode/main.py:QRCode.get_matrix`** (body after the implicit compile): for every `n × n` module matrix and
    every border the translated code returns exactly `Spec.frame M n border`, the symbol framed by `border` light modules
    on each side. From `C16_source_getMatrix_src` and `C16_frame`. -/
theorem C16_source_capstone_frame (M : List (List Bool)) (n border : Nat)
    (hlen : M.length = n) (hrow : ∀ row ∈ M, row.length = n) :
    (if get_matrix_early border then M else get_matrix_code false M border) = Spec.frame M n border := by
  rw [← C16_source_getMatrix_src M border]
  exact C16_frame M n border hlen hrow

/-- **capstone, `qrcode/main.py:QRCode.get_matrix`**, pointwise: position `(r, c)` of the translated code's result is dark iff
    `Spec.framed M n border r c` (it lies in the `n × n` window at `(border, border)` and the module there is dark), for
    ALL `r c` (outside the result both sides are light). From `C16_source_getMatrix_src` and `C16_pointwise`. -/
theorem C16_source_capstone_pointwise (M : List (List Bool)) (n border : Nat)
    (hlen : M.length = n) (hrow : ∀ row ∈ M, row.length = n) (r c : Nat) :
    (((if get_matrix_early border then M else get_matrix_code false M border)).getD r []).getD c false
      = Spec.framed M n border r c := by
  rw [← C16_source_getMatrix_src M border]
  exact C16_pointwise M n border hlen hrow r c

/-- **capstone, `qrcode/main.py:QRCode.get_matrix`**, shape: the translated code's result is square of side `n + 2*border`.
    From `C16_source_getMatrix_src` and `C16_shape`. -/
theorem C16_source_capstone_shape (M : List (List Bool)) (n border : Nat)
    (hlen : M.length = n) (hrow : ∀ row ∈ M, row.length = n) :
    (if get_matrix_early border then M else get_matrix_code false M border).length = n + 2 * border ∧
      ∀ row ∈ (if get_matrix_early border then M else get_matrix_code false M border), row.length = n + 2 * border := by
  rw [← C16_source_getMatrix_src M border]
  exact C16_shape M n border hlen hrow

/-- **capstone, `qrcode/main.py:QRCode.get_matrix`**, border 0: the translated code returns `self.modules` itself, for a matrix of
    any shape. From `C16_source_getMatrix_src` and `C16_zero`. -/
theorem C16_source_capstone_zero (M : Mods) :
    (if get_matrix_early 0 then M else get_matrix_code false M 0) = M := by
  rw [← C16_source_getMatrix_src M 0]
  exact C16_zero M

/-- the capstone at a concrete 2 x 2 symbol with border 1, and the translated code evaluated directly -/
example : (if get_matrix_early 1 then [[true, false], [true, true]] else get_matrix_code false [[true, false], [true, true]] 1)
    = Spec.frame [[true, false], [true, true]] 2 1 :=
  C16_source_capstone_frame _ 2 1 rfl (by decide)
example : (if get_matrix_early 1 then [[true, false], [true, true]] else get_matrix_code false [[true, false], [true, true]] 1)
    = [[false, false, false, false], [false, true, false, false], [false, true, true, false],
       [false, false, false, false]] := by decide

end Capstone

/-- the Python functions this property's model mirrors have, in /repo's current working tree, exactly the normalised
    ASTs the model was written and validated against (fingerprints regenerated by T1 on every run) -/
theorem C16_source_fingerprints : QR.Gen.fp_C16 = QR.Pinned.fp_C16 := by decide

/-! ### compiling the symbol first if necessary (get_matrix, make_image, print_ascii, print_tty) -/

/-- **C16 / C15 (implicit compile)**: on an object that has not been compiled since its last change
    (`data_cache is None`), with a sound process-wide blank cache (`GInv`, = `Global.Inv` of C11: true of the empty
    cache, preserved by every operation), settings the constructor / setters accept (version `None` = 0 or 1..40, mask
    `None` or 0..7, an ISO level) and data as `add_data` produces it, the four entry points that compile implicitly
    behave as a function of the cache-free `compile` of a fresh object with `fit=True`:
    * when that compile yields the symbol `M` at version `v`: `get_matrix()` returns `M` framed by `border` light
      modules, `print_ascii` / `print_tty` render `M` (with `border`, resp. the fixed frame 1), `make_image()` builds
      the image from `border`, `modules_count = 4*v + 17`, `box_size` and `M`;
    * when it overflows (the only possible failure): each raises DataOverflowError;
    * `make_image()` with `box_size ≤ 0` raises ValueError before compiling anything (state unchanged). -/
theorem C16_implicit_compile (g : Global) (s : QRState) (l : Spec.Level)
    (hg : GInv g) (hv : s.version ≤ 40) (hm : ∀ m, s.mask = some m → m ≤ 7) (hl : s.level = l.indicator)
    (hsegs : ∀ x ∈ s.dataList, x.Valid) (hc : s.dataCache = none) :
    match compile { version := s.version, level := s.level, mask := s.mask, fit := true } s.dataList with
    | .ok (v, _, M) =>
        (step (g, s) .getMatrix).2 = .matrix (framedOpt M.toLists s.border) ∧
        (step (g, s) .printAscii).2 = .text s.border M.toLists ∧
        (step (g, s) .printTty).2 = .text 1 M.toLists ∧
        (if s.boxSize ≤ 0 then step (g, s) .makeImage = ((g, s), .err .valueError)
         else (step (g, s) .makeImage).2 = .image s.border (v * 4 + 17) s.boxSize M.toLists)
    | .error e =>
        e = .dataOverflow ∧
        (step (g, s) .getMatrix).2 = .err .dataOverflow ∧
        (step (g, s) .printAscii).2 = .err .dataOverflow ∧
        (step (g, s) .printTty).2 = .err .dataOverflow ∧
        (if s.boxSize ≤ 0 then step (g, s) .makeImage = ((g, s), .err .valueError)
         else (step (g, s) .makeImage).2 = .err .dataOverflow) := by
  have h : Proofs.Implicit.Pre g s l := ⟨hg, hv, hm, hl, hsegs, hc⟩
  have h1 := Proofs.Implicit.step_getMatrix h
  have h2 := Proofs.Implicit.step_printAscii h
  have h3 := Proofs.Implicit.step_printTty h
  have h4 := Proofs.Implicit.step_makeImage h
  change match compile (Proofs.Implicit.freshCfg s) s.dataList with | .ok (v, _, M) => _ | .error e => _
  cases hcmp : compile (Proofs.Implicit.freshCfg s) s.dataList with
  | ok r =>
    obtain ⟨v, m, M⟩ := r
    rw [hcmp] at h1 h2 h3 h4
    refine ⟨h1, h2, h3, ?_⟩
    split
    · rename_i hb; rw [if_pos hb] at h4; exact h4
    · rename_i hb; rw [if_neg hb] at h4; exact h4
  | error e =>
    rw [hcmp] at h1 h2 h3 h4
    refine ⟨h1.1, h1.2, h2.2, h3.2, ?_⟩
    split
    · rename_i hb; rw [if_pos hb] at h4; exact h4
    · rename_i hb; rw [if_neg hb] at h4; exact h4.2

/-- the state after a successful implicit compile, for each of the four entry points: the object is compiled
    (`data_cache` filled) at the compiled version and holds the compiled modules; level, mask, border, box size and
    data are untouched; the blank cache is still sound -/
theorem C16_implicit_state (g : Global) (s : QRState) (l : Spec.Level)
    (hg : GInv g) (hv : s.version ≤ 40) (hm : ∀ m, s.mask = some m → m ≤ 7) (hl : s.level = l.indicator)
    (hsegs : ∀ x ∈ s.dataList, x.Valid) (hc : s.dataCache = none) (op : Op)
    (hop : op = .getMatrix ∨ (op = .makeImage ∧ 0 < s.boxSize) ∨ op = .printAscii ∨ op = .printTty)
    (v m : Nat) (M : Mat)
    (hcmp : compile { version := s.version, level := s.level, mask := s.mask, fit := true } s.dataList = .ok (v, m, M)) :
    GInv (step (g, s) op).1.1 ∧ SameButVersion s (step (g, s) op).1.2 ∧ (step (g, s) op).1.2.version = v ∧
      (step (g, s) op).1.2.modules = M ∧ (step (g, s) op).1.2.dataCache.isSome = true :=
  Proofs.Implicit.step_state ⟨hg, hv, hm, hl, hsegs, hc⟩ op hop v m M hcmp

/-- non-vacuity of the hypotheses of `C16_implicit_compile`: a freshly constructed object (empty blank cache, version
    `None`, level M = indicator 0, no mask, a byte segment) satisfies them -/
example :
    let g : Global := { blanks := [] }
    let s : QRState := { version := 0, level := Spec.Level.M.indicator, mask := none, border := 4, boxSize := 10,
                         dataList := [⟨4, [104, 105]⟩], dataCache := none, modules := #[#[]], modulesCount := 0 }
    GInv g ∧ s.version ≤ 40 ∧ (∀ m, s.mask = some m → m ≤ 7) ∧ s.level = Spec.Level.M.indicator ∧
      (∀ x ∈ s.dataList, x.Valid) ∧ s.dataCache = none := by
  intro g s
  refine ⟨fun v b h => (by cases h), (by decide), fun m h => (by cases h), rfl, fun x hx => ?_, rfl⟩
  simp only [s, List.mem_singleton] at hx
  subst hx
  exact Or.inr (Or.inr ⟨rfl, by decide⟩)

end QR.Props
