import QR.Model.Render
import QR.Spec.Render
/-
C16 - get_matrix frames the symbol with exactly `border` light modules.
-/
namespace QR.Props
open QR QR.Model

/-- border 0 yields the bare symbol -/
theorem C16_zero (M : Mods) : getMatrix M 0 = M := by simp [getMatrix]

/-- the result has n + 2*border rows -/
theorem C16_rows (M : Mods) (border : Nat) : (getMatrix M border).length = M.length + 2 * border := by
  unfold getMatrix
  split
  · simp_all
  · simp; omega

end QR.Props
