import QR.Model.Cli
import QR.Proofs.Segmentation
import QR.Proofs.Pinned
/-
C17 - the `qr` command: decision logic (payload, options, sink independence, rejection).
The image/ASCII output then decodes to the payload by C01 + C12/C13/C15 (renderers) - composed by the oracle sweep.
-/
namespace QR.Props
open QR QR.Model

/-- **options**: the threshold handed to add_data is the given one, or the library default 20 -/
theorem C17_optimize (i : CliInput) : segsOf i = addData (i.arg.getD i.stdin) (i.optimize.getD 20) := rfl

/-- what `drawerAliases` is on the shipped tables: only the two standalone SVG factories accept drawers, and only
    their three aliases (tables regenerated from the source) -/
theorem C17_tables :
    drawerAliases none = [] ∧ drawerAliases (some "pil") = [] ∧ drawerAliases (some "png") = [] ∧
    drawerAliases (some "svg-fragment") = [] ∧
    drawerAliases (some "svg") = ["circle", "gapped-circle", "gapped-square"] ∧
    drawerAliases (some "svg-path") = ["circle", "gapped-circle", "gapped-square"] := by decide

/-- **options**: the level letters map to the ISO levels; tables regenerated from the source -/
theorem C17_levels : Gen.CLI_LEVELS.lookup "L" = some Gen.ERROR_CORRECT_L ∧ Gen.CLI_LEVELS.lookup "M" = some Gen.ERROR_CORRECT_M ∧
    Gen.CLI_LEVELS.lookup "Q" = some Gen.ERROR_CORRECT_Q ∧ Gen.CLI_LEVELS.lookup "H" = some Gen.ERROR_CORRECT_H := by decide

/-- the shape of every non-failing outcome of `cli` -/
private theorem cli_cases (i : CliInput) :
    (cli i = .fail ∧ (Gen.CLI_LEVELS.lookup i.level = none ∨ factoryOK i = false ∨ drawerOK i = false)) ∨
    (∃ l, Gen.CLI_LEVELS.lookup i.level = some l ∧ factoryOK i = true ∧ drawerOK i = true ∧
      ((∃ path, i.output = some path ∧ cli i = .image i.factory i.drawer l (segsOf i) (.file path)) ∨
       (i.output = none ∧ (i.factory.isNone && (i.stdoutIsTty || i.ascii)) = true ∧
          cli i = .ascii (!i.ascii) l (segsOf i)) ∨
       (i.output = none ∧ (i.factory.isNone && (i.stdoutIsTty || i.ascii)) = false ∧
          cli i = .image i.factory i.drawer l (segsOf i) .stdout))) := by
  cases hl : Gen.CLI_LEVELS.lookup i.level with
  | none => left; simp [cli, hl]
  | some l =>
    cases hf : factoryOK i with
    | false => left; simp [cli, hl, hf]
    | true =>
      cases hd : drawerOK i with
      | false => left; simp [cli, hl, hf, hd]
      | true =>
        right
        refine ⟨l, rfl, rfl, rfl, ?_⟩
        cases ho : i.output with
        | some path => left; exact ⟨path, rfl, by simp [cli, hl, hf, hd, ho]⟩
        | none =>
          right
          cases hc : (i.factory.isNone && (i.stdoutIsTty || i.ascii)) with
          | true => left; exact ⟨rfl, rfl, by simp only [cli, hl, hf, hd, ho, hc]; simp⟩
          | false => right; exact ⟨rfl, rfl, by simp only [cli, hl, hf, hd, ho, hc]; simp⟩

theorem segsOf_flatMap_data (i : CliInput) : (segsOf i).flatMap (·.data) = i.arg.getD i.stdin :=
  _root_.QR.addData_flatMap_data _ _

/-- **options**: what reaches the library is exactly what was given on the command line -/
theorem C17_options (i : CliInput) :
    (∀ f d l segs s, cli i = .image f d l segs s →
      Gen.CLI_LEVELS.lookup i.level = some l ∧ f = i.factory ∧ d = i.drawer ∧ segs = segsOf i) ∧
    (∀ tty l segs, cli i = .ascii tty l segs →
      Gen.CLI_LEVELS.lookup i.level = some l ∧ tty = (!i.ascii) ∧ segs = segsOf i) := by
  rcases cli_cases i with ⟨h, _⟩ | ⟨l, hl, _, _, ⟨path, _, h⟩ | ⟨_, _, h⟩ | ⟨_, _, h⟩⟩ <;>
    rw [h] <;> refine ⟨?_, ?_⟩ <;> intros <;> simp_all

/-- **payload**: the segments handed to the encoder carry exactly the argument, or else exactly standard input -/
theorem C17_payload (i : CliInput) :
    (∀ tty l segs, cli i = .ascii tty l segs → segs.flatMap (·.data) = i.arg.getD i.stdin) ∧
    (∀ f d l segs s, cli i = .image f d l segs s → segs.flatMap (·.data) = i.arg.getD i.stdin) := by
  refine ⟨?_, ?_⟩
  · intro tty l segs h
    rw [((C17_options i).2 tty l segs h).2.2]; exact segsOf_flatMap_data i
  · intro f d l segs s h
    rw [((C17_options i).1 f d l segs s h).2.2.2]; exact segsOf_flatMap_data i

/-- **rejection**: an unknown level letter, an unusable factory or a drawer the factory does not have: failure -/
theorem C17_reject (i : CliInput)
    (h : Gen.CLI_LEVELS.lookup i.level = none ∨ factoryOK i = false ∨ drawerOK i = false) : cli i = .fail := by
  rcases cli_cases i with ⟨h', _⟩ | ⟨l, hl, hf, hd, _⟩
  · exact h'
  · rw [hl, hf, hd] at h; simp at h

/-- ... and these are the only failures -/
theorem C17_fail_iff (i : CliInput) :
    cli i = .fail ↔
      (Gen.CLI_LEVELS.lookup i.level = none ∨ factoryOK i = false ∨ drawerOK i = false) := by
  refine ⟨fun h => ?_, C17_reject i⟩
  rcases cli_cases i with ⟨_, h'⟩ | ⟨l, _, _, _, ⟨path, _, h'⟩ | ⟨_, _, h'⟩ | ⟨_, _, h'⟩⟩
  · exact h'
  all_goals rw [h'] at h; cases h

/-- **sink independence**: when an image is written, `--output` only changes where it goes -/
theorem C17_sink_independent (i : CliInput) (path : String) (f d l segs)
    (h : cli { i with output := some path } = .image f d l segs (.file path))
    (hc : i.factory.isSome ∨ (i.stdoutIsTty = false ∧ i.ascii = false)) :
    cli { i with output := none } = .image f d l segs .stdout := by
  have hcond : ((i.factory.isNone && (i.stdoutIsTty || i.ascii))) = false := by
    rcases hc with hc | ⟨h1, h2⟩
    · cases hf : i.factory with
      | none => rw [hf] at hc; cases hc
      | some _ => rfl
    · rw [h1, h2]; simp
  rcases cli_cases { i with output := some path } with ⟨h', _⟩ | ⟨l', hl, hf, hd, hrest⟩
  · rw [h'] at h; cases h
  · obtain ⟨hl0, hf0, hd0, hs0⟩ := (C17_options _).1 f d l segs _ h
    subst hf0 hd0 hs0
    have hl' : Gen.CLI_LEVELS.lookup i.level = some l := hl0
    have hf' : factoryOK { i with output := none } = true := hf
    have hd' : drawerOK { i with output := none } = true := hd
    simp only [cli, hl', hf', hd', hcond]
    simp
    rfl

/-- the Python functions this property's model mirrors have, in /repo's current working tree, exactly the normalised
    ASTs the model was written and validated against (fingerprints regenerated by T1 on every run) -/
theorem C17_source_fingerprints : QR.Gen.fp_C17 = QR.Pinned.fp_C17 := by decide

end QR.Props
