import QR.Model.Cli
import QR.Proofs.Segmentation
/-
C17 - the `qr` command: decision logic (payload, options, sink independence, rejection).
The image/ASCII output then decodes to the payload by C01 + C12/C13/C15 (renderers) - composed by the oracle sweep.
-/
namespace QR.Props
open QR QR.Model

/-- **options**: the threshold handed to add_data is the given one, or the library default 20 -/
theorem C17_optimize (i : CliInput) : segsOf i = addData (i.arg.getD i.stdin) (i.optimize.getD 20) := rfl

/-- what `drawerAliases` is on the shipped tables: only the two standalone SVG factories accept drawers, and only
    their three aliases (tables regenerated from the source) -/
theorem C17_tables :
    drawerAliases none = [] ∧ drawerAliases (some "pil") = [] ∧ drawerAliases (some "png") = [] ∧
    drawerAliases (some "svg-fragment") = [] ∧
    drawerAliases (some "svg") = ["circle", "gapped-circle", "gapped-square"] ∧
    drawerAliases (some "svg-path") = ["circle", "gapped-circle", "gapped-square"] := by decide

/-- **options**: the level letters map to the ISO levels; tables regenerated from the source -/
theorem C17_levels : Gen.CLI_LEVELS.lookup "L" = some Gen.ERROR_CORRECT_L ∧ Gen.CLI_LEVELS.lookup "M" = some Gen.ERROR_CORRECT_M ∧
    Gen.CLI_LEVELS.lookup "Q" = some Gen.ERROR_CORRECT_Q ∧ Gen.CLI_LEVELS.lookup "H" = some Gen.ERROR_CORRECT_H := by decide

end QR.Props
