import QR.Model.Cli
import QR.Proofs.Segmentation
import QR.Proofs.Pinned
import QR.Proofs.SourceTieT6
import QR.Proofs.SourceTieD6c
/-
C17 - the `qr` command: decision logic (payload, options, sink independence, rejection).
The image/ASCII output then decodes to the payload by C01 + C12/C13/C15 (renderers) - composed by the oracle sweep.
-/
namespace QR.Props
open QR QR.Model

/-- **options**: the threshold handed to add_data is the given one, or the library default 20 -/
theorem C17_optimize (i : CliInput) : segsOf i = addData (i.arg.getD i.stdin) (i.optimize.getD 20) := rfl

/-- what `drawerAliases` is on the shipped tables: only the two standalone SVG factories accept drawers, and only
    their three aliases (tables regenerated from the source) -/
theorem C17_tables :
    drawerAliases none = [] ∧ drawerAliases (some "pil") = [] ∧ drawerAliases (some "png") = [] ∧
    drawerAliases (some "svg-fragment") = [] ∧
    drawerAliases (some "svg") = ["circle", "gapped-circle", "gapped-square"] ∧
    drawerAliases (some "svg-path") = ["circle", "gapped-circle", "gapped-square"] := by decide

/-- **options**: the level letters map to the ISO levels; tables regenerated from the source -/
theorem C17_levels : Gen.CLI_LEVELS.lookup "L" = some Gen.ERROR_CORRECT_L ∧ Gen.CLI_LEVELS.lookup "M" = some Gen.ERROR_CORRECT_M ∧
    Gen.CLI_LEVELS.lookup "Q" = some Gen.ERROR_CORRECT_Q ∧ Gen.CLI_LEVELS.lookup "H" = some Gen.ERROR_CORRECT_H := by decide

/-- the shape of every non-failing outcome of `cli` -/
private theorem cli_cases (i : CliInput) :
    (cli i = .fail ∧ (Gen.CLI_LEVELS.lookup i.level = none ∨ factoryOK i = false ∨ drawerOK i = false)) ∨
    (∃ l, Gen.CLI_LEVELS.lookup i.level = some l ∧ factoryOK i = true ∧ drawerOK i = true ∧
      ((∃ path, i.output = some path ∧ cli i = .image i.factory i.drawer l (segsOf i) (.file path)) ∨
       (i.output = none ∧ (i.factory.isNone && (i.stdoutIsTty || i.ascii)) = true ∧
          cli i = .ascii (!i.ascii) l (segsOf i)) ∨
       (i.output = none ∧ (i.factory.isNone && (i.stdoutIsTty || i.ascii)) = false ∧
          cli i = .image i.factory i.drawer l (segsOf i) .stdout))) := by
  cases hl : Gen.CLI_LEVELS.lookup i.level with
  | none => left; simp [cli, hl]
  | some l =>
    cases hf : factoryOK i with
    | false => left; simp [cli, hl, hf]
    | true =>
      cases hd : drawerOK i with
      | false => left; simp [cli, hl, hf, hd]
      | true =>
        right
        refine ⟨l, rfl, rfl, rfl, ?_⟩
        cases ho : i.output with
        | some path => left; exact ⟨path, rfl, by simp [cli, hl, hf, hd, ho]⟩
        | none =>
          right
          cases hc : (i.factory.isNone && (i.stdoutIsTty || i.ascii)) with
          | true => left; exact ⟨rfl, rfl, by simp only [cli, hl, hf, hd, ho, hc]; simp⟩
          | false => right; exact ⟨rfl, rfl, by simp only [cli, hl, hf, hd, ho, hc]; simp⟩

theorem segsOf_flatMap_data (i : CliInput) : (segsOf i).flatMap (·.data) = i.arg.getD i.stdin :=
  _root_.QR.addData_flatMap_data _ _

/-- **options**: what reaches the library is exactly what was given on the command line -/
theorem C17_options (i : CliInput) :
    (∀ f d l segs s, cli i = .image f d l segs s →
      Gen.CLI_LEVELS.lookup i.level = some l ∧ f = i.factory ∧ d = i.drawer ∧ segs = segsOf i) ∧
    (∀ tty l segs, cli i = .ascii tty l segs →
      Gen.CLI_LEVELS.lookup i.level = some l ∧ tty = (!i.ascii) ∧ segs = segsOf i) := by
  rcases cli_cases i with ⟨h, _⟩ | ⟨l, hl, _, _, ⟨path, _, h⟩ | ⟨_, _, h⟩ | ⟨_, _, h⟩⟩ <;>
    rw [h] <;> refine ⟨?_, ?_⟩ <;> intros <;> simp_all

/-- **payload**: the segments handed to the encoder carry exactly the argument, or else exactly standard input -/
theorem C17_payload (i : CliInput) :
    (∀ tty l segs, cli i = .ascii tty l segs → segs.flatMap (·.data) = i.arg.getD i.stdin) ∧
    (∀ f d l segs s, cli i = .image f d l segs s → segs.flatMap (·.data) = i.arg.getD i.stdin) := by
  refine ⟨?_, ?_⟩
  · intro tty l segs h
    rw [((C17_options i).2 tty l segs h).2.2]; exact segsOf_flatMap_data i
  · intro f d l segs s h
    rw [((C17_options i).1 f d l segs s h).2.2.2]; exact segsOf_flatMap_data i

/-- **rejection**: an unknown level letter, an unusable factory or a drawer the factory does not have: failure -/
theorem C17_reject (i : CliInput)
    (h : Gen.CLI_LEVELS.lookup i.level = none ∨ factoryOK i = false ∨ drawerOK i = false) : cli i = .fail := by
  rcases cli_cases i with ⟨h', _⟩ | ⟨l, hl, hf, hd, _⟩
  · exact h'
  · rw [hl, hf, hd] at h; simp at h

/-- ... and these are the only failures -/
theorem C17_fail_iff (i : CliInput) :
    cli i = .fail ↔
      (Gen.CLI_LEVELS.lookup i.level = none ∨ factoryOK i = false ∨ drawerOK i = false) := by
  refine ⟨fun h => ?_, C17_reject i⟩
  rcases cli_cases i with ⟨_, h'⟩ | ⟨l, _, _, _, ⟨path, _, h'⟩ | ⟨_, _, h'⟩ | ⟨_, _, h'⟩⟩
  · exact h'
  all_goals rw [h'] at h; cases h

/-- **sink independence**: when an image is written, `--output` only changes where it goes -/
theorem C17_sink_independent (i : CliInput) (path : String) (f d l segs)
    (h : cli { i with output := some path } = .image f d l segs (.file path))
    (hc : i.factory.isSome ∨ (i.stdoutIsTty = false ∧ i.ascii = false)) :
    cli { i with output := none } = .image f d l segs .stdout := by
  have hcond : ((i.factory.isNone && (i.stdoutIsTty || i.ascii))) = false := by
    rcases hc with hc | ⟨h1, h2⟩
    · cases hf : i.factory with
      | none => rw [hf] at hc; cases hc
      | some _ => rfl
    · rw [h1, h2]; simp
  rcases cli_cases { i with output := some path } with ⟨h', _⟩ | ⟨l', hl, hf, hd, hrest⟩
  · rw [h'] at h; cases h
  · obtain ⟨hl0, hf0, hd0, hs0⟩ := (C17_options _).1 f d l segs _ h
    subst hf0 hd0 hs0
    have hl' : Gen.CLI_LEVELS.lookup i.level = some l := hl0
    have hf' : factoryOK { i with output := none } = true := hf
    have hd' : drawerOK { i with output := none } = true := hd
    simp only [cli, hl', hf', hd', hcond]
    simp
    rfl


/-! ### Source tie, part 2 (T2 plugins `tools/t2_fragments/`): (second plugin round, `frag_c.py`) the hand-written Model equals the definitions translated from
    /repo's current Python AST (`QR.Gen.Code`, regenerated on every run). Restated verbatim from `QR/Proofs/SourceTie*.lean`. -/
section SourceTieT2b
open QR.Model QR.Gen QR.Gen.Code QR.SourceTieT

/-- `default_factories`, read from the AST, is the table the Model uses (gen_tables imports the module at run time) -/
theorem C17_source_cli_default_factories_src : Gen.CLI_FACTORIES = cli_default_factories :=
  QR.SourceTieT.cli_default_factories_src

/-- the `error_correction` dict of the source (key order of the source) and the Model's table (sorted) agree on every key -/
theorem C17_source_cli_error_correction_src (s : String) : Gen.CLI_LEVELS.lookup s = cli_error_correction.lookup s :=
  QR.SourceTieT.cli_error_correction_src s

/-- optparse accepts the level letter iff the Model's table has it -/
theorem C17_source_cli_choices_src (s : String) : cli_choices_error_correction.contains s = (Gen.CLI_LEVELS.lookup s).isSome :=
  QR.SourceTieT.cli_choices_src s

/-- the option table: option strings, `dest`, action, type and default of every `parser.add_option` call, in order; these are
    the fields of `Model.CliInput` (factory, drawer, optimize, level, ascii, output) with their types and defaults -/
theorem C17_source_cli_options_src :
    cli_options.map (fun o => (o.names, o.dest, o.action, o.type, o.default)) =
      [(["--factory"], "factory", "store", "string", "None"),
       (["--factory-drawer"], "factory_drawer", "store", "string", "None"),
       (["--optimize"], "optimize", "store", "int", "None"),
       (["--error-correction"], "error_correction", "store", "choice", "'M'"),
       (["--ascii"], "ascii", "store_true", "", "None"),
       (["--output"], "output", "store", "string", "None")] ∧
    (cli_default_factory, cli_default_factory_drawer, cli_default_optimize, cli_default_error_correction, cli_default_ascii,
      cli_default_output) = (none, none, none, "M", false, none) ∧
    cli_add_data_optimize_default = 20 ∧ cli_print_ascii_tty_default = false :=
  QR.SourceTieT.cli_options_src

/-- **console_scripts.main** as it stands in the source = `Model.cli`, for every input, every list of positional arguments and
    every `str.encode`.  Hypotheses: the Model's `arg` is the encoded first argument; the three string options are not the
    empty string (Python treats `--factory ""`, `--factory-drawer ""`, `--output ""` as absent, the Model does not: see
    `cli_empty_option_disagreement`). -/
theorem C17_source_cli_src {PyStr : Type} (i : CliInput) (args : List PyStr) (str_encode : PyStr → String → String → List Nat)
    (harg : i.arg = args.head?.map fun a => str_encode a "utf-8" "surrogateescape")
    (hf : i.factory ≠ some "") (hd : i.drawer ≠ some "") (ho : i.output ≠ some "") :
    cliInterp (cli_main i.factory i.drawer (i.optimize.map Int.ofNat) i.level i.ascii i.output args
        (cliImport i) str_encode i.stdin (cliAliases i) id i.stdoutIsTty)
      = some (cliNormalize (Model.cli i)) :=
  QR.SourceTieT.cli_src i args str_encode harg hf hd ho

/-- source: `--factory ""`, `--factory-drawer ""`, `--output ""` behave exactly as if the option were absent (`if opts.x:`) -/
theorem C17_source_cli_main_empty_option_src {PyStr Fac D Drawer : Type} (fac drw out : Option String) (opt : Option Int) (lvl : String)
    (asc : Bool) (args : List PyStr) (imp : String → Option Fac) (enc : PyStr → String → String → List Nat) (stdin : List Nat)
    (al : Fac → Option (List (String × D))) (mk : D → Drawer) (tty : Bool) :
    cli_main (some "") drw opt lvl asc out args imp enc stdin al mk tty = cli_main none drw opt lvl asc out args imp enc stdin al mk tty ∧
    cli_main fac (some "") opt lvl asc out args imp enc stdin al mk tty = cli_main fac none opt lvl asc out args imp enc stdin al mk tty ∧
    cli_main fac drw opt lvl asc (some "") args imp enc stdin al mk tty = cli_main fac drw opt lvl asc none args imp enc stdin al mk tty :=
  QR.SourceTieT.cli_main_empty_option_src fac drw out opt lvl asc args imp enc stdin al mk tty

/-- Model: `--factory ""` and `--factory-drawer ""` are failures, `--output ""` writes to the file "" -/
theorem C17_source_cli_empty_option_model (i : CliInput) (l : Nat) (hl : Gen.CLI_LEVELS.lookup i.level = some l) :
    (i.factory = some "" → Model.cli i = .fail) ∧
    (i.drawer = some "" → i.factory = none → Model.cli i = .fail) ∧
    (i.output = some "" → i.factory = none → i.drawer = none →
      Model.cli i = .image none none l (segsOf i) (.file "")) :=
  QR.SourceTieT.cli_empty_option_model i l hl

end SourceTieT2b

/-! ### Source tie, part 4 (T2 plugin `tools/t2_fragments/frag_d6.py`): small leftovers, translated whole from /repo's current
    Python AST (`QR.Gen.Code.lo_*`, regenerated on every run). Restated verbatim from `QR/Proofs/SourceTieD6*.lean`. -/
section SourceTieD6
open QR.Model QR.Gen.Code QR.SourceTieD6

/-- `console_scripts.commas(items, joiner="or")`: empty and one-element inputs -/
theorem C17_source_commas_small (a j : String) :
    lo_commas_joiner_default = "or" ∧ lo_commas [] j = "" ∧ lo_commas [a] j = a :=
  ⟨QR.SourceTieD6.commas_literals, QR.SourceTieD6.commas_nil j, QR.SourceTieD6.commas_single a j⟩

/-- `console_scripts.commas`: two or more items - all but the last joined by ", ", the joiner between spaces, the last -/
theorem C17_source_commas_many (init : List String) (last j : String) (h : init ≠ []) :
    lo_commas (init ++ [last]) j = lo_py_join ", " init ++ " " ++ j ++ " " ++ last :=
  QR.SourceTieD6.commas_many init last j h

/-- `commas(default_factories)` (the `--factory` help of `console_scripts.main`) on the regenerated `Gen.CLI_FACTORIES` -/
theorem C17_source_commas_default_factories :
    lo_commas (Gen.CLI_FACTORIES.map (·.1)) lo_commas_joiner_default = "pil, png, svg, svg-fragment, svg-path or pymaging" :=
  QR.SourceTieD6.commas_default_factories

/-- one iteration of the loop of `console_scripts.get_drawer_help`: failed import / missing or empty `drawer_aliases` skip -/
theorem C17_source_gdh_step_src {Img : Type} (imp : String → Option Img) (attr : Img → Option (List String))
    (help : List (String × List String)) (alias path : String) :
    lo_gdh_step imp attr help alias path =
      match (imp path).bind attr with
      | none => help
      | some [] => help
      | some (a :: as) => lo_py_setdefault_add help (lo_commas (a :: as) "or") alias :=
  QR.SourceTieD6.gdh_step_src imp attr help alias path

/-- `console_scripts.get_drawer_help()` on the regenerated `default_factories` with the drawer aliases `Model.drawerAliases`
    accepts: the help text names exactly the SVG factories and their three aliases -/
theorem C17_source_get_drawer_help_src :
    lo_get_drawer_help (Img := String) (fun path => some path) (fun path => some (drawerAliases (some path)))
      Gen.CLI_FACTORIES = "For svg and svg-path, use: circle, gapped-circle or gapped-square" :=
  QR.SourceTieD6.get_drawer_help_src

/-- the factories `get_drawer_help` lists are exactly those for which `Model.drawerAliases` is non-empty -/
theorem C17_source_get_drawer_help_factories :
    ((Gen.CLI_FACTORIES.foldl (fun d kv => lo_gdh_step (Img := String) (fun path => some path)
        (fun path => some (drawerAliases (some path))) d kv.1 kv.2) []).flatMap (·.2)) =
      (Gen.CLI_FACTORIES.map (·.1)).filter (fun k => !(drawerAliases (some k)).isEmpty) :=
  QR.SourceTieD6.get_drawer_help_factories

end SourceTieD6

/-- the Python functions this property's model mirrors have, in /repo's current working tree, exactly the normalised
    ASTs the model was written and validated against (fingerprints regenerated by T1 on every run) -/
theorem C17_source_fingerprints : QR.Gen.fp_C17 = QR.Pinned.fp_C17 := by decide

end QR.Props
