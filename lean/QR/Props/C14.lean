import QR.Model.Styled
import QR.Proofs.Styled
import QR.Proofs.Styled2
import QR.Proofs.Pinned
import QR.Proofs.SourceTieT4
import QR.Proofs.SourceTieT5
/-
C14 - styled images: colour logic on exact pixels and embedded-image geometry.  Antialiased drawers, gradients' float
rounding and Pillow's paste/resize are validated on real Pillow by the check (partial, see DESIGN.md 6/C14).
-/
namespace QR.Props
open QR QR.Model

/-- **D4 characterised**: the paint colour equals the background exactly for an opaque RGBA background (alpha 255) and
    for a black background without alpha (all-zero channels) - the open known finding; for every other 3/4-channel
    background it differs -/
theorem C14_paint_eq_back_iff (r g b : Int) :
    (paintColour [r, g, b] = [r, g, b] ↔ r = 0 ∧ g = 0 ∧ b = 0) ∧
    (∀ a, paintColour [r, g, b, a] = [r, g, b, a] ↔ a = 255) := by
  constructor
  · simp [paintColour]
    constructor
    · rintro ⟨h1, h2, h3⟩; exact ⟨h1.symm, h2.symm, h3.symm⟩
    · rintro ⟨h1, h2, h3⟩; exact ⟨h1.symm, h2.symm, h3.symm⟩
  · intro a
    simp [paintColour]
    constructor <;> intro h <;> exact h.symm

/-- **light pixels**: a pixel that is exactly the background colour (every pixel of a light module and of the quiet
    zone) stays exactly the background colour after `apply_mask`, whenever the paint colour differs from the background
    in at least one channel (and the foreground pixel has at least as many channels as the background).
    (`Proofs.Styled.light_pixel_strong` shows `hl` and `hne` are not even needed.) -/
theorem C14_light (back paint fg : Colour) (hl : back.length = paint.length) (hfg : back.length ≤ fg.length)
    (hne : paint ≠ back) : applyMaskPixel back paint fg back = back :=
  Proofs.Styled.light_pixel back paint fg hl hfg hne

/-- **dark pixels, square drawers**: a pixel that is exactly the paint colour (every pixel of a dark module drawn by a
    square drawer) becomes exactly the foreground pixel `get_fg_pixel(image, x, y)`, whenever paint ≠ background -/
theorem C14_square_dark (back paint fg : Colour) (hl : back.length = paint.length) (hfg : back.length = fg.length)
    (hne : paint ≠ back) : applyMaskPixel back paint fg paint = fg :=
  Proofs.Styled.dark_pixel back paint fg hl hfg hne

/-- **the D4 defect**: when the paint colour equals the background colour (see `C14_paint_eq_back_iff`: black RGB
    background, or RGBA background with alpha 255) *every* pixel - whatever was drawn - becomes background: the image is
    blank -/
theorem C14_paint_equals_back_blank (back paint fg pix : Colour) (h : paint = back) :
    applyMaskPixel back paint fg pix = back :=
  Proofs.Styled.paint_eq_back back paint fg pix h

/-- **embedded image geometry** (`draw_embeded_image`, `w = int(total * ratio) ≤ total`): the offset is a whole number
    of modules; the logo is centred (`offset + side + offset = total`: equal margins, and no truncation in
    `total - offset*2`); its side is between `w - 1` and `w + 2*box - 1` (both bounds are attained, also when
    `box ∣ total`, see the examples); and when the image is a whole number of modules wide, so is the logo -/
theorem C14_logo (total box w : Nat) (hbox : 0 < box) (hw : w ≤ total) :
    box ∣ (logoGeometry total box w).1 ∧
    (logoGeometry total box w).1 * 2 + (logoGeometry total box w).2 = total ∧
    w ≤ (logoGeometry total box w).2 + 1 ∧ (logoGeometry total box w).2 + 1 ≤ w + 2 * box ∧
    (box ∣ total → box ∣ (logoGeometry total box w).2) :=
  have h := Proofs.Styled.logo_geometry total box w hbox hw
  ⟨h.1, h.2.1, h.2.2.1, h.2.2.2, Proofs.Styled.logo_side_dvd total box w⟩

/-- non-vacuity: white background, black paint, dark-blue foreground -/
example :
    applyMaskPixel [255, 255, 255] (paintColour [255, 255, 255]) [0, 0, 120] [255, 255, 255] = [255, 255, 255] ∧
    applyMaskPixel [255, 255, 255] (paintColour [255, 255, 255]) [0, 0, 120] (paintColour [255, 255, 255]) = [0, 0, 120] :=
  ⟨C14_light _ _ _ rfl (by decide) (by decide), C14_square_dark _ _ _ rfl rfl (by decide)⟩

/-- non-vacuity of the defect: opaque white RGBA background - paint = background, a painted pixel comes out white -/
example : paintColour [255, 255, 255, 255] = [255, 255, 255, 255] ∧
    applyMaskPixel [255, 255, 255, 255] (paintColour [255, 255, 255, 255]) [0, 0, 120, 255] [255, 255, 255, 255]
      = [255, 255, 255, 255] :=
  ⟨by decide, C14_paint_equals_back_blank _ _ _ _ (by decide)⟩

/-- the logo bounds are tight: side = w - 1 and side = w + 2*box - 1 both occur (here with `box ∣ total`);
    default-ish case: 33 modules of 10 px, ratio 1/4 -/
example : logoGeometry 60 6 13 = (24, 12) ∧ logoGeometry 63 7 8 = (21, 21) ∧ logoGeometry 330 10 82 = (120, 90) := by
  decide


/-! ### Source tie, part 2 (T2 plugins `tools/t2_fragments/`): (second plugin round, `frag_c.py`) the hand-written Model equals the definitions translated from
    /repo's current Python AST (`QR.Gen.Code`, regenerated on every run). Restated verbatim from `QR/Proofs/SourceTie*.lean`. -/
section SourceTieT2b
open QR.Model QR.Gen QR.Gen.Code QR.SourceTieT

/-- `extrap_num`: `None` when the two numbers coincide, else the quotient (the Model inlines this in `extrapColor`) -/
theorem C14_source_extrapNum_src (n1 n2 v : Int) :
    Code.cm_extrap_num n1 n2 v = if n2 = n1 then none else some ((v - n1 : Int) / (n2 - n1 : Int) : Rat) :=
  QR.SourceTieT.extrapNum_src n1 n2 v

/-- `interp_num` is one channel of the Model's `interpColor` -/
theorem C14_source_interpNum_src (n1 n2 : Int) (norm : Rat) :
    truncInt (n2 * norm + n1 * (1 - norm)) = Code.cm_interp_num n1 n2 norm :=
  QR.SourceTieT.interpNum_src n1 n2 norm

/-- **`extrap_color` complete** -/
theorem C14_source_extrapColorMean_src (c1 c2 ci : Colour) :
    mean (extrapColor c1 c2 ci) = Code.cm_extrap_color c1 c2 ci :=
  QR.SourceTieT.extrapColorMean_src c1 c2 ci

/-- **`interp_color`**, for every `col2` that has a channel for every channel of `col1` (otherwise Python raises
    IndexError at `col2[i]`) -/
theorem C14_source_interpColor_src (c1 c2 : Colour) (norm : Rat) (h : c1.length ≤ c2.length) :
    interpColor c1 c2 norm = Code.cm_interp_color c1 c2 norm :=
  QR.SourceTieT.interpColor_src c1 c2 norm h

theorem C14_source_getBgPixel_src (back : Colour) (x y : Nat) : Code.cm_get_bg_pixel back x y = back :=
  QR.SourceTieT.getBgPixel_src back x y

/-- **the loop body of `QRColorMask.apply_mask`**: it reads pixel (x, y) and writes, at (x, y), the Model's `applyMaskPixel`
    of what it read (`fg x y` stands for `self.get_fg_pixel(image, x, y)`; the hypothesis is the one of `interp_color`) -/
theorem C14_source_applyMaskPixel_src (back paint : Colour) (fg : Nat → Nat → Colour) (image : Nat → Nat → Colour) (x y : Nat)
    (h : back.length ≤ (fg x y).length) :
    Code.cm_apply_mask_body back paint fg image x y
      = Code.cm_putpixel image (x, y) (applyMaskPixel back paint (fg x y) (image x y)) :=
  QR.SourceTieT.applyMaskPixel_src back paint fg image x y h

/-- **`QRColorMask.apply_mask`, the whole loop nest** (`for x in range(width): for y in range(height): ...` on an image
    seen as a function of x and y): every pixel inside `width × height` is replaced by the Model's `applyMaskPixel` of
    its *original* value, every other pixel is untouched.  `fg x y` is `get_fg_pixel(image, x, y)` (for all masks of
    colormasks.py it does not depend on the pixels of `image`). -/
theorem C14_source_applyMask_src (back paint : Colour) (fg : Nat → Nat → Colour) (width height : Nat) (image : Nat → Nat → Colour)
    (hfg : ∀ x y, back.length ≤ (fg x y).length) (a b : Nat) :
    Code.cm_apply_mask back paint fg width height image a b
      = if a < width ∧ b < height then applyMaskPixel back paint (fg a b) (image a b) else image a b :=
  QR.SourceTieT.applyMask_src back paint fg width height image hfg a b

/-- the branch structure: nothing happens iff back = (255, 255, 255) and front = (0, 0, 0); otherwise the base class's loop
    runs with the constant foreground `front_color` -/
theorem C14_source_solidApplyMask_src (back front paint : Colour) (w h : Nat) (image : Nat → Nat → Colour) :
    Code.cm_solid_apply_mask back front paint w h image
      = if back = [255, 255, 255] ∧ front = [0, 0, 0] then image
        else Code.cm_apply_mask back paint (fun _ _ => front) w h image :=
  QR.SourceTieT.solidApplyMask_src back front paint w h image

/-- **the fast path is sound on grey images** (what the drawers produce: black, white, and antialiasing greys): when
    the fast-path condition holds and the paint colour is black, skipping the loop (`pass`) gives the same image as
    running the base class's loop - in exact arithmetic -/
theorem C14_source_solidFastPath_src (back front paint : Colour) (w h : Nat) (image : Nat → Nat → Colour)
    (hc : Code.cm_solid_fast_path back front = true) (hp : paint = [0, 0, 0])
    (hg : ∀ a b, ∃ v, image a b = [v, v, v]) :
    Code.cm_solid_apply_mask back front paint w h image
      = Code.cm_apply_mask back paint (Code.cm_solid_get_fg_pixel front) w h image :=
  QR.SourceTieT.solidFastPath_src back front paint w h image hc hp hg

/-- `x / width` is in [0, 1] for every column of the image -/
theorem C14_source_horizontalNorm_src (width height x y : Int) (h0 : 0 ≤ x) (h1 : x < width) :
    0 ≤ Code.cm_horizontal_norm width height x y ∧ Code.cm_horizontal_norm width height x y ≤ 1 :=
  QR.SourceTieT.horizontalNorm_src width height x y h0 h1

/-- `y / width` (the source divides by the *width*) is in [0, 1] for every row `y < width` -/
theorem C14_source_verticalNorm_src (width height x y : Int) (h0 : 0 ≤ y) (h1 : y < width) :
    0 ≤ Code.cm_vertical_norm width height x y ∧ Code.cm_vertical_norm width height x y ≤ 1 :=
  QR.SourceTieT.verticalNorm_src width height x y h0 h1

/-- `max(abs(x - width / 2), abs(y - width / 2)) / (width / 2)` is in [0, 1] for `0 ≤ x, y < width` -/
theorem C14_source_squareNorm_src (width height x y : Int) (hx0 : 0 ≤ x) (hx1 : x < width) (hy0 : 0 ≤ y) (hy1 : y < width) :
    0 ≤ Code.cm_square_norm width height x y ∧ Code.cm_square_norm width height x y ≤ 1 :=
  QR.SourceTieT.squareNorm_src width height x y hx0 hx1 hy0 hy1

/-- the radial normalisation `sqrt(A) / (sqrt(2) * width / 2)`, translated as the pair (q, r) meaning q·√r: for
    `0 ≤ x, y < width` we have `0 ≤ q`, `0 ≤ r` and `q² · r ≤ 1`, i.e. with a real square root the value q·√r is in [0, 1] -/
theorem C14_source_radialNorm_src (width height x y : Int) (hx0 : 0 ≤ x) (hx1 : x < width) (hy0 : 0 ≤ y) (hy1 : y < width) :
    0 ≤ (Code.cm_radial_norm_surd width height x y).1 ∧ 0 ≤ (Code.cm_radial_norm_surd width height x y).2 ∧
    (Code.cm_radial_norm_surd width height x y).1 * (Code.cm_radial_norm_surd width height x y).1
      * (Code.cm_radial_norm_surd width height x y).2 ≤ 1 :=
  QR.SourceTieT.radialNorm_src width height x y hx0 hx1 hy0 hy1

/-- every colour mask class that sets `has_transparency` sets it to `len(self.back_color) == 4` (the base class: the
    constant `False` together with a 3-channel `back_color`), and these are all the classes that set it -/
theorem C14_source_hasTransparency_src (back : Colour) :
    spil_mask_classes = ["QRColorMask", "SolidFillColorMask", "RadialGradiantColorMask", "SquareGradiantColorMask",
      "HorizontalGradiantColorMask", "VerticalGradiantColorMask", "ImageColorMask"] ∧
    spil_has_transparency_QRColorMask = decide (spil_back_color_QRColorMask.length = 4) ∧
    spil_has_transparency_SolidFillColorMask back = decide (back.length = 4) ∧
    spil_has_transparency_RadialGradiantColorMask back = decide (back.length = 4) ∧
    spil_has_transparency_SquareGradiantColorMask back = decide (back.length = 4) ∧
    spil_has_transparency_HorizontalGradiantColorMask back = decide (back.length = 4) ∧
    spil_has_transparency_VerticalGradiantColorMask back = decide (back.length = 4) ∧
    spil_has_transparency_ImageColorMask back = decide (back.length = 4) :=
  QR.SourceTieT.hasTransparency_src back

/-- **paint colour**: for every mask class of colormasks.py (and the base class with its class attributes) -/
theorem C14_source_paintColour_src (back : Colour) :
    paintColour back = spil_paint_color back (spil_has_transparency_SolidFillColorMask back) ∧
    paintColour back = spil_paint_color back (spil_has_transparency_RadialGradiantColorMask back) ∧
    paintColour back = spil_paint_color back (spil_has_transparency_SquareGradiantColorMask back) ∧
    paintColour back = spil_paint_color back (spil_has_transparency_HorizontalGradiantColorMask back) ∧
    paintColour back = spil_paint_color back (spil_has_transparency_VerticalGradiantColorMask back) ∧
    paintColour back = spil_paint_color back (spil_has_transparency_ImageColorMask back) ∧
    paintColour spil_back_color_QRColorMask = spil_paint_color spil_back_color_QRColorMask spil_has_transparency_QRColorMask :=
  QR.SourceTieT.paintColour_src back

/-- the mode (no Model counterpart: stated as a characterisation): RGBA exactly when the mask has transparency or there is
    an embedded image with an alpha band -/
theorem C14_source_styledNewImageMode_src (ht ei : Bool) (bands : List String) :
    spil_new_image_mode ht ei bands = if ht = true ∨ (ei = true ∧ "A" ∈ bands) then "RGBA" else "RGB" :=
  QR.SourceTieT.styledNewImageMode_src ht ei bands

/-- **logo geometry** `Model.logoGeometry total box w` = (offset, side) is the position `(offset, offset)` and the resize
    size `(side, side)` of the source, whenever `int(w / 2) ≤ int(total / 2)` (guaranteed by the documented range
    `0 ≤ embeded_image_ratio ≤ 1`, see `logoGeometry_ratio_src`).  No hypothesis on `box` (Python raises
    ZeroDivisionError for `box_size = 0`, which `_check_box_size` excludes). -/
theorem C14_source_logoGeometry_src (total height box w : Nat) (hw : w / 2 ≤ total / 2) :
    spil_logo_box_of (total : Int) (height : Int) (box : Int) (w : Int) =
      ((((logoGeometry total box w).1 : Int), ((logoGeometry total box w).1 : Int)),
       (((logoGeometry total box w).2 : Int), ((logoGeometry total box w).2 : Int))) :=
  QR.SourceTieT.logoGeometry_src total height box w hw

/-- **logo geometry, whole computation** (`total_width`, `logo_width_ish`, `logo_offset`, position, resize size) for every
    ratio in the documented range `0 ≤ embeded_image_ratio ≤ 1`: the Model's `w` is `int(total_width * ratio)` (exact real
    product) -/
theorem C14_source_logoGeometry_ratio_src (total height box : Nat) (ratio : Rat) (h0 : 0 ≤ ratio) (h1 : ratio ≤ 1) :
    spil_logo_box (total : Int) (height : Int) (box : Int) ratio =
      ((((logoGeometry total box (truncInt ((total : Int) * ratio)).toNat).1 : Int),
        ((logoGeometry total box (truncInt ((total : Int) * ratio)).toNat).1 : Int)),
       (((logoGeometry total box (truncInt ((total : Int) * ratio)).toNat).2 : Int),
        ((logoGeometry total box (truncInt ((total : Int) * ratio)).toNat).2 : Int))) :=
  QR.SourceTieT.logoGeometry_ratio_src total height box ratio h0 h1

/-- the hypothesis of `logoGeometry_src` cannot be dropped: for a ratio above 1 (outside the documented range) the source
    computes a negative offset and a logo larger than the image, the Model (natural-number subtraction) does not -/
theorem C14_source_logoGeometry_outside_range :
    spil_logo_box_of 100 100 10 200 = ((-50, -50), (200, 200)) ∧ logoGeometry 100 10 200 = (0, 100) :=
  QR.SourceTieT.logoGeometry_outside_range

end SourceTieT2b

/-- the Python functions this property's model mirrors have, in /repo's current working tree, exactly the normalised
    ASTs the model was written and validated against (fingerprints regenerated by T1 on every run) -/
theorem C14_source_fingerprints : QR.Gen.fp_C14 = QR.Pinned.fp_C14 := by decide

/-- **foreground colour range (gradients)**: `interp_color(c1, c2, t)` - what the radial, square, horizontal and
    vertical gradient masks return from `get_fg_pixel` with `t` the normalised distance / position - is channel-wise
    between the two configured end colours for every interpolation parameter `t` in [0, 1].  (No sign condition on
    the channels is needed: Python's `int()` truncation toward zero of a value between two integers stays between
    them.) -/
theorem C14_fg_range (c1 c2 : Colour) (t : Rat) (h0 : 0 ≤ t) (h1 : t ≤ 1) (hl : c1.length = c2.length) :
    (interpColor c1 c2 t).length = c1.length ∧
    ∀ i (hi : i < c1.length),
      min c1[i] (c2[i]'(hl ▸ hi)) ≤ (interpColor c1 c2 t)[i]! ∧
      (interpColor c1 c2 t)[i]! ≤ max c1[i] (c2[i]'(hl ▸ hi)) :=
  ⟨Proofs.Styled2.interpColor_length c1 c2 t hl, Proofs.Styled2.interpColor_between c1 c2 t h0 h1 hl⟩

/-- **dark pixels under a gradient mask**: an exact paint-coloured pixel (square drawer) comes out as a colour
    channel-wise between the gradient's two end colours -/
theorem C14_gradient_dark (back paint c1 c2 : Colour) (t : Rat) (h0 : 0 ≤ t) (h1 : t ≤ 1)
    (hl : back.length = paint.length) (hc1 : back.length = c1.length) (hc : c1.length = c2.length)
    (hne : paint ≠ back) :
    ∀ i (hi : i < c1.length),
      min c1[i] (c2[i]'(hc ▸ hi)) ≤ (applyMaskPixel back paint (interpColor c1 c2 t) paint)[i]! ∧
      (applyMaskPixel back paint (interpColor c1 c2 t) paint)[i]! ≤ max c1[i] (c2[i]'(hc ▸ hi)) := by
  rw [C14_square_dark back paint _ hl (by rw [Proofs.Styled2.interpColor_length c1 c2 t hc, hc1]) hne]
  exact (C14_fg_range c1 c2 t h0 h1 hc).2

/-- non-vacuity: a third of the way from dark blue to orange -/
example : interpColor [0, 0, 120] [255, 128, 0] (1 / 3) = [85, 42, 80] := by decide +kernel

end QR.Props
