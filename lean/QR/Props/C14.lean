import QR.Model.Styled
/-
C14 - styled images: colour logic on exact pixels and embedded-image geometry.  Antialiased drawers, gradients' float
rounding and Pillow's paste/resize are validated on real Pillow by the check (partial, see DESIGN.md 6/C14).
-/
namespace QR.Props
open QR QR.Model

/-- **D4 characterised**: the paint colour equals the background exactly for an opaque RGBA background (alpha 255) and
    for a black background without alpha (all-zero channels) - the open known finding; for every other 3/4-channel
    background it differs -/
theorem C14_paint_eq_back_iff (r g b : Int) :
    (paintColour [r, g, b] = [r, g, b] ↔ r = 0 ∧ g = 0 ∧ b = 0) ∧
    (∀ a, paintColour [r, g, b, a] = [r, g, b, a] ↔ a = 255) := by
  constructor
  · simp [paintColour]
    constructor
    · rintro ⟨h1, h2, h3⟩; exact ⟨h1.symm, h2.symm, h3.symm⟩
    · rintro ⟨h1, h2, h3⟩; exact ⟨h1.symm, h2.symm, h3.symm⟩
  · intro a
    simp [paintColour]
    constructor <;> intro h <;> exact h.symm

end QR.Props
