import QR.Model.Styled
import QR.Proofs.Styled
import QR.Proofs.Styled2
import QR.Proofs.Pinned
import QR.Proofs.SourceTieT4
import QR.Proofs.SourceTieT5
import QR.Proofs.SourceTieD5
import QR.Proofs.SourceTieD5b
/-
C14 - styled images: colour logic on exact pixels and embedded-image geometry.  Antialiased drawers, gradients' float
rounding and Pillow's paste/resize are validated on real Pillow by the check (partial, see DESIGN.md 6/C14).
-/
namespace QR.Props
open QR QR.Model

/-- **D4 characterised**: the paint colour equals the background exactly for an opaque RGBA background (alpha 255) and
    for a black background without alpha (all-zero channels) - the open known finding; for every other 3/4-channel
    background it differs -/
theorem C14_paint_eq_back_iff (r g b : Int) :
    (paintColour [r, g, b] = [r, g, b] ↔ r = 0 ∧ g = 0 ∧ b = 0) ∧
    (∀ a, paintColour [r, g, b, a] = [r, g, b, a] ↔ a = 255) := by
  constructor
  · simp [paintColour]
    constructor
    · rintro ⟨h1, h2, h3⟩; exact ⟨h1.symm, h2.symm, h3.symm⟩
    · rintro ⟨h1, h2, h3⟩; exact ⟨h1.symm, h2.symm, h3.symm⟩
  · intro a
    simp [paintColour]
    constructor <;> intro h <;> exact h.symm

/-- **light pixels**: a pixel that is exactly the background colour (every pixel of a light module and of the quiet
    zone) stays exactly the background colour after `apply_mask`, whenever the paint colour differs from the background
    in at least one channel (and the foreground pixel has at least as many channels as the background).
    (`Proofs.Styled.light_pixel_strong` shows `hl` and `hne` are not even needed.) -/
theorem C14_light (back paint fg : Colour) (hl : back.length = paint.length) (hfg : back.length ≤ fg.length)
    (hne : paint ≠ back) : applyMaskPixel back paint fg back = back :=
  Proofs.Styled.light_pixel back paint fg hl hfg hne

/-- **dark pixels, square drawers**: a pixel that is exactly the paint colour (every pixel of a dark module drawn by a
    square drawer) becomes exactly the foreground pixel `get_fg_pixel(image, x, y)`, whenever paint ≠ background -/
theorem C14_square_dark (back paint fg : Colour) (hl : back.length = paint.length) (hfg : back.length = fg.length)
    (hne : paint ≠ back) : applyMaskPixel back paint fg paint = fg :=
  Proofs.Styled.dark_pixel back paint fg hl hfg hne

/-- **the D4 defect**: when the paint colour equals the background colour (see `C14_paint_eq_back_iff`: black RGB
    background, or RGBA background with alpha 255) *every* pixel - whatever was drawn - becomes background: the image is
    blank -/
theorem C14_paint_equals_back_blank (back paint fg pix : Colour) (h : paint = back) :
    applyMaskPixel back paint fg pix = back :=
  Proofs.Styled.paint_eq_back back paint fg pix h

/-- **embedded image geometry** (`draw_embeded_image`, `w = int(total * ratio) ≤ total`): the offset is a whole number
    of modules; the logo is centred (`offset + side + offset = total`: equal margins, and no truncation in
    `total - offset*2`); its side is between `w - 1` and `w + 2*box - 1` (both bounds are attained, also when
    `box ∣ total`, see the examples); and when the image is a whole number of modules wide, so is the logo -/
theorem C14_logo (total box w : Nat) (hbox : 0 < box) (hw : w ≤ total) :
    box ∣ (logoGeometry total box w).1 ∧
    (logoGeometry total box w).1 * 2 + (logoGeometry total box w).2 = total ∧
    w ≤ (logoGeometry total box w).2 + 1 ∧ (logoGeometry total box w).2 + 1 ≤ w + 2 * box ∧
    (box ∣ total → box ∣ (logoGeometry total box w).2) :=
  have h := Proofs.Styled.logo_geometry total box w hbox hw
  ⟨h.1, h.2.1, h.2.2.1, h.2.2.2, Proofs.Styled.logo_side_dvd total box w⟩

/-- non-vacuity: white background, black paint, dark-blue foreground -/
example :
    applyMaskPixel [255, 255, 255] (paintColour [255, 255, 255]) [0, 0, 120] [255, 255, 255] = [255, 255, 255] ∧
    applyMaskPixel [255, 255, 255] (paintColour [255, 255, 255]) [0, 0, 120] (paintColour [255, 255, 255]) = [0, 0, 120] :=
  ⟨C14_light _ _ _ rfl (by decide) (by decide), C14_square_dark _ _ _ rfl rfl (by decide)⟩

/-- non-vacuity of the defect: opaque white RGBA background - paint = background, a painted pixel comes out white -/
example : paintColour [255, 255, 255, 255] = [255, 255, 255, 255] ∧
    applyMaskPixel [255, 255, 255, 255] (paintColour [255, 255, 255, 255]) [0, 0, 120, 255] [255, 255, 255, 255]
      = [255, 255, 255, 255] :=
  ⟨by decide, C14_paint_equals_back_blank _ _ _ _ (by decide)⟩

/-- the logo bounds are tight: side = w - 1 and side = w + 2*box - 1 both occur (here with `box ∣ total`);
    default-ish case: 33 modules of 10 px, ratio 1/4 -/
example : logoGeometry 60 6 13 = (24, 12) ∧ logoGeometry 63 7 8 = (21, 21) ∧ logoGeometry 330 10 82 = (120, 90) := by
  decide


/-! ### Source tie, part 2 (T2 plugins `tools/t2_fragments/`): (second plugin round, `frag_c.py`) the hand-written Model equals the definitions translated from
    /repo's current Python AST (`QR.Gen.Code`, regenerated on every run). Restated verbatim from `QR/Proofs/SourceTie*.lean`. -/
section SourceTieT2b
open QR.Model QR.Gen QR.Gen.Code QR.SourceTieT

/-- `extrap_num`: `None` when the two numbers coincide, else the quotient (the Model inlines this in `extrapColor`) -/
theorem C14_source_extrapNum_src (n1 n2 v : Int) :
    Code.cm_extrap_num n1 n2 v = if n2 = n1 then none else some ((v - n1 : Int) / (n2 - n1 : Int) : Rat) :=
  QR.SourceTieT.extrapNum_src n1 n2 v

/-- `interp_num` is one channel of the Model's `interpColor` -/
theorem C14_source_interpNum_src (n1 n2 : Int) (norm : Rat) :
    truncInt (n2 * norm + n1 * (1 - norm)) = Code.cm_interp_num n1 n2 norm :=
  QR.SourceTieT.interpNum_src n1 n2 norm

/-- **`extrap_color` complete** -/
theorem C14_source_extrapColorMean_src (c1 c2 ci : Colour) :
    mean (extrapColor c1 c2 ci) = Code.cm_extrap_color c1 c2 ci :=
  QR.SourceTieT.extrapColorMean_src c1 c2 ci

/-- **`interp_color`**, for every `col2` that has a channel for every channel of `col1` (otherwise Python raises
    IndexError at `col2[i]`) -/
theorem C14_source_interpColor_src (c1 c2 : Colour) (norm : Rat) (h : c1.length ≤ c2.length) :
    interpColor c1 c2 norm = Code.cm_interp_color c1 c2 norm :=
  QR.SourceTieT.interpColor_src c1 c2 norm h

theorem C14_source_getBgPixel_src (back : Colour) (x y : Nat) : Code.cm_get_bg_pixel back x y = back :=
  QR.SourceTieT.getBgPixel_src back x y

/-- **the loop body of `QRColorMask.apply_mask`**: it reads pixel (x, y) and writes, at (x, y), the Model's `applyMaskPixel`
    of what it read (`fg x y` stands for `self.get_fg_pixel(image, x, y)`; the hypothesis is the one of `interp_color`) -/
theorem C14_source_applyMaskPixel_src (back paint : Colour) (fg : Nat → Nat → Colour) (image : Nat → Nat → Colour) (x y : Nat)
    (h : back.length ≤ (fg x y).length) :
    Code.cm_apply_mask_body back paint fg image x y
      = Code.cm_putpixel image (x, y) (applyMaskPixel back paint (fg x y) (image x y)) :=
  QR.SourceTieT.applyMaskPixel_src back paint fg image x y h

/-- **`QRColorMask.apply_mask`, the whole loop nest** (`for x in range(width): for y in range(height): ...` on an image
    seen as a function of x and y): every pixel inside `width × height` is replaced by the Model's `applyMaskPixel` of
    its *original* value, every other pixel is untouched.  `fg x y` is `get_fg_pixel(image, x, y)` (for all masks of
    colormasks.py it does not depend on the pixels of `image`). -/
theorem C14_source_applyMask_src (back paint : Colour) (fg : Nat → Nat → Colour) (width height : Nat) (image : Nat → Nat → Colour)
    (hfg : ∀ x y, back.length ≤ (fg x y).length) (a b : Nat) :
    Code.cm_apply_mask back paint fg width height image a b
      = if a < width ∧ b < height then applyMaskPixel back paint (fg a b) (image a b) else image a b :=
  QR.SourceTieT.applyMask_src back paint fg width height image hfg a b

/-- the branch structure: nothing happens iff back = (255, 255, 255) and front = (0, 0, 0); otherwise the base class's loop
    runs with the constant foreground `front_color` -/
theorem C14_source_solidApplyMask_src (back front paint : Colour) (w h : Nat) (image : Nat → Nat → Colour) :
    Code.cm_solid_apply_mask back front paint w h image
      = if back = [255, 255, 255] ∧ front = [0, 0, 0] then image
        else Code.cm_apply_mask back paint (fun _ _ => front) w h image :=
  QR.SourceTieT.solidApplyMask_src back front paint w h image

/-- **the fast path is sound on grey images** (what the drawers produce: black, white, and antialiasing greys): when
    the fast-path condition holds and the paint colour is black, skipping the loop (`pass`) gives the same image as
    running the base class's loop - in exact arithmetic -/
theorem C14_source_solidFastPath_src (back front paint : Colour) (w h : Nat) (image : Nat → Nat → Colour)
    (hc : Code.cm_solid_fast_path back front = true) (hp : paint = [0, 0, 0])
    (hg : ∀ a b, ∃ v, image a b = [v, v, v]) :
    Code.cm_solid_apply_mask back front paint w h image
      = Code.cm_apply_mask back paint (Code.cm_solid_get_fg_pixel front) w h image :=
  QR.SourceTieT.solidFastPath_src back front paint w h image hc hp hg

/-- `x / width` is in [0, 1] for every column of the image -/
theorem C14_source_horizontalNorm_src (width height x y : Int) (h0 : 0 ≤ x) (h1 : x < width) :
    0 ≤ Code.cm_horizontal_norm width height x y ∧ Code.cm_horizontal_norm width height x y ≤ 1 :=
  QR.SourceTieT.horizontalNorm_src width height x y h0 h1

/-- `y / width` (the source divides by the *width*) is in [0, 1] for every row `y < width` -/
theorem C14_source_verticalNorm_src (width height x y : Int) (h0 : 0 ≤ y) (h1 : y < width) :
    0 ≤ Code.cm_vertical_norm width height x y ∧ Code.cm_vertical_norm width height x y ≤ 1 :=
  QR.SourceTieT.verticalNorm_src width height x y h0 h1

/-- `max(abs(x - width / 2), abs(y - width / 2)) / (width / 2)` is in [0, 1] for `0 ≤ x, y < width` -/
theorem C14_source_squareNorm_src (width height x y : Int) (hx0 : 0 ≤ x) (hx1 : x < width) (hy0 : 0 ≤ y) (hy1 : y < width) :
    0 ≤ Code.cm_square_norm width height x y ∧ Code.cm_square_norm width height x y ≤ 1 :=
  QR.SourceTieT.squareNorm_src width height x y hx0 hx1 hy0 hy1

/-- the radial normalisation `sqrt(A) / (sqrt(2) * width / 2)`, translated as the pair (q, r) meaning q·√r: for
    `0 ≤ x, y < width` we have `0 ≤ q`, `0 ≤ r` and `q² · r ≤ 1`, i.e. with a real square root the value q·√r is in [0, 1] -/
theorem C14_source_radialNorm_src (width height x y : Int) (hx0 : 0 ≤ x) (hx1 : x < width) (hy0 : 0 ≤ y) (hy1 : y < width) :
    0 ≤ (Code.cm_radial_norm_surd width height x y).1 ∧ 0 ≤ (Code.cm_radial_norm_surd width height x y).2 ∧
    (Code.cm_radial_norm_surd width height x y).1 * (Code.cm_radial_norm_surd width height x y).1
      * (Code.cm_radial_norm_surd width height x y).2 ≤ 1 :=
  QR.SourceTieT.radialNorm_src width height x y hx0 hx1 hy0 hy1

/-- every colour mask class that sets `has_transparency` sets it to `len(self.back_color) == 4` (the base class: the
    constant `False` together with a 3-channel `back_color`), and these are all the classes that set it -/
theorem C14_source_hasTransparency_src (back : Colour) :
    spil_mask_classes = ["QRColorMask", "SolidFillColorMask", "RadialGradiantColorMask", "SquareGradiantColorMask",
      "HorizontalGradiantColorMask", "VerticalGradiantColorMask", "ImageColorMask"] ∧
    spil_has_transparency_QRColorMask = decide (spil_back_color_QRColorMask.length = 4) ∧
    spil_has_transparency_SolidFillColorMask back = decide (back.length = 4) ∧
    spil_has_transparency_RadialGradiantColorMask back = decide (back.length = 4) ∧
    spil_has_transparency_SquareGradiantColorMask back = decide (back.length = 4) ∧
    spil_has_transparency_HorizontalGradiantColorMask back = decide (back.length = 4) ∧
    spil_has_transparency_VerticalGradiantColorMask back = decide (back.length = 4) ∧
    spil_has_transparency_ImageColorMask back = decide (back.length = 4) :=
  QR.SourceTieT.hasTransparency_src back

/-- **paint colour**: for every mask class of colormasks.py (and the base class with its class attributes) -/
theorem C14_source_paintColour_src (back : Colour) :
    paintColour back = spil_paint_color back (spil_has_transparency_SolidFillColorMask back) ∧
    paintColour back = spil_paint_color back (spil_has_transparency_RadialGradiantColorMask back) ∧
    paintColour back = spil_paint_color back (spil_has_transparency_SquareGradiantColorMask back) ∧
    paintColour back = spil_paint_color back (spil_has_transparency_HorizontalGradiantColorMask back) ∧
    paintColour back = spil_paint_color back (spil_has_transparency_VerticalGradiantColorMask back) ∧
    paintColour back = spil_paint_color back (spil_has_transparency_ImageColorMask back) ∧
    paintColour spil_back_color_QRColorMask = spil_paint_color spil_back_color_QRColorMask spil_has_transparency_QRColorMask :=
  QR.SourceTieT.paintColour_src back

/-- the mode (no Model counterpart: stated as a characterisation): RGBA exactly when the mask has transparency or there is
    an embedded image with an alpha band -/
theorem C14_source_styledNewImageMode_src (ht ei : Bool) (bands : List String) :
    spil_new_image_mode ht ei bands = if ht = true ∨ (ei = true ∧ "A" ∈ bands) then "RGBA" else "RGB" :=
  QR.SourceTieT.styledNewImageMode_src ht ei bands

/-- **logo geometry** `Model.logoGeometry total box w` = (offset, side) is the position `(offset, offset)` and the resize
    size `(side, side)` of the source, whenever `int(w / 2) ≤ int(total / 2)` (guaranteed by the documented range
    `0 ≤ embeded_image_ratio ≤ 1`, see `logoGeometry_ratio_src`).  No hypothesis on `box` (Python raises
    ZeroDivisionError for `box_size = 0`, which `_check_box_size` excludes). -/
theorem C14_source_logoGeometry_src (total height box w : Nat) (hw : w / 2 ≤ total / 2) :
    spil_logo_box_of (total : Int) (height : Int) (box : Int) (w : Int) =
      ((((logoGeometry total box w).1 : Int), ((logoGeometry total box w).1 : Int)),
       (((logoGeometry total box w).2 : Int), ((logoGeometry total box w).2 : Int))) :=
  QR.SourceTieT.logoGeometry_src total height box w hw

/-- **logo geometry, whole computation** (`total_width`, `logo_width_ish`, `logo_offset`, position, resize size) for every
    ratio in the documented range `0 ≤ embeded_image_ratio ≤ 1`: the Model's `w` is `int(total_width * ratio)` (exact real
    product) -/
theorem C14_source_logoGeometry_ratio_src (total height box : Nat) (ratio : Rat) (h0 : 0 ≤ ratio) (h1 : ratio ≤ 1) :
    spil_logo_box (total : Int) (height : Int) (box : Int) ratio =
      ((((logoGeometry total box (truncInt ((total : Int) * ratio)).toNat).1 : Int),
        ((logoGeometry total box (truncInt ((total : Int) * ratio)).toNat).1 : Int)),
       (((logoGeometry total box (truncInt ((total : Int) * ratio)).toNat).2 : Int),
        ((logoGeometry total box (truncInt ((total : Int) * ratio)).toNat).2 : Int))) :=
  QR.SourceTieT.logoGeometry_ratio_src total height box ratio h0 h1

/-- the hypothesis of `logoGeometry_src` cannot be dropped: for a ratio above 1 (outside the documented range) the source
    computes a negative offset and a logo larger than the image, the Model (natural-number subtraction) does not -/
theorem C14_source_logoGeometry_outside_range :
    spil_logo_box_of 100 100 10 200 = ((-50, -50), (200, 200)) ∧ logoGeometry 100 10 200 = (0, 100) :=
  QR.SourceTieT.logoGeometry_outside_range

end SourceTieT2b

section SourceTieD5
open QR.Gen.Code QR.SourceTieD5

/-- `moduledrawers/pil.py`, all six Pillow drawers (`initialize`, `setup_corners` / `setup_edges`, `drawrect`, translated from
    the AST) = the closed form `SourceTieD5.paints` (the list of painted closed pixel rectangles of one module); the Model has
    no stamp model, the closed form is its Model-side definition.  `0 ≤ bs`: `int(box_size / 2)` truncates, `bs / 2` floors. -/
theorem C14_source_drawerPaints_src (d : Drawer) (bs : Int) (hbs : 0 ≤ bs) (ratio : Rat) (x y : Int) (a : dr_Active) :
    sourcePaints d bs ratio (moduleBox x y bs) a = paints d bs ratio x y a :=
  QR.SourceTieD5.paints_src d bs hbs ratio x y a

/-- `int()` in the translated drawers (`dr_pyInt`), the closed form's `truncQ` and the Model's `truncInt` are one function -/
theorem C14_source_drawerTrunc_src (q : Rat) : dr_pyInt q = truncQ q ∧ truncQ q = QR.Model.truncInt q := ⟨rfl, rfl⟩

/-- **inside the box**: whatever the translated `drawrect` of any of the six Pillow drawers paints for a module (after the
    translated `initialize` / `setup_*`) lies inside that module's pixel box `((x, y), (x + bs - 1, y + bs - 1))` - for every
    box size ≥ 1, every ratio in [0, 1], every position, every neighbourhood.  So a dark module never paints a pixel of a light
    neighbour or of the quiet zone.  (For ratio > 1 it is false: `C14_source_drawer_ratio_above_one`.) -/
theorem C14_drawer_inside_box (d : Drawer) (bs : Int) (hbs : 1 ≤ bs) (ratio : Rat) (h0 : 0 ≤ ratio) (h1 : ratio ≤ 1)
    (x y : Int) (a : dr_Active) :
    ∀ p ∈ sourcePaints d bs ratio (moduleBox x y bs) a, p.2.inside (moduleBox x y bs) :=
  QR.SourceTieD5.drawer_inside_box d bs hbs ratio h0 h1 x y a

/-- a light module: the translated `drawrect` of every Pillow drawer makes no drawing call at all -/
theorem C14_drawer_light_nothing (d : Drawer) (bs : Int) (hbs : 0 ≤ bs) (ratio : Rat) (x y : Int) (a : dr_Active) (h : a.me = false) :
    sourcePaints d bs ratio (moduleBox x y bs) a = [] :=
  QR.SourceTieD5.drawer_light_nothing d bs hbs ratio x y a h

/-- `SquareModuleDrawer.drawrect` (translated): a dark module is one `rectangle` call, exactly its pixel box, paint colour -/
theorem C14_drawer_square_full (bs : Int) (hbs : 0 ≤ bs) (ratio : Rat) (x y : Int) (a : dr_Active) (h : a.me = true) :
    sourcePaints .square bs ratio (moduleBox x y bs) a
      = [("self.img.paint_color", RectQ.ofInt (moduleBox x y bs).1.1 (moduleBox x y bs).1.2 (moduleBox x y bs).2.1 (moduleBox x y bs).2.2)] :=
  QR.SourceTieD5.drawer_square_full bs hbs ratio x y a h

/-- `RoundedModuleDrawer.drawrect` (translated): the four corner stamps tile the `2c × 2c` square at the box origin
    (`c = int(box_size / 2)`): a pixel is covered iff it is in that square, and never by two different stamps -/
theorem C14_drawer_rounded_tiles (bs : Int) (hbs : 0 ≤ bs) (ratio : Rat) (x y : Int) (a : dr_Active) (h : a.me = true)
    (px py : Int) :
    ((∃ p ∈ sourcePaints .rounded bs ratio (moduleBox x y bs) a, p.2.covers px py)
        ↔ (x ≤ px ∧ px < x + 2 * (bs / 2) ∧ y ≤ py ∧ py < y + 2 * (bs / 2))) ∧
    ∀ p ∈ sourcePaints .rounded bs ratio (moduleBox x y bs) a, ∀ q ∈ sourcePaints .rounded bs ratio (moduleBox x y bs) a,
        p.2.covers px py → q.2.covers px py → p.2 = q.2 :=
  QR.SourceTieD5.drawer_rounded_tiles bs hbs ratio x y a h px py

/-- `RoundedModuleDrawer` (translated), existing behaviour stated exactly: inside a dark module's box a pixel is painted iff
    the box size is even or the pixel is not in the last column / row (odd sizes leave a one-pixel background seam) -/
theorem C14_drawer_rounded_seam (bs : Int) (hbs : 1 ≤ bs) (ratio : Rat) (x y : Int) (a : dr_Active) (h : a.me = true) (px py : Int)
    (hx : x ≤ px ∧ px ≤ x + bs - 1) (hy : y ≤ py ∧ py ≤ y + bs - 1) :
    (∃ p ∈ sourcePaints .rounded bs ratio (moduleBox x y bs) a, p.2.covers px py)
      ↔ (bs % 2 = 0 ∨ (px ≠ x + bs - 1 ∧ py ≠ y + bs - 1)) :=
  QR.SourceTieD5.drawer_rounded_seam bs hbs ratio x y a h px py hx hy

/-- `GappedSquareModuleDrawer` (translated `initialize` + `drawrect`): the shrunken box is a proper rectangle iff
    `size_ratio · box_size ≥ 1` (below that Pillow receives an inverted box) -/
theorem C14_drawer_gapped_proper (bs : Int) (hbs : 0 ≤ bs) (ratio : Rat) (x y : Int) (a : dr_Active) (h : a.me = true) :
    ∀ p ∈ sourcePaints .gapped bs ratio (moduleBox x y bs) a, (p.2.x0 ≤ p.2.x1 ↔ 1 ≤ ratio * (bs : Rat)) :=
  QR.SourceTieD5.drawer_gapped_proper bs hbs ratio x y a h

/-- the hypothesis `ratio ≤ 1` of `C14_drawer_inside_box` cannot be dropped (both sides evaluated): `VerticalBarsDrawer(1.5)`
    pastes columns -2 .. 12 for a module occupying 0 .. 9; `GappedSquareModuleDrawer(2)` draws (-5, -5, 14, 14) -/
theorem C14_source_drawer_ratio_above_one :
    sourcePaints .vbars 10 (3 / 2) (moduleBox 0 0 10) allDark
      = [("self.SQUARE", RectQ.ofInt (-2) 0 12 4), ("self.SQUARE", RectQ.ofInt (-2) 5 12 9)] ∧
    sourcePaints .gapped 10 2 (moduleBox 0 0 10) allDark = [("self.img.paint_color", ⟨-5, -5, 14, 14⟩)] :=
  QR.SourceTieD5.ratio_above_one_paints_outside

/-- the constructors of the four parametrised Pillow drawers (translated): the attribute is the argument; defaults 0.8, 1,
    0.8, 0.8 (exact float values), all inside (0, 1] -/
theorem C14_source_drawerCtor_src (r : Rat) :
    dr_gapped_init (some r) = r ∧ dr_rounded_init (some r) = r ∧ dr_vbars_init (some r) = r ∧ dr_hbars_init (some r) = r ∧
    dr_gapped_init none = (3602879701896397 : Rat) / 4503599627370496 ∧ dr_rounded_init none = 1 ∧
    dr_vbars_init none = dr_gapped_init none ∧ dr_hbars_init none = dr_gapped_init none ∧
    (0 < dr_gapped_init none ∧ dr_gapped_init none ≤ 1) ∧
    [dr_gapped_init_attr, dr_rounded_init_attr, dr_vbars_init_attr, dr_hbars_init_attr]
      = ["self.size_ratio", "self.radius_ratio", "self.horizontal_shrink", "self.vertical_shrink"] :=
  QR.SourceTieD5.ctor_src r

/-- `StyledPilImage.init_new_image` / `process` / `save` (translated statement skeletons): colour mask initialised before the
    drawers, mask applied before the logo, logo only if `self.embeded_image`; save format = argument, else `kwargs["kind"]`,
    else `"PNG"` -/
theorem C14_source_styledSkeleton_src (fmt kw : Option String) :
    dr_spil_init_new_image = [("self.color_mask.initialize", ["self", "self._img"]), ("super().init_new_image", [])] ∧
    dr_base_init_new_image = ["self.module_drawer.initialize(img=self)", "self.eye_drawer.initialize(img=self)",
      "return super().init_new_image()"] ∧
    dr_spil_process true = ["self.color_mask.apply_mask(self._img)", "self.draw_embeded_image()"] ∧
    dr_spil_process false = ["self.color_mask.apply_mask(self._img)"] ∧ dr_spil_process_test = "self.embeded_image" ∧
    dr_spil_save_format fmt kw dr_spil_kind = (fmt.getD (kw.getD "PNG")) ∧
    dr_spil_save_keys = ["kind", "kind", "kind"] ∧ dr_spil_save_default = "self.kind" ∧
    dr_spil_save_call = "self._img.save(stream, format=format, **kwargs)" ∧
    dr_spil_needs_processing = true ∧ dr_spil_default_drawer = "SquareModuleDrawer" :=
  QR.SourceTieD5.styled_skeleton_src fmt kw

/-- `CircleModuleDrawer.initialize`, `RoundedModuleDrawer.setup_corners`, `VerticalBarsDrawer/HorizontalBarsDrawer.setup_edges`
    (translated): every stamp is drawn `ANTIALIASING_FACTOR = 4` times larger and resized to the size `drawrect` pastes; stamp
    sizes and ellipse / rectangle coordinates equal these closed forms (the stamp sizes are what `paints` uses) -/
theorem C14_source_drawerSetup_src (bs c : Int) (r : Rat) :
    dr_ANTIALIASING_FACTOR = 4 ∧
    dr_circle_initialize_stamps bs
      = [("self.circle", (bs * 4, bs * 4), "Image.new(self.img.mode, self.img.color_mask.back_color)"),
         ("self.circle", (bs, bs), "self.circle.resize(Image.Resampling.LANCZOS)")] ∧
    dr_circle_initialize_draws bs = [("self.circle.ellipse", [0, 0, ((bs * 4 : Int) : Rat), ((bs * 4 : Int) : Rat)], "self.img.paint_color")] ∧
    dr_rounded_setup_corners_stamps c r
      = [("self.SQUARE", (c, c), "Image.new(mode, front_color)"), ("base", (c * 4, c * 4), "Image.new(mode, back_color)"),
         ("self.NW_ROUND", (c, c), "base.resize(Image.Resampling.LANCZOS)"),
         ("self.SW_ROUND", (c, c), "self.NW_ROUND.transpose(Image.Transpose.FLIP_TOP_BOTTOM)"),
         ("self.SE_ROUND", (c, c), "self.NW_ROUND.transpose(Image.Transpose.ROTATE_180)"),
         ("self.NE_ROUND", (c, c), "self.NW_ROUND.transpose(Image.Transpose.FLIP_LEFT_RIGHT)")] ∧
    dr_rounded_setup_corners_draws c r
      = [("base.ellipse", [0, 0, r * ((c * 4 : Int) : Rat) * 2, r * ((c * 4 : Int) : Rat) * 2], "front_color"),
         ("base.rectangle", [r * ((c * 4 : Int) : Rat), 0, ((c * 4 : Int) : Rat), ((c * 4 : Int) : Rat)], "front_color"),
         ("base.rectangle", [0, r * ((c * 4 : Int) : Rat), ((c * 4 : Int) : Rat), ((c * 4 : Int) : Rat)], "front_color")] ∧
    dr_vbars_setup_edges_stamps c r
      = [("self.SQUARE", (truncQ (((c * 2 : Int) : Rat) * r), c), "Image.new(mode, front_color)"),
         ("base", (c * 2 * 4, c * 4), "Image.new(mode, back_color)"),
         ("self.ROUND_TOP", (truncQ (((c * 2 : Int) : Rat) * r), c), "base.resize(Image.Resampling.LANCZOS)"),
         ("self.ROUND_BOTTOM", (truncQ (((c * 2 : Int) : Rat) * r), c), "self.ROUND_TOP.transpose(Image.Transpose.FLIP_TOP_BOTTOM)")] ∧
    dr_vbars_setup_edges_draws c r
      = [("base.ellipse", [0, 0, ((c * 2 * 4 : Int) : Rat), ((c * 4 * 2 : Int) : Rat)], "front_color")] ∧
    dr_hbars_setup_edges_stamps c r
      = [("self.SQUARE", (c, truncQ (((c * 2 : Int) : Rat) * r)), "Image.new(mode, front_color)"),
         ("base", (c * 4, c * 2 * 4), "Image.new(mode, back_color)"),
         ("self.ROUND_LEFT", (c, truncQ (((c * 2 : Int) : Rat) * r)), "base.resize(Image.Resampling.LANCZOS)"),
         ("self.ROUND_RIGHT", (c, truncQ (((c * 2 : Int) : Rat) * r)), "self.ROUND_LEFT.transpose(Image.Transpose.FLIP_LEFT_RIGHT)")] ∧
    dr_hbars_setup_edges_draws c r
      = [("base.ellipse", [0, 0, ((c * 4 * 2 : Int) : Rat), ((c * 2 * 4 : Int) : Rat)], "front_color")] :=
  QR.SourceTieD5.setup_geometry_src bs c r

/-- statement order of `initialize` / `setup_*` of the six Pillow drawers, their `needs_neighbors`, and the fields of
    `ActiveWithNeighbors` (translated as literals): `super().initialize` first, geometry attributes before `setup_*` -/
theorem C14_source_drawerSkeleton_src :
    dr_Active_fields = ["NW", "N", "NE", "W", "me", "E", "SW", "S", "SE"] ∧
    dr_base_needs_neighbors = false ∧ dr_base_initialize = ["self.img = img"] ∧
    [dr_square_needs_neighbors, dr_gapped_needs_neighbors, dr_circle_needs_neighbors, dr_rounded_needs_neighbors,
      dr_vbars_needs_neighbors, dr_hbars_needs_neighbors] = [none, none, none, some true, some true, some true] ∧
    dr_square_initialize_order = ["call:super().initialize(*args, **kwargs)", "handle:self.imgDraw"] ∧
    dr_gapped_initialize_order = ["call:super().initialize(*args, **kwargs)", "handle:self.imgDraw", "real:self.delta"] ∧
    dr_circle_initialize_order = ["call:super().initialize(*args, **kwargs)", "int:box_size", "int:fake_size", "image:self.circle",
      "draw:self.circle.ellipse", "image:self.circle"] ∧
    dr_rounded_initialize_order = ["call:super().initialize(*args, **kwargs)", "int:self.corner_width", "call:self.setup_corners()"] ∧
    dr_vbars_initialize_order = ["call:super().initialize(*args, **kwargs)", "int:self.half_height", "int:self.delta", "call:self.setup_edges()"] ∧
    dr_hbars_initialize_order = ["call:super().initialize(*args, **kwargs)", "int:self.half_width", "int:self.delta", "call:self.setup_edges()"] ∧
    dr_rounded_setup_corners_order = ["alias:mode", "alias:back_color", "alias:front_color", "image:self.SQUARE", "int:fake_width",
      "real:radius", "real:diameter", "image:base", "handle:base_draw", "draw:base.ellipse", "draw:base.rectangle",
      "draw:base.rectangle", "image:self.NW_ROUND", "image:self.SW_ROUND", "image:self.SE_ROUND", "image:self.NE_ROUND"] ∧
    dr_vbars_setup_edges_order = ["alias:mode", "alias:back_color", "alias:front_color", "int:height", "int:width", "int:shrunken_width",
      "image:self.SQUARE", "int:fake_width", "int:fake_height", "image:base", "handle:base_draw", "draw:base.ellipse",
      "image:self.ROUND_TOP", "image:self.ROUND_BOTTOM"] ∧
    dr_hbars_setup_edges_order = ["alias:mode", "alias:back_color", "alias:front_color", "int:width", "int:height", "int:shrunken_height",
      "image:self.SQUARE", "int:fake_width", "int:fake_height", "image:base", "handle:base_draw", "draw:base.ellipse",
      "image:self.ROUND_LEFT", "image:self.ROUND_RIGHT"] ∧
    dr_rounded_setup_corners_other = ["mode = self.img.mode", "back_color = self.img.color_mask.back_color",
      "front_color = self.img.paint_color", "base_draw = ImageDraw.Draw(base)"] ∧
    dr_vbars_setup_edges_other = dr_rounded_setup_corners_other ∧ dr_hbars_setup_edges_other = dr_rounded_setup_corners_other ∧
    dr_square_initialize_other = ["super().initialize(*args, **kwargs)", "self.imgDraw = ImageDraw.Draw(self.img._img)"] ∧
    dr_gapped_initialize_other = dr_square_initialize_other ∧
    dr_pil_classes = ["StyledPilQRModuleDrawer", "SquareModuleDrawer", "GappedSquareModuleDrawer", "CircleModuleDrawer",
      "RoundedModuleDrawer", "VerticalBarsDrawer", "HorizontalBarsDrawer"] :=
  QR.SourceTieD5.skeleton_literals

/-- `colormasks.py` constructors and `initialize` (translated as literals): default colours, `back_color` stored before
    `has_transparency`, `initialize` copies the image's paint colour (the colour `applyMaskPixel` compares with) -/
theorem C14_source_colormaskCtor_src :
    dr_cm_classes = ["QRColorMask", "SolidFillColorMask", "RadialGradiantColorMask", "SquareGradiantColorMask",
      "HorizontalGradiantColorMask", "VerticalGradiantColorMask", "ImageColorMask"] ∧
    dr_cm_initialize_QRColorMask = ["self.paint_color = styledPilImage.paint_color"] ∧
    dr_cm_initialize_ImageColorMask = ["self.paint_color = styledPilImage.paint_color", "self.color_img = self.color_img.resize(image.size)"] ∧
    dr_cm_init_defaults_SolidFillColorMask = [("back_color", some [255, 255, 255]), ("front_color", some [0, 0, 0])] ∧
    dr_cm_init_defaults_RadialGradiantColorMask = [("back_color", some [255, 255, 255]), ("center_color", some [0, 0, 0]), ("edge_color", some [0, 0, 255])] ∧
    dr_cm_init_defaults_SquareGradiantColorMask = [("back_color", some [255, 255, 255]), ("center_color", some [0, 0, 0]), ("edge_color", some [0, 0, 255])] ∧
    dr_cm_init_defaults_HorizontalGradiantColorMask = [("back_color", some [255, 255, 255]), ("left_color", some [0, 0, 0]), ("right_color", some [0, 0, 255])] ∧
    dr_cm_init_defaults_VerticalGradiantColorMask = [("back_color", some [255, 255, 255]), ("top_color", some [0, 0, 0]), ("bottom_color", some [0, 0, 255])] ∧
    dr_cm_init_defaults_ImageColorMask = [("back_color", some [255, 255, 255]), ("color_mask_path", none), ("color_mask_image", none)] ∧
    dr_cm_init_stores_SolidFillColorMask = [("self.back_color", "back_color"), ("self.front_color", "front_color"),
      ("self.has_transparency", "len(self.back_color) == 4")] ∧
    dr_cm_init_stores_RadialGradiantColorMask = [("self.back_color", "back_color"), ("self.center_color", "center_color"),
      ("self.edge_color", "edge_color"), ("self.has_transparency", "len(self.back_color) == 4")] ∧
    dr_cm_init_stores_SquareGradiantColorMask = dr_cm_init_stores_RadialGradiantColorMask ∧
    dr_cm_init_stores_HorizontalGradiantColorMask = [("self.back_color", "back_color"), ("self.left_color", "left_color"),
      ("self.right_color", "right_color"), ("self.has_transparency", "len(self.back_color) == 4")] ∧
    dr_cm_init_stores_VerticalGradiantColorMask = [("self.back_color", "back_color"), ("self.top_color", "top_color"),
      ("self.bottom_color", "bottom_color"), ("self.has_transparency", "len(self.back_color) == 4")] ∧
    dr_cm_init_stores_ImageColorMask = [("self.back_color", "back_color"),
      ("stmt", "if color_mask_image:\n    self.color_img = color_mask_image\nelse:\n    self.color_img = Image.open(color_mask_path)"),
      ("self.has_transparency", "len(self.back_color) == 4")] :=
  QR.SourceTieD5.colormask_ctor_src

end SourceTieD5

/-! ### Capstones: (bridge) + (property) composed - the TRANSLATED colour-mask loop, paint colour, logo geometry and drawers
themselves satisfy the property statements. -/
section Capstone
open QR.Gen QR.Gen.Code QR.SourceTieT QR.SourceTieD5

/-- **capstone, `image/styles/colormasks.py:QRColorMask.apply_mask`** (translated loop nest `cm_apply_mask` with `interp_color`,
    `extrap_color`; `fg x y` stands for `self.get_fg_pixel(image, x, y)`, a parameter): whenever the paint colour differs from the
    background, a pixel that is exactly the background colour (light module, quiet zone) stays exactly the background, a pixel
    that is exactly the paint colour (dark module of a square drawer) becomes exactly the foreground pixel, and pixels outside
    `width × height` are untouched.  From `C14_source_applyMask_src`, `C14_light`, `C14_square_dark`. -/
theorem C14_source_capstone_apply_mask (back paint : Colour) (fg : Nat → Nat → Colour) (width height : Nat)
    (image : Nat → Nat → Colour) (hfg : ∀ x y, back.length ≤ (fg x y).length) (hl : back.length = paint.length)
    (hne : paint ≠ back) (a b : Nat) :
    (a < width → b < height → image a b = back → Code.cm_apply_mask back paint fg width height image a b = back) ∧
    (a < width → b < height → back.length = (fg a b).length → image a b = paint →
      Code.cm_apply_mask back paint fg width height image a b = fg a b) ∧
    (¬(a < width ∧ b < height) → Code.cm_apply_mask back paint fg width height image a b = image a b) := by
  rw [C14_source_applyMask_src back paint fg width height image hfg a b]
  refine ⟨fun ha hb hi => ?_, fun ha hb hf hi => ?_, fun h => ?_⟩
  · rw [if_pos ⟨ha, hb⟩, hi]; exact C14_light back paint (fg a b) hl (hfg a b) hne
  · rw [if_pos ⟨ha, hb⟩, hi]; exact C14_square_dark back paint (fg a b) hl hf hne
  · rw [if_neg h]

/-- **capstone, `image/styledpil.py:StyledPilImage.__init__` (`self.paint_color`) + `colormasks.py:SolidFillColorMask.__init__`
    (`has_transparency`)** (translated `spil_paint_color`, `spil_has_transparency_*`; the same holds for the other five mask
    classes, whose translated `has_transparency` is the same expression): the paint colour equals the background exactly for
    a black RGB background and for an RGBA background of alpha 255 (finding D4).
    From `C14_source_paintColour_src`, `C14_paint_eq_back_iff`. -/
theorem C14_source_capstone_paint_colour (r g b : Int) :
    (spil_paint_color [r, g, b] (spil_has_transparency_SolidFillColorMask [r, g, b]) = [r, g, b] ↔ r = 0 ∧ g = 0 ∧ b = 0) ∧
    (∀ a, spil_paint_color [r, g, b, a] (spil_has_transparency_SolidFillColorMask [r, g, b, a]) = [r, g, b, a] ↔ a = 255) := by
  refine ⟨?_, fun a => ?_⟩
  · rw [← (C14_source_paintColour_src [r, g, b]).1]; exact (C14_paint_eq_back_iff r g b).1
  · rw [← (C14_source_paintColour_src [r, g, b, a]).1]; exact (C14_paint_eq_back_iff r g b).2 a

/-- **capstone (the D4 defect at source level), `StyledPilImage.__init__` + `QRColorMask.apply_mask`** (both translated): with
    an opaque RGBA background `(r, g, b, 255)` the translated paint colour is the background, and the translated `apply_mask`
    turns EVERY pixel of the image - whatever was drawn - into background.
    From `C14_source_applyMask_src`, `C14_source_paintColour_src`, `C14_paint_equals_back_blank`. -/
theorem C14_source_capstone_blank_defect (r g b : Int) (fg : Nat → Nat → Colour) (width height : Nat)
    (image : Nat → Nat → Colour) (hfg : ∀ x y, 4 ≤ (fg x y).length) (x y : Nat) (hx : x < width) (hy : y < height) :
    Code.cm_apply_mask [r, g, b, 255]
      (spil_paint_color [r, g, b, 255] (spil_has_transparency_SolidFillColorMask [r, g, b, 255])) fg width height image x y
      = [r, g, b, 255] := by
  rw [C14_source_applyMask_src [r, g, b, 255] _ fg width height image hfg x y, if_pos ⟨hx, hy⟩]
  exact C14_paint_equals_back_blank _ _ _ _ (((C14_source_capstone_paint_colour r g b).2 255).2 rfl)

/-- **capstone, `image/styledpil.py:StyledPilImage.draw_embeded_image`** (translated position / resize computation
    `spil_logo_box_of`, `w = int(total_width * ratio) ≤ total_width`): the paste position is `(off, off)` with `off` a whole number
    of modules, the logo `side × side` is centred (`off + side + off = total`), `w - 1 ≤ side ≤ w + 2·box - 1`, and a whole
    number of modules wide when the image is.  From `C14_source_logoGeometry_src`, `C14_logo`. -/
theorem C14_source_capstone_logo (total height box w : Nat) (hbox : 0 < box) (hw : w ≤ total) :
    ∃ off side : Nat,
      spil_logo_box_of (total : Int) (height : Int) (box : Int) (w : Int) = (((off : Int), (off : Int)), ((side : Int), (side : Int))) ∧
      box ∣ off ∧ off * 2 + side = total ∧ w ≤ side + 1 ∧ side + 1 ≤ w + 2 * box ∧ (box ∣ total → box ∣ side) := by
  have h := C14_logo total box w hbox hw
  exact ⟨(logoGeometry total box w).1, (logoGeometry total box w).2,
    C14_source_logoGeometry_src total height box w (Nat.div_le_div_right hw), h⟩

/-- **capstone, `image/styles/moduledrawers/pil.py`: `drawrect` / `initialize` / `setup_*` of all six Pillow drawers**
    (translated, assembled in `SourceTieD5.sourcePaints`; Pillow's `rectangle` / `paste` are recorded as painted rectangles):
    every rectangle painted for a module lies inside that module's pixel box (box size ≥ 1, ratio in [0, 1]), and a light module
    paints nothing.  `C14_drawer_inside_box` and `C14_drawer_light_nothing` are already statements about the translated code;
    this is their conjunction under one set of hypotheses. -/
theorem C14_source_capstone_drawers (d : Drawer) (bs : Int) (hbs : 1 ≤ bs) (ratio : Rat) (h0 : 0 ≤ ratio) (h1 : ratio ≤ 1)
    (x y : Int) (a : dr_Active) :
    (∀ p ∈ sourcePaints d bs ratio (moduleBox x y bs) a, p.2.inside (moduleBox x y bs)) ∧
    (a.me = false → sourcePaints d bs ratio (moduleBox x y bs) a = []) :=
  ⟨C14_drawer_inside_box d bs hbs ratio h0 h1 x y a, C14_drawer_light_nothing d bs (by omega) ratio x y a⟩

/-- the translated computations evaluated: 33 modules of 10 px with ratio 1/4; paint colour on opaque white RGBA / white RGB -/
example : spil_logo_box_of 330 330 10 82 = ((120, 120), (90, 90)) ∧
    spil_paint_color [255, 255, 255, 255] (spil_has_transparency_SolidFillColorMask [255, 255, 255, 255]) = [255, 255, 255, 255] ∧
    spil_paint_color [255, 255, 255] (spil_has_transparency_SolidFillColorMask [255, 255, 255]) = [0, 0, 0] := by decide
end Capstone

/-- the Python functions this property's model mirrors have, in /repo's current working tree, exactly the normalised
    ASTs the model was written and validated against (fingerprints regenerated by T1 on every run) -/
theorem C14_source_fingerprints : QR.Gen.fp_C14 = QR.Pinned.fp_C14 := by decide

/-- **foreground colour range (gradients)**: `interp_color(c1, c2, t)` - what the radial, square, horizontal and
    vertical gradient masks return from `get_fg_pixel` with `t` the normalised distance / position - is channel-wise
    between the two configured end colours for every interpolation parameter `t` in [0, 1].  (No sign condition on
    the channels is needed: Python's `int()` truncation toward zero of a value between two integers stays between
    them.) -/
theorem C14_fg_range (c1 c2 : Colour) (t : Rat) (h0 : 0 ≤ t) (h1 : t ≤ 1) (hl : c1.length = c2.length) :
    (interpColor c1 c2 t).length = c1.length ∧
    ∀ i (hi : i < c1.length),
      min c1[i] (c2[i]'(hl ▸ hi)) ≤ (interpColor c1 c2 t)[i]! ∧
      (interpColor c1 c2 t)[i]! ≤ max c1[i] (c2[i]'(hl ▸ hi)) :=
  ⟨Proofs.Styled2.interpColor_length c1 c2 t hl, Proofs.Styled2.interpColor_between c1 c2 t h0 h1 hl⟩

/-- **dark pixels under a gradient mask**: an exact paint-coloured pixel (square drawer) comes out as a colour
    channel-wise between the gradient's two end colours -/
theorem C14_gradient_dark (back paint c1 c2 : Colour) (t : Rat) (h0 : 0 ≤ t) (h1 : t ≤ 1)
    (hl : back.length = paint.length) (hc1 : back.length = c1.length) (hc : c1.length = c2.length)
    (hne : paint ≠ back) :
    ∀ i (hi : i < c1.length),
      min c1[i] (c2[i]'(hc ▸ hi)) ≤ (applyMaskPixel back paint (interpColor c1 c2 t) paint)[i]! ∧
      (applyMaskPixel back paint (interpColor c1 c2 t) paint)[i]! ≤ max c1[i] (c2[i]'(hc ▸ hi)) := by
  rw [C14_square_dark back paint _ hl (by rw [Proofs.Styled2.interpColor_length c1 c2 t hc, hc1]) hne]
  exact (C14_fg_range c1 c2 t h0 h1 hc).2

/-- non-vacuity: a third of the way from dark blue to orange -/
example : interpColor [0, 0, 120] [255, 128, 0] (1 / 3) = [85, 42, 80] := by decide +kernel

end QR.Props
