import QR.Model.Styled
import QR.Proofs.Styled
/-
C14 - styled images: colour logic on exact pixels and embedded-image geometry.  Antialiased drawers, gradients' float
rounding and Pillow's paste/resize are validated on real Pillow by the check (partial, see DESIGN.md 6/C14).
-/
namespace QR.Props
open QR QR.Model

/-- **D4 characterised**: the paint colour equals the background exactly for an opaque RGBA background (alpha 255) and
    for a black background without alpha (all-zero channels) - the open known finding; for every other 3/4-channel
    background it differs -/
theorem C14_paint_eq_back_iff (r g b : Int) :
    (paintColour [r, g, b] = [r, g, b] ↔ r = 0 ∧ g = 0 ∧ b = 0) ∧
    (∀ a, paintColour [r, g, b, a] = [r, g, b, a] ↔ a = 255) := by
  constructor
  · simp [paintColour]
    constructor
    · rintro ⟨h1, h2, h3⟩; exact ⟨h1.symm, h2.symm, h3.symm⟩
    · rintro ⟨h1, h2, h3⟩; exact ⟨h1.symm, h2.symm, h3.symm⟩
  · intro a
    simp [paintColour]
    constructor <;> intro h <;> exact h.symm

/-- **light pixels**: a pixel that is exactly the background colour (every pixel of a light module and of the quiet
    zone) stays exactly the background colour after `apply_mask`, whenever the paint colour differs from the background
    in at least one channel (and the foreground pixel has at least as many channels as the background).
    (`Proofs.Styled.light_pixel_strong` shows `hl` and `hne` are not even needed.) -/
theorem C14_light (back paint fg : Colour) (hl : back.length = paint.length) (hfg : back.length ≤ fg.length)
    (hne : paint ≠ back) : applyMaskPixel back paint fg back = back :=
  Proofs.Styled.light_pixel back paint fg hl hfg hne

/-- **dark pixels, square drawers**: a pixel that is exactly the paint colour (every pixel of a dark module drawn by a
    square drawer) becomes exactly the foreground pixel `get_fg_pixel(image, x, y)`, whenever paint ≠ background -/
theorem C14_square_dark (back paint fg : Colour) (hl : back.length = paint.length) (hfg : back.length = fg.length)
    (hne : paint ≠ back) : applyMaskPixel back paint fg paint = fg :=
  Proofs.Styled.dark_pixel back paint fg hl hfg hne

/-- **the D4 defect**: when the paint colour equals the background colour (see `C14_paint_eq_back_iff`: black RGB
    background, or RGBA background with alpha 255) *every* pixel - whatever was drawn - becomes background: the image is
    blank -/
theorem C14_paint_equals_back_blank (back paint fg pix : Colour) (h : paint = back) :
    applyMaskPixel back paint fg pix = back :=
  Proofs.Styled.paint_eq_back back paint fg pix h

/-- **embedded image geometry** (`draw_embeded_image`, `w = int(total * ratio) ≤ total`): the offset is a whole number
    of modules; the logo is centred (`offset + side + offset = total`: equal margins, and no truncation in
    `total - offset*2`); its side is between `w - 1` and `w + 2*box - 1` (both bounds are attained, also when
    `box ∣ total`, see the examples); and when the image is a whole number of modules wide, so is the logo -/
theorem C14_logo (total box w : Nat) (hbox : 0 < box) (hw : w ≤ total) :
    box ∣ (logoGeometry total box w).1 ∧
    (logoGeometry total box w).1 * 2 + (logoGeometry total box w).2 = total ∧
    w ≤ (logoGeometry total box w).2 + 1 ∧ (logoGeometry total box w).2 + 1 ≤ w + 2 * box ∧
    (box ∣ total → box ∣ (logoGeometry total box w).2) :=
  have h := Proofs.Styled.logo_geometry total box w hbox hw
  ⟨h.1, h.2.1, h.2.2.1, h.2.2.2, Proofs.Styled.logo_side_dvd total box w⟩

/-- non-vacuity: white background, black paint, dark-blue foreground -/
example :
    applyMaskPixel [255, 255, 255] (paintColour [255, 255, 255]) [0, 0, 120] [255, 255, 255] = [255, 255, 255] ∧
    applyMaskPixel [255, 255, 255] (paintColour [255, 255, 255]) [0, 0, 120] (paintColour [255, 255, 255]) = [0, 0, 120] :=
  ⟨C14_light _ _ _ rfl (by decide) (by decide), C14_square_dark _ _ _ rfl rfl (by decide)⟩

/-- non-vacuity of the defect: opaque white RGBA background - paint = background, a painted pixel comes out white -/
example : paintColour [255, 255, 255, 255] = [255, 255, 255, 255] ∧
    applyMaskPixel [255, 255, 255, 255] (paintColour [255, 255, 255, 255]) [0, 0, 120, 255] [255, 255, 255, 255]
      = [255, 255, 255, 255] :=
  ⟨by decide, C14_paint_equals_back_blank _ _ _ _ (by decide)⟩

/-- the logo bounds are tight: side = w - 1 and side = w + 2*box - 1 both occur (here with `box ∣ total`);
    default-ish case: 33 modules of 10 px, ratio 1/4 -/
example : logoGeometry 60 6 13 = (24, 12) ∧ logoGeometry 63 7 8 = (21, 21) ∧ logoGeometry 330 10 82 = (120, 90) := by
  decide

end QR.Props
