import QR.Proofs.TypeInfo
import QR.Proofs.Blank
/-
C04 - format and version information are the correct BCH codewords in both copies, each bit at its ISO-assigned module.
Model side: setup_type_info / setup_type_number (loops with the code's `i < 6 / i < 8 / i < 9` arithmetic) and the
`while BCH_digit(d) - BCH_digit(G) >= 0` division loops over constants regenerated from the source.
Spec side: format/version words as "top bits = data, divisible by the generator" (+ mask 101010000010010), the literal ISO
coordinate lists fmtPos1/fmtPos2/verPos1/verPos2, the dark module.
-/
namespace QR.Props
open QR

/-- `util.BCH_type_info(d)` is the ISO format word for all 32 (level, mask) inputs -/
theorem C04_format_code : ∀ d, d < 32 → Model.bchTypeInfo d = Spec.formatWord d := C04_bch15

/-- `util.BCH_type_number(v)` is the ISO version word (in particular for versions 7..40) -/
theorem C04_version_code : ∀ v, v < 64 → Model.bchTypeNumber v = Spec.versionWord v := C04_bch18

/-- the Spec's words really are BCH(15,5) / BCH(18,6) codewords carrying their data in the top bits -/
theorem C04_spec_sound :
    (∀ d, d < 32 → Spec.gf2rem 0x537 10 5 (Spec.formatWord d ^^^ 0x5412) = 0 ∧ (Spec.formatWord d ^^^ 0x5412) >>> 10 = d ∧ Spec.formatWord d < 2 ^ 15) ∧
    (∀ v, v < 64 → Spec.gf2rem 0x1F25 12 6 (Spec.versionWord v) = 0 ∧ Spec.versionWord v >>> 12 = v) :=
  ⟨C04_spec_format_sound, C04_spec_version_sound⟩

/-- the integers used for the levels are the ISO two-bit indicators -/
theorem C04_levels :
    Gen.ERROR_CORRECT_L = Spec.Level.L.indicator ∧ Gen.ERROR_CORRECT_M = Spec.Level.M.indicator ∧
    Gen.ERROR_CORRECT_Q = Spec.Level.Q.indicator ∧ Gen.ERROR_CORRECT_H = Spec.Level.H.indicator := C04_level

/-- **C04 (writer)**: for all 40 versions, 4 levels, 8 masks, test/final: after setup_type_info (+ setup_type_number for
    v ≥ 7) every format / version / dark-module cell holds exactly the bit the ISO layout assigns to it (`Spec.infoCell`:
    bit i of the format word at fmtPos1[i] and fmtPos2[i], bit i of the version word at verPos1[i] and verPos2[i], dark
    module dark; all light in test mode), and every other cell is untouched -/
theorem C04_written (v level mask : Nat) (test : Bool) (m : Model.Mat)
    (hv1 : 1 ≤ v) (hv40 : v ≤ 40) (hl : level < 4) (hk : mask < 8) (hm : MatShape m (Spec.size v)) :
    let n := Spec.size v
    let m' := (if v ≥ 7 then Model.setupTypeNumber n v (Model.setupTypeInfo n level m test mask) test
               else Model.setupTypeInfo n level m test mask)
    MatShape m' n ∧ ∀ r c, r < n → c < n →
      m'.get r c = (match Spec.infoCell v level mask test r c with | some b => some b | none => m.get r c) :=
  QR.GeoB.typeInfo_get v level mask test m hv1 hv40 hl hk hm

/-- the cells written are exactly the format, version and dark-module cells of the ISO layout ... -/
theorem C04_cells (v level mask : Nat) (hv : 1 ≤ v) (test : Bool) (r c : Nat)
    (hr : r < Spec.size v) (hc : c < Spec.size v) :
    (Spec.infoCell v level mask test r c).isSome = true ↔
      (Spec.inFormat (Spec.size v) r c = true ∨ Spec.isDarkModule (Spec.size v) r c = true ∨
        Spec.inVersion v (Spec.size v) r c = true) :=
  QR.GeoB.infoCell_isSome_iff v level mask hv test r c hr hc

/-- ... and none of them is a finder / separator / timing / alignment cell (they are still `None` in the cached blank) -/
theorem C04_disjoint (v r c : Nat) (hv1 : 1 ≤ v) (hv40 : v ≤ 40)
    (h : Spec.inFormat (Spec.size v) r c = true ∨ Spec.inVersion v (Spec.size v) r c = true ∨
      Spec.isDarkModule (Spec.size v) r c = true) : Spec.blankCell v r c = none :=
  QR.GeoB.blankCell_none_of_info v r c hv1 hv40 h

/-- **C04 (reader)**: any symbol whose format/version cells hold those bits is read back by the strict Spec reader as
    exactly (level, mask), with both copies equal, and passes the version-information test -/
theorem C04_read_back (S : Spec.Sym) (v level mask : Nat) (l : Spec.Level)
    (hv1 : 1 ≤ v) (hv40 : v ≤ 40) (hl : level < 4) (hk : mask < 8)
    (hlv : Spec.Level.ofIndicator level = some l) (hn : S.n = Spec.size v)
    (hS : ∀ r c b, Spec.infoCell v level mask false r c = some b → S.get r c = b) :
    Spec.readFormat S = .ok (l, mask) ∧ Spec.versionInfoOK S v = true :=
  QR.GeoB.reader_of_infoCell S v level mask l hv1 hv40 hl hk hlv hn hS

/-- published examples (tests of the Spec): format word for M / mask 101, version words 7 and 40 -/
example : Spec.formatWord 0b00101 = 0b100000011001110 := by decide
example : Spec.versionWord 7 = 0x07C94 ∧ Spec.versionWord 40 = 0x28C69 := by decide

end QR.Props
