import QR.Proofs.TypeInfo
import QR.Proofs.Blank
import QR.Proofs.Pinned
import QR.Proofs.SourceTieA1
import QR.Proofs.SourceTieA2
import QR.Proofs.ReadBack
import QR.Proofs.CapstoneE2C04
/-
C04 - format and version information are the correct BCH codewords in both copies, each bit at its ISO-assigned module.
Model side: setup_type_info / setup_type_number (loops with the code's `i < 6 / i < 8 / i < 9` arithmetic) and the
`while BCH_digit(d) - BCH_digit(G) >= 0` division loops over constants regenerated from the source.
Spec side: format/version words as "top bits = data, divisible by the generator" (+ mask 101010000010010), the literal ISO
coordinate lists fmtPos1/fmtPos2/verPos1/verPos2, the dark module.
-/
namespace QR.Props
open QR

/-- `util.BCH_type_info(d)` is the ISO format word for all 32 (level, mask) inputs -/
theorem C04_format_code : ∀ d, d < 32 → Model.bchTypeInfo d = Spec.formatWord d := C04_bch15

/-- `util.BCH_type_number(v)` is the ISO version word (in particular for versions 7..40) -/
theorem C04_version_code : ∀ v, v < 64 → Model.bchTypeNumber v = Spec.versionWord v := C04_bch18

/-- the Spec's words really are BCH(15,5) / BCH(18,6) codewords carrying their data in the top bits -/
theorem C04_spec_sound :
    (∀ d, d < 32 → Spec.gf2rem 0x537 10 5 (Spec.formatWord d ^^^ 0x5412) = 0 ∧ (Spec.formatWord d ^^^ 0x5412) >>> 10 = d ∧ Spec.formatWord d < 2 ^ 15) ∧
    (∀ v, v < 64 → Spec.gf2rem 0x1F25 12 6 (Spec.versionWord v) = 0 ∧ Spec.versionWord v >>> 12 = v) :=
  ⟨C04_spec_format_sound, C04_spec_version_sound⟩

/-- the integers used for the levels are the ISO two-bit indicators -/
theorem C04_levels :
    Gen.ERROR_CORRECT_L = Spec.Level.L.indicator ∧ Gen.ERROR_CORRECT_M = Spec.Level.M.indicator ∧
    Gen.ERROR_CORRECT_Q = Spec.Level.Q.indicator ∧ Gen.ERROR_CORRECT_H = Spec.Level.H.indicator := C04_level

/-- **C04 (writer)**: for all 40 versions, 4 levels, 8 masks, test/final: after setup_type_info (+ setup_type_number for
    v ≥ 7) every format / version / dark-module cell holds exactly the bit the ISO layout assigns to it (`Spec.infoCell`:
    bit i of the format word at fmtPos1[i] and fmtPos2[i], bit i of the version word at verPos1[i] and verPos2[i], dark
    module dark; all light in test mode), and every other cell is untouched -/
theorem C04_written (v level mask : Nat) (test : Bool) (m : Model.Mat)
    (hv1 : 1 ≤ v) (hv40 : v ≤ 40) (hl : level < 4) (hk : mask < 8) (hm : MatShape m (Spec.size v)) :
    let n := Spec.size v
    let m' := (if v ≥ 7 then Model.setupTypeNumber n v (Model.setupTypeInfo n level m test mask) test
               else Model.setupTypeInfo n level m test mask)
    MatShape m' n ∧ ∀ r c, r < n → c < n →
      m'.get r c = (match Spec.infoCell v level mask test r c with | some b => some b | none => m.get r c) :=
  QR.GeoB.typeInfo_get v level mask test m hv1 hv40 hl hk hm

/-- the cells written are exactly the format, version and dark-module cells of the ISO layout ... -/
theorem C04_cells (v level mask : Nat) (hv : 1 ≤ v) (test : Bool) (r c : Nat)
    (hr : r < Spec.size v) (hc : c < Spec.size v) :
    (Spec.infoCell v level mask test r c).isSome = true ↔
      (Spec.inFormat (Spec.size v) r c = true ∨ Spec.isDarkModule (Spec.size v) r c = true ∨
        Spec.inVersion v (Spec.size v) r c = true) :=
  QR.GeoB.infoCell_isSome_iff v level mask hv test r c hr hc

/-- ... and none of them is a finder / separator / timing / alignment cell (they are still `None` in the cached blank) -/
theorem C04_disjoint (v r c : Nat) (hv1 : 1 ≤ v) (hv40 : v ≤ 40)
    (h : Spec.inFormat (Spec.size v) r c = true ∨ Spec.inVersion v (Spec.size v) r c = true ∨
      Spec.isDarkModule (Spec.size v) r c = true) : Spec.blankCell v r c = none :=
  QR.GeoB.blankCell_none_of_info v r c hv1 hv40 h

/-- **C04 (reader)**: any symbol whose format/version cells hold those bits is read back by the strict Spec reader as
    exactly (level, mask), with both copies equal, and passes the version-information test -/
theorem C04_read_back (S : Spec.Sym) (v level mask : Nat) (l : Spec.Level)
    (hv1 : 1 ≤ v) (hv40 : v ≤ 40) (hl : level < 4) (hk : mask < 8)
    (hlv : Spec.Level.ofIndicator level = some l) (hn : S.n = Spec.size v)
    (hS : ∀ r c b, Spec.infoCell v level mask false r c = some b → S.get r c = b) :
    Spec.readFormat S = .ok (l, mask) ∧ Spec.versionInfoOK S v = true :=
  QR.GeoB.reader_of_infoCell S v level mask l hv1 hv40 hl hk hlv hn hS

/-- published examples (tests of the Spec): format word for M / mask 101, version words 7 and 40 -/
example : Spec.formatWord 0b00101 = 0b100000011001110 := by decide
example : Spec.versionWord 7 = 0x07C94 ∧ Spec.versionWord 40 = 0x28C69 := by decide


/-! ### Source tie, part 2 (T2 plugins `tools/t2_fragments/`): the hand-written Model equals the definitions translated from
    /repo's current Python AST (`QR.Gen.Code`, regenerated on every run). Restated verbatim from `QR/Proofs/SourceTie*.lean`. -/
section SourceTieT2
open QR.Model QR.Gen.Code QR.SourceTieA

theorem C04_source_consts_src : const_G15 = Gen.G15 ∧ const_G18 = Gen.G18 ∧ const_G15_MASK = Gen.G15_MASK :=
  QR.SourceTieA.consts_src

/-- fuel-free form: the Python `while` statement of `BCH_digit`, started in `(data, 0)`, terminates in a state whose
    `digit` is `Model.bchDigit data` -/
theorem C04_source_bchDigit_src_while (data : Nat) :
    ∃ s, While digitCond digitStep (bch_digit_init data) s ∧ bch_digit_result s.1 s.2 = bchDigit data :=
  QR.SourceTieA.bchDigit_src_while data

/-- **BCH_type_info**: `Model.bchTypeInfo data` is the translated result expression `((data << 10) | d) ^ G15_MASK`
    applied to the final state of the translated loop
    `d = data << 10; while BCH_digit(d) - BCH_digit(G15) >= 0: d ^= G15 << (BCH_digit(d) - BCH_digit(G15))`
    (run with the Model's fuel), and that loop has exited. -/
theorem C04_source_bchTypeInfo_src (data : Nat) :
    let d0 := bch_type_info_init bchDigit data
    let d := whileFuel (bch_type_info_cond bchDigit data) (bch_type_info_step bchDigit data) (bchDigit d0 + 1) d0
    bchTypeInfo data = bch_type_info_result bchDigit data d ∧ bch_type_info_cond bchDigit data d = false :=
  QR.SourceTieA.bchTypeInfo_src data

/-- fuel-free forms: the Python `while` statements terminate, and the returned expression is the Model's value -/
theorem C04_source_bchTypeInfo_src_while (data : Nat) :
    ∃ d, While (bch_type_info_cond bchDigit data) (bch_type_info_step bchDigit data) (bch_type_info_init bchDigit data) d ∧
      bch_type_info_result bchDigit data d = bchTypeInfo data :=
  QR.SourceTieA.bchTypeInfo_src_while data

/-- **BCH_type_number**: same for `d = data << 12`, `G18`, result `(data << 12) | d`. -/
theorem C04_source_bchTypeNumber_src (data : Nat) :
    let d0 := bch_type_number_init bchDigit data
    let d := whileFuel (bch_type_number_cond bchDigit data) (bch_type_number_step bchDigit data) (bchDigit d0 + 1) d0
    bchTypeNumber data = bch_type_number_result bchDigit data d ∧ bch_type_number_cond bchDigit data d = false :=
  QR.SourceTieA.bchTypeNumber_src data

theorem C04_source_bchTypeNumber_src_while (data : Nat) :
    ∃ d, While (bch_type_number_cond bchDigit data) (bch_type_number_step bchDigit data)
        (bch_type_number_init bchDigit data) d ∧
      bch_type_number_result bchDigit data d = bchTypeNumber data :=
  QR.SourceTieA.bchTypeNumber_src_while data

/-- the data word `(self.error_correction << 3) | mask_pattern` -/
theorem C04_source_type_info_data_src (level mask : Nat) : type_info_data level mask = (level <<< 3) ||| mask :=
  QR.SourceTieA.type_info_data_src level mask

theorem C04_source_type_info_calls : type_info_bits_call = "util.BCH_type_info(data)" ∧
    type_number_bits_call = "util.BCH_type_number(self.version)" :=
  QR.SourceTieA.type_info_calls

theorem C04_source_type_info_ranges : type_info_v_range = (0, 15) ∧ type_info_h_range = (0, 15) ∧
    type_number_a_range = (0, 18) ∧ type_number_b_range = (0, 18) :=
  QR.SourceTieA.type_info_ranges

/-- vertical strip: for every loop index the translated (row, col, value) is the Model's -/
theorem C04_source_type_info_v_src (n : Nat) (hn : 15 ≤ n) (test : Bool) (bits i : Nat) :
    type_info_v n test bits i =
      (((((if i < 6 then i else if i < 8 then i + 1 else n - 15 + i : Nat) : Int)), 8), (!test && bits.testBit i)) :=
  QR.SourceTieA.type_info_v_src n hn test bits i

/-- horizontal strip -/
theorem C04_source_type_info_h_src (n : Nat) (i : Nat) (hi : i < 15) (hn : i < 8 → i + 1 ≤ n) (test : Bool) (bits : Nat) :
    type_info_h n test bits i =
      ((8, (((if i < 8 then n - i - 1 else if i < 9 then 15 - i - 1 + 1 else 15 - i - 1 : Nat) : Int))),
        (!test && bits.testBit i)) :=
  QR.SourceTieA.type_info_h_src n i hi hn test bits

theorem C04_source_type_info_fixed_src (n : Nat) (hn : 8 ≤ n) (test : Bool) :
    type_info_fixed n test = ((((n - 8 : Nat) : Int), 8), !test) :=
  QR.SourceTieA.type_info_fixed_src n hn test

/-- all cells written by `setup_type_info` have non-negative coordinates inside the matrix (so Python's negative-index
    wrap-around never applies and `Int.toNat` in `writeCell` is exact) -/
theorem C04_source_type_info_cells_inside (n : Nat) (hn : 15 ≤ n) (test : Bool) (bits i : Nat) (hi : i < 15) :
    let v := type_info_v n test bits i
    let h := type_info_h n test bits i
    let f := type_info_fixed n test
    (0 ≤ v.1.1 ∧ v.1.1 < n ∧ 0 ≤ v.1.2 ∧ v.1.2 < n) ∧ (0 ≤ h.1.1 ∧ h.1.1 < n ∧ 0 ≤ h.1.2 ∧ h.1.2 < n) ∧
      (0 ≤ f.1.1 ∧ f.1.1 < n ∧ 0 ≤ f.1.2 ∧ f.1.2 < n) :=
  QR.SourceTieA.type_info_cells_inside n hn test bits i hi

/-- **setup_type_info**: the Model function is the translated data word, the two translated write loops over the
    translated ranges, then the translated fixed module (`self.modules[self.modules_count - 8][8] = not test`).
    `15 ≤ n` is guaranteed by Python (`modules_count = 4 * version + 17 ≥ 21`). -/
theorem C04_source_setupTypeInfo_src (n level : Nat) (hn : 15 ≤ n) (m : Mat) (test : Bool) (mask : Nat) :
    setupTypeInfo n level m test mask =
      let bits := bchTypeInfo (type_info_data level mask)
      writeCell
        (writeLoop type_info_h_range (type_info_h n test bits)
          (writeLoop type_info_v_range (type_info_v n test bits) m))
        (type_info_fixed n test) :=
  QR.SourceTieA.setupTypeInfo_src n level hn m test mask

theorem C04_source_type_number_a_src (n : Nat) (hn : 11 ≤ n) (test : Bool) (bits i : Nat) :
    type_number_a n test bits i = ((((i / 3 : Nat) : Int), ((i % 3 + n - 8 - 3 : Nat) : Int)), (!test && bits.testBit i)) :=
  QR.SourceTieA.type_number_a_src n hn test bits i

theorem C04_source_type_number_b_src (n : Nat) (hn : 11 ≤ n) (test : Bool) (bits i : Nat) :
    type_number_b n test bits i = ((((i % 3 + n - 8 - 3 : Nat) : Int), ((i / 3 : Nat) : Int)), (!test && bits.testBit i)) :=
  QR.SourceTieA.type_number_b_src n hn test bits i

theorem C04_source_type_number_cells_inside (n : Nat) (hn : 11 ≤ n) (test : Bool) (bits i : Nat) (hi : i < 18) :
    let a := type_number_a n test bits i
    let b := type_number_b n test bits i
    (0 ≤ a.1.1 ∧ a.1.1 < n ∧ 0 ≤ a.1.2 ∧ a.1.2 < n) ∧ (0 ≤ b.1.1 ∧ b.1.1 < n ∧ 0 ≤ b.1.2 ∧ b.1.2 < n) :=
  QR.SourceTieA.type_number_cells_inside n hn test bits i hi

/-- **setup_type_number**: the Model function is the two translated write loops over the translated ranges, with
    `bits = BCH_type_number(version)`.  `11 ≤ n` is guaranteed by Python (`modules_count ≥ 21`). -/
theorem C04_source_setupTypeNumber_src (n version : Nat) (hn : 11 ≤ n) (m : Mat) (test : Bool) :
    setupTypeNumber n version m test =
      let bits := bchTypeNumber version
      writeLoop type_number_b_range (type_number_b n test bits)
        (writeLoop type_number_a_range (type_number_a n test bits) m) :=
  QR.SourceTieA.setupTypeNumber_src n version hn m test

end SourceTieT2

/-! ### Capstones: (ii) composed with (i) - the TRANSLATED SOURCE satisfies the Spec-level statements.
    The `…Src` functions (`QR/Proofs/CapstoneE2.lean`) are the right-hand sides of the bridge theorems above: the Python function
    assembled from the `QR.Gen.Code` fragments, with each callee that is not translated in place as an explicit parameter. -/
section Capstone
open QR.Model QR.Gen.Code QR.SourceTieA QR.CapstoneE2

theorem C04_source_bchTypeInfoSrc_eq (data : Nat) : bchTypeInfoSrc bchDigit data = bchTypeInfo data :=
  (C04_source_bchTypeInfo_src data).1.symm

theorem C04_source_bchTypeNumberSrc_eq (data : Nat) : bchTypeNumberSrc bchDigit data = bchTypeNumber data :=
  (C04_source_bchTypeNumber_src data).1.symm

/-- **capstone, util.py:BCH_type_info** (callee `util.py:BCH_digit` = the parameter, instantiated by `Model.bchDigit`, which
    `C04_source_bchDigit_src_while` ties to the translated `while` loop of `BCH_digit`): for all 32 (level, mask) data words
    the translated initialisation / loop / result expression returns the ISO format word `Spec.formatWord` (BCH(15,5)
    codeword xor 101010000010010, by `C04_spec_sound`); from `C04_source_bchTypeInfo_src` and `C04_format_code`.
    Second part, fuel-free: the Python `while` statement terminates, and EVERY terminating run returns the ISO word. -/
theorem C04_source_capstone_format_code (d : Nat) (hd : d < 32) :
    bchTypeInfoSrc bchDigit d = Spec.formatWord d ∧
    (∃ s, While (bch_type_info_cond bchDigit d) (bch_type_info_step bchDigit d) (bch_type_info_init bchDigit d) s) ∧
    ∀ s, While (bch_type_info_cond bchDigit d) (bch_type_info_step bchDigit d) (bch_type_info_init bchDigit d) s →
      bch_type_info_result bchDigit d s = Spec.formatWord d := by
  obtain ⟨s0, hs0, hr0⟩ := C04_source_bchTypeInfo_src_while d
  refine ⟨(C04_source_bchTypeInfoSrc_eq d).trans (C04_format_code d hd), ⟨s0, hs0⟩, fun s hs => ?_⟩
  rw [While.det hs hs0, hr0]
  exact C04_format_code d hd

/-- **capstone, util.py:BCH_type_number** (callee `BCH_digit` = parameter, as above): for every 6-bit version number (in
    particular versions 7..40) the translated loop returns the ISO version word `Spec.versionWord` (BCH(18,6) codeword, by
    `C04_spec_sound`); from `C04_source_bchTypeNumber_src` and `C04_version_code`. Fuel-free second part as above. -/
theorem C04_source_capstone_version_code (v : Nat) (hv : v < 64) :
    bchTypeNumberSrc bchDigit v = Spec.versionWord v ∧
    (∃ s, While (bch_type_number_cond bchDigit v) (bch_type_number_step bchDigit v) (bch_type_number_init bchDigit v) s) ∧
    ∀ s, While (bch_type_number_cond bchDigit v) (bch_type_number_step bchDigit v) (bch_type_number_init bchDigit v) s →
      bch_type_number_result bchDigit v s = Spec.versionWord v := by
  obtain ⟨s0, hs0, hr0⟩ := C04_source_bchTypeNumber_src_while v
  refine ⟨(C04_source_bchTypeNumberSrc_eq v).trans (C04_version_code v hv), ⟨s0, hs0⟩, fun s hs => ?_⟩
  rw [While.det hs hs0, hr0]
  exact C04_version_code v hv

theorem C04_source_setupTypeInfoSrc_eq (n level : Nat) (hn : 15 ≤ n) (m : Mat) (test : Bool) (mask : Nat) :
    setupTypeInfoSrc (bchTypeInfoSrc bchDigit) n level m test mask = setupTypeInfo n level m test mask := by
  rw [C04_source_setupTypeInfo_src n level hn m test mask]
  unfold setupTypeInfoSrc
  rw [C04_source_bchTypeInfoSrc_eq]

theorem C04_source_setupTypeNumberSrc_eq (n version : Nat) (hn : 11 ≤ n) (m : Mat) (test : Bool) :
    setupTypeNumberSrc (bchTypeNumberSrc bchDigit) n version m test = setupTypeNumber n version m test := by
  rw [C04_source_setupTypeNumber_src n version hn m test]
  unfold setupTypeNumberSrc
  rw [C04_source_bchTypeNumberSrc_eq]

/-- **capstone, main.py:QRCode.setup_type_info + setup_type_number over util.py:BCH_type_info / BCH_type_number** (the whole
    chain source-assembled; only `BCH_digit` is a parameter, instantiated by `Model.bchDigit`; the version test is the
    translated `self.version >= 7` of `makeImpl`): for all 40 versions, 4 levels, 8 masks, test/final and every matrix of
    the right shape, after the translated write loops every format / version / dark-module cell holds exactly the bit the ISO
    layout assigns to it (`Spec.infoCell`) and every other cell is untouched; from `C04_source_setupTypeInfo_src`,
    `C04_source_setupTypeNumber_src`, `C04_source_bchTypeInfo_src`, `C04_source_bchTypeNumber_src` and `C04_written`. -/
theorem C04_source_capstone_written (v level mask : Nat) (test : Bool) (m : Mat)
    (hv1 : 1 ≤ v) (hv40 : v ≤ 40) (hl : level < 4) (hk : mask < 8) (hm : MatShape m (Spec.size v)) :
    let n := Spec.size v
    let mi := setupTypeInfoSrc (bchTypeInfoSrc bchDigit) n level m test mask
    let m' := (if makeImpl_type_number_test v then setupTypeNumberSrc (bchTypeNumberSrc bchDigit) n v mi test else mi)
    MatShape m' n ∧ ∀ r c, r < n → c < n →
      m'.get r c = (match Spec.infoCell v level mask test r c with | some b => some b | none => m.get r c) := by
  intro n mi m'
  have hn : 15 ≤ Spec.size v := by unfold Spec.size; omega
  have hn' : 11 ≤ Spec.size v := by omega
  have h := C04_written v level mask test m hv1 hv40 hl hk hm
  have e : m' = (if v ≥ 7 then Model.setupTypeNumber (Spec.size v) v (Model.setupTypeInfo (Spec.size v) level m test mask) test
               else Model.setupTypeInfo (Spec.size v) level m test mask) := by
    show (if makeImpl_type_number_test v then
        setupTypeNumberSrc (bchTypeNumberSrc bchDigit) (Spec.size v) v
          (setupTypeInfoSrc (bchTypeInfoSrc bchDigit) (Spec.size v) level m test mask) test
        else setupTypeInfoSrc (bchTypeInfoSrc bchDigit) (Spec.size v) level m test mask) = _
    rw [C04_source_setupTypeInfoSrc_eq _ _ hn, C04_source_setupTypeNumberSrc_eq _ _ hn']
    simp only [makeImpl_type_number_test, decide_eq_true_eq]
  rw [e]
  exact h

/-- **capstone (reader), same chain as `C04_source_capstone_written`**: any symbol `S` that shows the matrix written by the
    translated `setup_type_info` (+ `setup_type_number` for v ≥ 7) in final mode is read back by the strict Spec reader as
    exactly (level, mask), both format copies equal, and passes the version-information test; from
    `C04_source_capstone_written` and `C04_read_back`. -/
theorem C04_source_capstone_read_back (S : Spec.Sym) (v level mask : Nat) (l : Spec.Level) (m : Mat)
    (hv1 : 1 ≤ v) (hv40 : v ≤ 40) (hl : level < 4) (hk : mask < 8)
    (hlv : Spec.Level.ofIndicator level = some l) (hm : MatShape m (Spec.size v)) (hn : S.n = Spec.size v)
    (hS : ∀ r c, r < Spec.size v → c < Spec.size v →
      S.get r c = (((if makeImpl_type_number_test v
        then setupTypeNumberSrc (bchTypeNumberSrc bchDigit) (Spec.size v) v
          (setupTypeInfoSrc (bchTypeInfoSrc bchDigit) (Spec.size v) level m false mask) false
        else setupTypeInfoSrc (bchTypeInfoSrc bchDigit) (Spec.size v) level m false mask).get r c).getD false)) :
    Spec.readFormat S = .ok (l, mask) ∧ Spec.versionInfoOK S v = true := by
  apply C04_read_back S v level mask l hv1 hv40 hl hk hlv hn
  intro r c b hb
  obtain ⟨hr, hc⟩ := QR.Sym.infoCell_inBounds v level mask hv1 false r c b hb
  have h := (C04_source_capstone_written v level mask false m hv1 hv40 hl hk hm).2 r c hr hc
  rw [hS r c hr hc, h, hb]
  rfl

/-- the capstones at a concrete input: M / mask 101 and version 7 (the published ISO examples), evaluated on the translated loops -/
example : bchTypeInfoSrc bchDigit 0b00101 = 0b100000011001110 ∧ bchTypeNumberSrc bchDigit 7 = 0x07C94 := by decide

end Capstone

/-- the Python functions this property's model mirrors have, in /repo's current working tree, exactly the normalised
    ASTs the model was written and validated against (fingerprints regenerated by T1 on every run) -/
theorem C04_source_fingerprints : QR.Gen.fp_C04 = QR.Pinned.fp_C04 := by decide

end QR.Props
