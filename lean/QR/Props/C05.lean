import QR.Model.Matrix
import QR.Spec.Geometry
import QR.Proofs.Finite
import QR.Proofs.ReadBack
import QR.Props.C03
import QR.Props.C09
import QR.Proofs.SourceTieC05
import QR.Proofs.Pinned
import QR.Proofs.SourceTieC05b
import QR.Proofs.SourceTieB2
import QR.Proofs.SourceTieT1
import QR.Proofs.SourceTieD6b
import QR.Props.C04
import QR.Proofs.CapstoneE2C05
/-
C05 - function patterns, geometry and data placement of every symbol.
Finite part: alignment table = Annex E closed form, mask functions = ISO Table 10.
Symbolic part (all 40 versions, 4 levels, 8 masks, EVERY codeword content): the matrix `makeImpl` returns is
(4v+17) x (4v+17) with every module definite; finder patterns, separators, timing patterns, alignment patterns and the
dark module hold the colours the per-cell Spec predicates (`Spec.fixedColour`: Chebyshev rings around the three finder
centres, Annex E centres, parity on row/column 6) assign - independently of data, level and mask; and the data region,
read in ISO zig-zag order over the non-function modules and unmasked (`Spec.readRaw`), is exactly the codeword bits, most
significant bit first, followed by the remainder bits, all zero.  Stated for `Model.makeImpl` and for `Model.compile`.
-/
namespace QR.Props
open QR

set_option maxRecDepth 100000 in
/-- `PATTERN_POSITION_TABLE` is the Annex E closed form for all 40 versions -/
theorem C05_alignment : ∀ v, v < 40 → Model.patternPosition (v + 1) = .ok (Spec.alignmentCentres (v + 1)) := by
  have h : (List.range 40).all (fun v =>
      match Model.patternPosition (v + 1) with
      | .ok p => p == Spec.alignmentCentres (v + 1)
      | .error _ => false) = true := by decide +kernel
  intro v hv
  have := forall_lt_of_all h v hv
  revert this
  cases Model.patternPosition (v + 1) with
  | ok b => intro h; simp at h; rw [h]
  | error e => intro h; simp at h

/-- the eight mask functions of the code are the eight conditions of ISO Table 10, for all coordinates -/
theorem C05_mask : ∀ p i j, p < 8 → Model.maskFunc p i j = Spec.maskCond p i j := by
  intro p i j hp
  match p, hp with
  | 0, _ | 1, _ | 2, _ | 3, _ | 4, _ | 5, _ | 6, _ => rfl
  | 7, _ => show decide (_ = 0) = (_ == 0); rw [Nat.add_comm]; rfl

set_option maxRecDepth 100000 in
/-- sanity of the Spec's Annex E formula: first coordinate 6, last 4v+10, count ⌊v/7⌋+2, strictly increasing -/
theorem C05_spec_alignment_sane : ∀ v, v < 39 →
    let cs := Spec.alignmentCentres (v + 2)
    cs.head? = some 6 ∧ cs.getLast? = some (4 * (v + 2) + 10) ∧ cs.length = (v + 2) / 7 + 2 ∧ cs.Pairwise (· < ·) := by
  have h : (List.range 39).all (fun v =>
      let cs := Spec.alignmentCentres (v + 2)
      cs.head? == some 6 && cs.getLast? == some (4 * (v + 2) + 10) && cs.length == (v + 2) / 7 + 2
        && decide (cs.Pairwise (· < ·))) = true := by decide +kernel
  intro v hv
  have := forall_lt_of_all h v hv
  simpa [Bool.and_eq_true, and_assoc] using this

/-! ### the built symbol -/

/-- **C05 (size, definiteness)**: for every version 1..40, level, mask, trial/final flag and EVERY list of codewords,
    `makeImpl` returns a (4v+17) x (4v+17) matrix in which every module is definite (no `None` left) -/
theorem C05_size_definite (v level mask : Nat) (test : Bool) (data : List Nat)
    (h1 : 1 ≤ v) (h40 : v ≤ 40) (hl : level < 4) (hk : mask < 8)
    (M : Model.Mat) (h : Model.makeImpl v level test mask data = .ok M) :
    M.size = 4 * v + 17 ∧ (∀ r, r < 4 * v + 17 → (M.getD r #[]).size = 4 * v + 17) ∧
    ∀ r c, r < 4 * v + 17 → c < 4 * v + 17 → (M.get r c).isSome = true := by
  obtain ⟨M', hM', hshape, hsome, _⟩ := Sym.makeImpl_spec v level mask test data h1 h40 hl hk
  rw [h] at hM'
  injection hM' with hM'
  subst hM'
  exact ⟨hshape.1, hshape.2, hsome⟩

/-- **C05 (function patterns)**: in the final symbol every module to which the ISO layout assigns a fixed colour
    (`Spec.fixedColour`: finder patterns, separators, timing patterns, alignment patterns, dark module) holds that
    colour - for every data content, level and mask: function patterns are data-independent -/
theorem C05_function (v level mask : Nat) (data : List Nat)
    (h1 : 1 ≤ v) (h40 : v ≤ 40) (hl : level < 4) (hk : mask < 8)
    (M : Model.Mat) (h : Model.makeImpl v level false mask data = .ok M) :
    ∀ r c b, r < 4 * v + 17 → c < 4 * v + 17 → Spec.fixedColour v r c = some b → M.get r c = some b := by
  obtain ⟨M', hM', _, _, hblank, hinfo, _⟩ := Sym.makeImpl_spec v level mask false data h1 h40 hl hk
  rw [h] at hM'
  injection hM' with hM'
  subst hM'
  intro r c b hr hc hb
  rcases Sym.fixedColour_cases v r c b hb with hb | ⟨hd, rfl⟩
  · exact hblank r c b hr hc hb
  · exact hinfo r c true hr hc (Sym.infoCell_dark v level mask h1 false r c hd)

/-- the same for the trial symbols of `best_mask_pattern` (`test = True`) and the final one alike: every fixed-colour
    module except the dark module holds its ISO colour; the dark module holds `not test` (light in a trial symbol,
    exactly as the Python code writes it) -/
theorem C05_function_any (v level mask : Nat) (test : Bool) (data : List Nat)
    (h1 : 1 ≤ v) (h40 : v ≤ 40) (hl : level < 4) (hk : mask < 8)
    (M : Model.Mat) (h : Model.makeImpl v level test mask data = .ok M) :
    (∀ r c b, r < 4 * v + 17 → c < 4 * v + 17 → Spec.fixedColour v r c = some b →
      Spec.isDarkModule (4 * v + 17) r c = false → M.get r c = some b) ∧
    M.get (4 * v + 9) 8 = some (!test) := by
  obtain ⟨M', hM', _, _, hblank, hinfo, _⟩ := Sym.makeImpl_spec v level mask test data h1 h40 hl hk
  rw [h] at hM'
  injection hM' with hM'
  subst hM'
  constructor
  · intro r c b hr hc hb hnd
    rcases Sym.fixedColour_cases v r c b hb with hb | ⟨hd, _⟩
    · exact hblank r c b hr hc hb
    · rw [show Spec.size v = 4 * v + 17 from rfl, hnd] at hd; cases hd
  · apply hinfo (4 * v + 9) 8 (!test) (by unfold Spec.size; omega) (by unfold Spec.size; omega)
    apply Sym.infoCell_dark v level mask h1 test
    simp [Spec.isDarkModule, Spec.size]

/-- format, version and dark-module cells hold the ISO words' bits (C04 transported to the finished symbol) -/
theorem C05_info (v level mask : Nat) (test : Bool) (data : List Nat)
    (h1 : 1 ≤ v) (h40 : v ≤ 40) (hl : level < 4) (hk : mask < 8)
    (M : Model.Mat) (h : Model.makeImpl v level test mask data = .ok M) :
    ∀ r c b, Spec.infoCell v level mask test r c = some b → M.get r c = some b := by
  obtain ⟨M', hM', _, _, _, hinfo, _⟩ := Sym.makeImpl_spec v level mask test data h1 h40 hl hk
  rw [h] at hM'
  injection hM' with hM'
  subst hM'
  intro r c b hb
  obtain ⟨hr, hc⟩ := Sym.infoCell_inBounds v level mask h1 test r c b hb
  exact hinfo r c b hr hc hb

/-- **C05 (data placement)**: for a full codeword sequence, the data region of the symbol - the non-function modules
    in ISO zig-zag order (two-module strips from the right, alternately upwards and downwards, skipping the vertical
    timing column), with the mask removed - is exactly the codeword bits, MSB first, followed by `remainderBits v` zero
    bits.  `S` is any Boolean view of the matrix. -/
theorem C05_data (v level mask : Nat) (test : Bool) (data : List Nat)
    (h1 : 1 ≤ v) (h40 : v ≤ 40) (hl : level < 4) (hk : mask < 8)
    (M : Model.Mat) (h : Model.makeImpl v level test mask data = .ok M)
    (hlen : data.length = Spec.totalCodewords v)
    (S : Spec.Sym) (hn : S.n = 4 * v + 17)
    (hS : ∀ r c, r < 4 * v + 17 → c < 4 * v + 17 → S.get r c = (M.get r c).getD false) :
    Spec.readRaw S v mask = Model.codewordBits data ++ List.replicate (Spec.remainderBits v) false := by
  obtain ⟨M', hM', _, _, _, _, hraw, _⟩ := Sym.makeImpl_spec v level mask test data h1 h40 hl hk
  rw [h] at hM'
  injection hM' with hM'
  subst hM'
  rw [hraw S ⟨hn, hS⟩, Sym.rawModules_eq, ← hlen, ← GeoC.codewordBits_length, GeoC.padTake_append]

/-- the same for a codeword list of any length: the stream is cut / zero-filled to the `rawModules v` data modules
    (`map_data` stops consuming when the bits run out and writes light (masked) modules) -/
theorem C05_data_any (v level mask : Nat) (test : Bool) (data : List Nat)
    (h1 : 1 ≤ v) (h40 : v ≤ 40) (hl : level < 4) (hk : mask < 8)
    (M : Model.Mat) (h : Model.makeImpl v level test mask data = .ok M)
    (S : Spec.Sym) (hn : S.n = 4 * v + 17)
    (hS : ∀ r c, r < 4 * v + 17 → c < 4 * v + 17 → S.get r c = (M.get r c).getD false) :
    Spec.readRaw S v mask = GeoC.padTake (Spec.rawModules v) (Model.codewordBits data) ∧
    (Spec.readRaw S v mask).length = Spec.rawModules v := by
  obtain ⟨M', hM', _, _, _, _, hraw, _⟩ := Sym.makeImpl_spec v level mask test data h1 h40 hl hk
  rw [h] at hM'
  injection hM' with hM'
  subst hM'
  rw [hraw S ⟨hn, hS⟩]
  exact ⟨rfl, GeoC.padTake_length _ _⟩

/-- cell form, not going through the reader: the `i`-th cell of the zig-zag order, if it is not a function module,
    holds bit number (non-function cells before it) of the codeword stream, xor the ISO mask condition -/
theorem C05_data_cell (v level mask : Nat) (test : Bool) (data : List Nat)
    (h1 : 1 ≤ v) (h40 : v ≤ 40) (hl : level < 4) (hk : mask < 8)
    (M : Model.Mat) (h : Model.makeImpl v level test mask data = .ok M)
    (i : Nat) (hi : i < (Spec.zigzag (4 * v + 17)).length)
    (hf : Spec.isFunction v (Spec.zigzag (4 * v + 17))[i].1 (Spec.zigzag (4 * v + 17))[i].2 = false) :
    M.get (Spec.zigzag (4 * v + 17))[i].1 (Spec.zigzag (4 * v + 17))[i].2 =
      some (xor ((Model.codewordBits data).getD
                  (((Spec.zigzag (4 * v + 17)).take i).countP fun p => !Spec.isFunction v p.1 p.2) false)
                (Spec.maskCond mask (Spec.zigzag (4 * v + 17))[i].1 (Spec.zigzag (4 * v + 17))[i].2)) :=
  Sym.makeImpl_cell v level mask test data M h1 h40 hl hk h i hi hf

/-- **C05 for `compile`**: every symbol `make` produces - any valid configuration, level, list of valid segments - is
    (4v+17) x (4v+17), every module definite, every fixed-colour function module at its ISO colour, and its data region
    (zig-zag order, unmasked with the mask `compile` reports) is exactly the bits of the `create_data` codewords followed
    by zero remainder bits -/
theorem C05_compile (cfg : Model.Cfg) (hcfg : cfg.Valid) (l : Spec.Level) (hl : cfg.level = l.indicator)
    (segs : List Model.Seg) (hv : ∀ s ∈ segs, s.Valid) (v m : Nat) (M : Model.Mat)
    (h : Model.compile cfg segs = .ok (v, m, M)) :
    M.size = 4 * v + 17 ∧ (∀ r, r < 4 * v + 17 → (M.getD r #[]).size = 4 * v + 17) ∧
    (∀ r c, r < 4 * v + 17 → c < 4 * v + 17 → (M.get r c).isSome = true) ∧
    (∀ r c b, r < 4 * v + 17 → c < 4 * v + 17 → Spec.fixedColour v r c = some b → M.get r c = some b) ∧
    ∃ data, Model.createData v cfg.level segs = .ok data ∧ data.length = Spec.totalCodewords v ∧
      Spec.readRaw { n := M.size, get := fun r c => (M.get r c).getD false } v m =
        Model.codewordBits data ++ List.replicate (Spec.remainderBits v) false := by
  obtain ⟨ps, hp⟩ := toPSegs_of_valid hv
  obtain ⟨h1, h40, hm7, _⟩ := C03_ok_range cfg hcfg l hl segs hv ps hp v m M h
  have hk : m < 8 := by omega
  have hdm : ∃ data, Model.createData v cfg.level segs = .ok data ∧
      Model.makeImpl v cfg.level false m data = .ok M := by
    cases hcm : cfg.mask with
    | some m' =>
      obtain ⟨rfl, data, hd, hM⟩ := C09_explicit cfg segs m' hcm v m M h
      exact ⟨data, hd, hM⟩
    | none =>
      obtain ⟨data, hd, _, hM⟩ := C09_auto_recorded cfg segs hcm v m M h
      exact ⟨data, hd, hM⟩
  obtain ⟨data, hd, hM⟩ := hdm
  have hli : cfg.level < 4 := hl ▸ Sym.indicator_lt l
  obtain ⟨a1, a2, a3⟩ := C05_size_definite v cfg.level m false data h1 h40 hli hk M hM
  have hlen : data.length = Spec.totalCodewords v :=
    (Sym.createData_spec v h1 h40 l segs hv ps hp data (hl ▸ hd)).1
  exact ⟨a1, a2, a3, C05_function v cfg.level m data h1 h40 hli hk M hM, data, hd, hlen,
    C05_data v cfg.level m false data h1 h40 hli hk M hM hlen _ a1 (fun _ _ _ _ => rfl)⟩

/-- non-vacuity: a version-1 symbol, all claims of `C05_compile` evaluated on it -/
example : (match Model.compile { version := 1, level := 1, mask := some 2, fit := false } [{ mode := 4, data := [104, 105] }] with
    | .ok (v, _, M) => M.size == 21 && v == 1 && M.get 13 8 == some true && M.get 6 8 == some true && M.get 7 7 == some false
    | .error _ => false) = true := by decide +kernel

/-! ### tie to the source: the model's expressions are the ones translated from the current Python AST (T2) -/

/-- the eight lambdas of `util.mask_func` as they stand in the source now are the ISO Table 10 conditions -/
theorem C05_source_masks (i j : Nat) :
    Gen.Code.mask_func_0 i j = Spec.maskCond 0 i j ∧ Gen.Code.mask_func_1 i j = Spec.maskCond 1 i j ∧
    Gen.Code.mask_func_2 i j = Spec.maskCond 2 i j ∧ Gen.Code.mask_func_3 i j = Spec.maskCond 3 i j ∧
    Gen.Code.mask_func_4 i j = Spec.maskCond 4 i j ∧ Gen.Code.mask_func_5 i j = Spec.maskCond 5 i j ∧
    Gen.Code.mask_func_6 i j = Spec.maskCond 6 i j ∧ Gen.Code.mask_func_7 i j = Spec.maskCond 7 i j := by
  obtain ⟨h0, h1, h2, h3, h4, h5, h6, h7⟩ := QR.SourceTie.masks i j
  exact ⟨h0.trans (C05_mask 0 i j (by omega)), h1.trans (C05_mask 1 i j (by omega)), h2.trans (C05_mask 2 i j (by omega)),
    h3.trans (C05_mask 3 i j (by omega)), h4.trans (C05_mask 4 i j (by omega)), h5.trans (C05_mask 5 i j (by omega)),
    h6.trans (C05_mask 6 i j (by omega)), h7.trans (C05_mask 7 i j (by omega))⟩

/-- `map_data`'s column loop (`range(n - 1, 0, -2)`, `if col <= 6: col -= 1`) is the model's `pairCol` -/
theorem C05_source_columns (n k : Nat) :
    Model.pairCol n k = Gen.Code.map_col_adjust (n - 1 - 2 * k) ∧ ∀ m : Int, Gen.Code.map_col_range m = (m - 1, 0, -2) :=
  ⟨QR.SourceTie.pairCol_eq n k, QR.SourceTie.colRange⟩

/-- `makeImpl` calls the pattern/placement helpers the model composes, in the model's order (finders, alignment, timing,
    format, version, create_data, map_data) -/
theorem C05_source_structure :
    Gen.Code.makeImpl_calls = ["self.setup_position_probe_pattern", "self.setup_position_probe_pattern",
      "self.setup_position_probe_pattern", "self.setup_position_adjust_pattern", "self.setup_timing_pattern",
      "self.setup_type_info", "self.setup_type_number", "util.create_data", "self.map_data"] :=
  QR.SourceTie.structure_makeImpl


/-! ### Source tie, part 2 (T2 plugins `tools/t2_fragments/`): the hand-written Model equals the definitions translated from
    /repo's current Python AST (`QR.Gen.Code`, regenerated on every run). Restated verbatim from `QR/Proofs/SourceTie*.lean`. -/
section SourceTieT2
open QR.Model QR.Gen.Code QR.SourceTieB

/-- a cache miss: `modules_count x modules_count` cells of `None`, the three finder patterns at the translated positions,
    then alignment and timing patterns -/
theorem C05_source_blank_src (version : Nat) :
    blank version = (do
      let n := makeImpl_modules_count version
      let m : Mat := Array.replicate (makeImpl_empty_dims n).1 (Array.replicate (makeImpl_empty_dims n).2 none)
      let m := (makeImpl_probe_args n).foldl (fun m p => setupProbe n m p.1.toNat p.2.toNat) m
      let pos ← patternPosition version
      pure (setupTiming n (setupAdjust m pos))) :=
  QR.SourceTieB.blank_src version

/-- the functional `makeImpl` (given the codewords) performs the same steps -/
theorem C05_source_makeImpl_src (version level : Nat) (test : Bool) (mask : Nat) (data : List Nat) :
    makeImpl version level test mask data = (do
      let n := makeImpl_modules_count version
      let m ← blank version
      let m := setupTypeInfo n level m (makeImpl_type_info_args test mask).1 (makeImpl_type_info_args test mask).2
      let m := if makeImpl_type_number_test version then setupTypeNumber n version m (makeImpl_type_number_arg test) else m
      if (makeImpl_map_args mask).2 > 7 then .error .typeError
      else pure (mapData n m data (makeImpl_map_args mask).2)) :=
  QR.SourceTieB.makeImpl_src version level test mask data

end SourceTieT2


/-! ### Source tie, part 2 (T2 plugins `tools/t2_fragments/`): (second plugin round, `frag_c.py`) the hand-written Model equals the definitions translated from
    /repo's current Python AST (`QR.Gen.Code`, regenerated on every run). Restated verbatim from `QR/Proofs/SourceTie*.lean`. -/
section SourceTieT2b
open QR.Model QR.Gen QR.Gen.Code QR.SourceTieT

/-- **map_data**: for every odd module count `n` (Python: `modules_count = 4 * version + 17`), every matrix, codeword list and
    mask pattern, and every fuel `≥ n` for the `while True` loops: the loop skeleton instantiated with the translated
    fragments terminates (every `while True` reaches its `break`) and leaves exactly the matrix `Model.mapData` computes. -/
theorem C05_source_mapData_src (n : Nat) (hodd : n % 2 = 1) (m : Mat) (data : List Nat) (mask fuel : Nat) (hf : n ≤ fuel) :
    srcMapData n (maskFunc mask) data fuel m = some (mapData n m data mask) :=
  QR.SourceTieT.mapData_src n hodd m data mask fuel hf

/-- the instance Python uses: `modules_count = version * 4 + 17` -/
theorem C05_source_mapData_src_version (version : Nat) (m : Mat) (data : List Nat) (mask : Nat) :
    srcMapData (version * 4 + 17) (maskFunc mask) data (version * 4 + 17) m = some (mapData (version * 4 + 17) m data mask) :=
  QR.SourceTieT.mapData_src_version version m data mask

/-- the coordinates the cell test / the write / the mask call use are the loop variables themselves (no offset) -/
theorem C05_source_map_cells_src (n dataLen col c inc row bi by_ : Int) :
    map_cell_test n dataLen col c inc row bi by_ = (row, c) ∧ map_cell_write n dataLen col c inc row bi by_ = (row, c) :=
  QR.SourceTieT.map_cells_src n dataLen col c inc row bi by_

end SourceTieT2b

/-! ### Source tie, part 4 (T2 plugin `tools/t2_fragments/frag_d6.py`): small leftovers, translated whole from /repo's current
    Python AST (`QR.Gen.Code.lo_*`, regenerated on every run). Restated verbatim from `QR/Proofs/SourceTieD6*.lean`. -/
section SourceTieD6
open QR.Model QR.Gen.Code QR.SourceTieD6

/-- `util.pattern_position(version)` (`return PATTERN_POSITION_TABLE[version - 1]`): `Model.patternPosition` is the translated
    lookup in the regenerated table, for every `1 ≤ version` -/
theorem C05_source_patternPosition_src (version : Nat) (hv : 1 ≤ version) :
    patternPosition version =
      (match lo_pattern_position Gen.PATTERN_POSITION_TABLE (version : Int) with
       | some a => .ok a | none => .error .indexError) :=
  QR.SourceTieD6.patternPosition_src version hv

/-- the point the hypothesis excludes: at version 0 Python's index -1 wraps to the last row, `Model.patternPosition` reads the
    first (unreachable through `QRCode`, whose version setter validates) -/
theorem C05_source_pattern_position_zero :
    patternPosition 0 = .ok [] ∧
    lo_pattern_position Gen.PATTERN_POSITION_TABLE 0 = some [6, 30, 58, 86, 114, 142, 170] :=
  QR.SourceTieD6.pattern_position_zero

/-- `QRCode.setup_position_probe_pattern(row, col)` translated whole (both loops over -1..7, both `continue` tests, the
    three-clause colour expression, both assignments) equals `Model.setupProbe`, for every size, matrix and corner -/
theorem C05_source_setupProbe_src (n : Nat) (m : Mat) (row col : Nat) :
    setupProbe n m row col = lo_setup_position_probe_pattern isSetM setM (n : Int) (row : Int) (col : Int) m :=
  QR.SourceTieD6.setupProbe_src n m row col

/-- `QRCode.setup_timing_pattern()` translated whole (column-6 loop first, then row 6; range 8 .. n-8; the `is not None`
    skips; `r % 2 == 0`) equals `Model.setupTiming`, for every size and matrix -/
theorem C05_source_setupTiming_src (n : Nat) (m : Mat) :
    setupTiming n m = lo_setup_timing_pattern isSetM setM (n : Int) m :=
  QR.SourceTieD6.setupTiming_src n m

/-- `QRCode.setup_position_adjust_pattern()` translated whole (index loops over `pos`, the `is not None` skip, the 5x5 loops
    over -2..2, the colour expression) equals `Model.setupAdjust`, for every matrix and position list -/
theorem C05_source_setupAdjust_src (m : Mat) (pos : List Nat) :
    setupAdjust m pos = lo_setup_position_adjust_pattern isSetM setM (pos.map Int.ofNat) m :=
  QR.SourceTieD6.setupAdjust_src m pos

/-- `setup_position_adjust_pattern` never writes at a negative index: every centre of `PATTERN_POSITION_TABLE` is ≥ 6 -/
theorem C05_source_adjust_positions_ge : ∀ row ∈ Gen.PATTERN_POSITION_TABLE, ∀ p ∈ row, 6 ≤ p :=
  QR.SourceTieD6.adjust_positions_ge

/-- `Model.blank version` (the function patterns `makeImpl` builds on a cache miss) is the composition of the three
    translated pattern writers of qrcode/main.py at the translated `pattern_position(version)`, for every version ≥ 1 -/
theorem C05_source_blank_patterns_src (version : Nat) (hv : 1 ≤ version) :
    blank version =
      (match lo_pattern_position Gen.PATTERN_POSITION_TABLE (version : Int) with
       | none => .error .indexError
       | some pos =>
         let n := version * 4 + 17
         let P := fun (m : Mat) (row col : Nat) =>
           lo_setup_position_probe_pattern isSetM setM (n : Int) (row : Int) (col : Int) m
         .ok (lo_setup_timing_pattern isSetM setM (n : Int)
               (lo_setup_position_adjust_pattern isSetM setM (pos.map Int.ofNat)
                 (P (P (P (Mat.empty n) 0 0) (n - 7) 0) 0 (n - 7))))) :=
  QR.SourceTieD6.blank_patterns_src version hv

end SourceTieD6

/-! ### Capstones: (ii) composed with (i) - the TRANSLATED SOURCE satisfies the Spec-level statements.
    The `…Src` functions (`QR/Proofs/CapstoneE2.lean`) are the right-hand sides of the bridge theorems above: the Python function
    assembled from the `QR.Gen.Code` fragments, with each callee that is not translated in place as an explicit parameter. -/
section Capstone
open QR.Model QR.Gen.Code QR.SourceTieA QR.SourceTieT QR.SourceTieD6 QR.CapstoneE2

theorem C05_source_blankSrc_eq (v : Nat) (hv : 1 ≤ v) : blankSrc v = blank v :=
  (C05_source_blank_patterns_src v hv).symm

/-- the source-assembled `makeImpl` (function patterns, format / version information with the source-assembled BCH functions,
    translated `map_data` skeleton with the translated mask lambdas) is `Model.makeImpl`, for every version ≥ 1; composition of
    `C05_source_makeImpl_src`, `C05_source_blank_patterns_src`, `C04_source_setupTypeInfo_src`, `C04_source_setupTypeNumber_src`,
    `C04_source_bchTypeInfo_src`, `C04_source_bchTypeNumber_src`, `C05_source_mapData_src_version` and `QR.SourceTie.masks` -/
theorem C05_source_makeImplSrc_eq (v level : Nat) (test : Bool) (mask : Nat) (data : List Nat) (hv : 1 ≤ v) :
    makeImplSrc bchDigit v level test mask data = makeImpl v level test mask data := by
  rw [C05_source_makeImpl_src]
  unfold makeImplSrc
  rw [C05_source_blankSrc_eq v hv]
  cases hB : blank v with
  | error e => rfl
  | ok B =>
    have hn : 15 ≤ makeImpl_modules_count v := by unfold makeImpl_modules_count; omega
    simp only [R.bind_ok, C04_source_setupTypeInfoSrc_eq _ _ hn,
      C04_source_setupTypeNumberSrc_eq _ _ (Nat.le_trans (by omega) hn)]
    by_cases hm : (makeImpl_map_args mask).2 > 7
    · simp only [if_pos hm]
    · simp only [if_neg hm]
      have hk : mask < 8 := by simp only [makeImpl_map_args] at hm; omega
      rw [show (makeImpl_map_args mask).2 = mask from rfl, maskFuncSrc_eq mask hk]
      rw [show makeImpl_modules_count v = v * 4 + 17 from rfl, C05_source_mapData_src_version]
      rfl

/-- **capstone, main.py:QRCode.makeImpl given the codewords** (covers main.py:setup_position_probe_pattern,
    setup_position_adjust_pattern, setup_timing_pattern - translated whole -, util.py:pattern_position, main.py:setup_type_info,
    setup_type_number, util.py:BCH_type_info, BCH_type_number, main.py:map_data, the eight lambdas of util.py:mask_func, and the
    call sequence / arguments / `version >= 7` test of makeImpl; NOT covered, i.e. hand-assembled or parameter: `BCH_digit`
    (= `Model.bchDigit`, tied by `C04_source_bchDigit_src_while`), the `if pattern == k` dispatch of `mask_func`, the
    `precomputed_qr_blanks` cache (a cache miss is modelled), the `for`/`while` skeletons of the hand-written assemblers):
    for every version 1..40, level, mask, test flag and EVERY codeword list the source-assembled `makeImpl` succeeds and
    returns a (4v+17) x (4v+17) matrix in which every module is definite; from `C05_source_makeImplSrc_eq`,
    `QR.Sym.makeImpl_spec` and `C05_size_definite`. -/
theorem C05_source_capstone_size_definite (v level mask : Nat) (test : Bool) (data : List Nat)
    (h1 : 1 ≤ v) (h40 : v ≤ 40) (hl : level < 4) (hk : mask < 8) :
    ∃ M, makeImplSrc bchDigit v level test mask data = .ok M ∧
      M.size = 4 * v + 17 ∧ (∀ r, r < 4 * v + 17 → (M.getD r #[]).size = 4 * v + 17) ∧
      ∀ r c, r < 4 * v + 17 → c < 4 * v + 17 → (M.get r c).isSome = true := by
  obtain ⟨M, hM, _⟩ := Sym.makeImpl_spec v level mask test data h1 h40 hl hk
  exact ⟨M, (C05_source_makeImplSrc_eq v level test mask data h1).trans hM,
    C05_size_definite v level mask test data h1 h40 hl hk M hM⟩

/-- **capstone, same chain: function patterns** - in the final symbol built by the source-assembled `makeImpl` every module to
    which the ISO layout assigns a fixed colour (`Spec.fixedColour`: finder patterns, separators, timing patterns, alignment
    patterns, dark module) holds that colour, for every data content, level and mask; from `C05_source_makeImplSrc_eq` and
    `C05_function`. -/
theorem C05_source_capstone_function (v level mask : Nat) (data : List Nat)
    (h1 : 1 ≤ v) (h40 : v ≤ 40) (hl : level < 4) (hk : mask < 8)
    (M : Mat) (h : makeImplSrc bchDigit v level false mask data = .ok M) :
    ∀ r c b, r < 4 * v + 17 → c < 4 * v + 17 → Spec.fixedColour v r c = some b → M.get r c = some b := by
  rw [C05_source_makeImplSrc_eq v level false mask data h1] at h
  exact C05_function v level mask data h1 h40 hl hk M h

/-- **capstone, same chain: data placement** - for a full codeword sequence the data region of the symbol built by the
    source-assembled `makeImpl` (non-function modules in ISO zig-zag order, mask removed: `Spec.readRaw`) is exactly the codeword
    bits, MSB first, followed by `remainderBits v` zero bits; from `C05_source_makeImplSrc_eq` and `C05_data`. -/
theorem C05_source_capstone_data (v level mask : Nat) (test : Bool) (data : List Nat)
    (h1 : 1 ≤ v) (h40 : v ≤ 40) (hl : level < 4) (hk : mask < 8)
    (M : Mat) (h : makeImplSrc bchDigit v level test mask data = .ok M)
    (hlen : data.length = Spec.totalCodewords v)
    (S : Spec.Sym) (hn : S.n = 4 * v + 17)
    (hS : ∀ r c, r < 4 * v + 17 → c < 4 * v + 17 → S.get r c = (M.get r c).getD false) :
    Spec.readRaw S v mask = codewordBits data ++ List.replicate (Spec.remainderBits v) false := by
  rw [C05_source_makeImplSrc_eq v level test mask data h1] at h
  exact C05_data v level mask test data h1 h40 hl hk M h hlen S hn hS

/-- **capstone, same chain: format / version information in the finished symbol** - every format, version and dark-module cell
    of the symbol built by the source-assembled `makeImpl` holds the bit of the ISO word (`Spec.infoCell`); from
    `C05_source_makeImplSrc_eq` and `C05_info`. -/
theorem C05_source_capstone_info (v level mask : Nat) (test : Bool) (data : List Nat)
    (h1 : 1 ≤ v) (h40 : v ≤ 40) (hl : level < 4) (hk : mask < 8)
    (M : Mat) (h : makeImplSrc bchDigit v level test mask data = .ok M) :
    ∀ r c b, Spec.infoCell v level mask test r c = some b → M.get r c = some b := by
  rw [C05_source_makeImplSrc_eq v level test mask data h1] at h
  exact C05_info v level mask test data h1 h40 hl hk M h

/-- **capstone, main.py:setup_position_probe_pattern / setup_position_adjust_pattern / setup_timing_pattern (translated whole)
    at util.py:pattern_position(version)**: for every version 1..40 the three translated pattern writers, applied to the empty
    matrix in the order of `makeImpl`, succeed and produce a (4v+17)-square matrix each of whose cells is exactly what the ISO
    geometry prescribes (`Spec.blankCell`: finder patterns + separators, alignment patterns at the Annex E centres, timing
    patterns, `None` everywhere else); from `C05_source_blank_patterns_src` and `QR.blank_spec`. -/
theorem C05_source_capstone_function_patterns (v : Nat) (h1 : 1 ≤ v) (h40 : v ≤ 40) :
    ∃ B, blankSrc v = .ok B ∧ MatShape B (Spec.size v) ∧
      ∀ r c, r < Spec.size v → c < Spec.size v → B.get r c = Spec.blankCell v r c := by
  rw [C05_source_blankSrc_eq v h1]
  exact blank_spec v h1 h40

/-- **capstone, main.py:QRCode.map_data with the lambdas of util.py:mask_func** (the translated fragments of `map_data` run by the
    hand-written loop skeleton `srcMapData`, every `while True` with fuel ≥ modules_count; mask = the translated lambda; the
    `if pattern == k` dispatch is not translated): on ANY matrix of the right shape whose `None` cells are exactly the
    non-function modules, for every mask 0..7 and codeword list, the loops terminate and the result keeps the shape, leaves every
    function module unchanged, holds in the `i`-th cell of the ISO zig-zag order (when not a function module) bit number
    (non-function cells before it) of the codeword stream xor the ISO mask condition, and is read by the Spec reader
    (`Spec.readRaw`, any symbol showing it) as the codeword bits cut / zero-filled to `rawModules v`; from
    `C05_source_mapData_src`, `QR.SourceTie.masks` and `QR.GeoC.mapData_shape / mapData_function_unchanged / mapData_nth /
    readRaw_mapData`. -/
theorem C05_source_capstone_map_data (v mask : Nat) (h1 : 1 ≤ v) (h40 : v ≤ 40) (hk : mask < 8) (m : Mat)
    (hs : MatShape m (Spec.size v)) (hm : GeoC.NoneIffData v m) (data : List Nat) (fuel : Nat) (hf : Spec.size v ≤ fuel) :
    ∃ M, srcMapData (Spec.size v) (maskFuncSrc mask) data fuel m = some M ∧ MatShape M (Spec.size v) ∧
      (∀ r c, r < Spec.size v → c < Spec.size v → Spec.isFunction v r c = true → M.get r c = m.get r c) ∧
      (∀ i (hi : i < (Spec.zigzag (Spec.size v)).length),
        Spec.isFunction v (Spec.zigzag (Spec.size v))[i].1 (Spec.zigzag (Spec.size v))[i].2 = false →
        M.get (Spec.zigzag (Spec.size v))[i].1 (Spec.zigzag (Spec.size v))[i].2 =
          some (xor ((codewordBits data).getD
                      (((Spec.zigzag (Spec.size v)).take i).countP fun p => !Spec.isFunction v p.1 p.2) false)
                    (Spec.maskCond mask (Spec.zigzag (Spec.size v))[i].1 (Spec.zigzag (Spec.size v))[i].2))) ∧
      ∀ S : Spec.Sym, GeoC.Shows S (Spec.size v) M →
        Spec.readRaw S v mask = GeoC.padTake (Spec.rawModules v) (codewordBits data) := by
  have hodd : Spec.size v % 2 = 1 := by unfold Spec.size; omega
  refine ⟨mapData (Spec.size v) m data mask, ?_, GeoC.mapData_shape _ _ _ hs _, ?_, ?_, ?_⟩
  · rw [maskFuncSrc_eq mask hk]
    exact C05_source_mapData_src (Spec.size v) hodd m data mask fuel hf
  · exact fun r c hr hc hfn => GeoC.mapData_function_unchanged v mask m hs hm data r c hr hc hfn
  · exact fun i hi hfn => GeoC.mapData_nth v mask hk m hs hm data i hi hfn
  · exact fun S hS => GeoC.readRaw_mapData v mask h1 h40 hk m hs hm data S hS

/-- **capstone, util.py:mask_func**: the `p`-th translated lambda is the `p`-th condition of ISO Table 10, for all coordinates;
    from `C05_source_masks` (= `QR.SourceTie.masks` with `C05_mask`). -/
theorem C05_source_capstone_mask_func (p i j : Nat) (hp : p < 8) : maskFuncSrc p i j = Spec.maskCond p i j := by
  obtain ⟨h0, h1, h2, h3, h4, h5, h6, h7⟩ := C05_source_masks i j
  match p, hp with
  | 0, _ => exact h0
  | 1, _ => exact h1
  | 2, _ => exact h2
  | 3, _ => exact h3
  | 4, _ => exact h4
  | 5, _ => exact h5
  | 6, _ => exact h6
  | 7, _ => exact h7

set_option maxRecDepth 100000 in
/-- the capstones at a concrete input: version 1-M, mask 2, the 26 final codewords of the ISO Annex I example "01234567": the
    source-assembled `makeImpl` is evaluated; size, dark module, a timing module, a separator module, and the Spec reader's raw
    sequence = the codeword bits (version 1 has no remainder bits) -/
example : (match makeImplSrc bchDigit 1 Spec.Level.M.indicator false 2
      [0x10, 0x20, 0x0C, 0x56, 0x61, 0x80, 0xEC, 0x11, 0xEC, 0x11, 0xEC, 0x11, 0xEC, 0x11, 0xEC, 0x11,
       0xA5, 0x24, 0xD4, 0xC1, 0xED, 0x36, 0xC7, 0x87, 0x2C, 0x55] with
    | .ok M => M.size == 21 && M.get 13 8 == some true && M.get 6 8 == some true && M.get 7 7 == some false &&
        Spec.readRaw { n := M.size, get := fun r c => (M.get r c).getD false } 1 2 ==
          codewordBits [0x10, 0x20, 0x0C, 0x56, 0x61, 0x80, 0xEC, 0x11, 0xEC, 0x11, 0xEC, 0x11, 0xEC, 0x11, 0xEC, 0x11,
            0xA5, 0x24, 0xD4, 0xC1, 0xED, 0x36, 0xC7, 0x87, 0x2C, 0x55]
    | .error _ => false) = true := by decide +kernel

end Capstone

/-- the Python functions this property's model mirrors have, in /repo's current working tree, exactly the normalised
    ASTs the model was written and validated against (fingerprints regenerated by T1 on every run) -/
theorem C05_source_fingerprints : QR.Gen.fp_C05 = QR.Pinned.fp_C05 := by decide

/-- the colour tests, skip tests and loop ranges of the finder, alignment and timing patterns as they stand in the source
    are the ones whose painting `blank_spec` is proved for -/
theorem C05_source_patterns :
    (∀ r c : Int, Gen.Code.probe_dark r c = QR.probeDark r c) ∧ Gen.Code.probe_range = ((-1, 8), (-1, 8)) ∧
    (∀ r' c' : Nat, r' < 5 → c' < 5 →
      Gen.Code.align_dark ((r' : Int) - 2) ((c' : Int) - 2) = decide (r' = 0 ∨ r' = 4 ∨ c' = 0 ∨ c' = 4 ∨ (r' = 2 ∧ c' = 2))) ∧
    Gen.Code.align_range = ((-2, 3), (-2, 3)) ∧ Gen.Code.align_skip_test = "self.modules[row][col] is not None" ∧
    (∀ i, Gen.Code.timing_dark_0 i = decide (i % 2 = 0)) ∧ (∀ i, Gen.Code.timing_dark_1 i = decide (i % 2 = 0)) ∧
    (∀ n, Gen.Code.timing_range_0 n = (8, n - 8)) ∧ (∀ n, Gen.Code.timing_range_1 n = (8, n - 8)) :=
  ⟨QR.SourceTie.probe_dark_eq, QR.SourceTie.probe_range_eq, QR.SourceTie.align_dark_eq, QR.SourceTie.align_range_eq.1,
   QR.SourceTie.align_range_eq.2, QR.SourceTie.timing_eq.1, QR.SourceTie.timing_eq.2.1, QR.SourceTie.timing_eq.2.2.1,
   QR.SourceTie.timing_eq.2.2.2.1⟩

end QR.Props
