import QR.Model.Matrix
import QR.Spec.Geometry
import QR.Proofs.Finite
/-
C05 - function patterns and geometry (finite part so far: alignment table = Annex E closed form, mask functions).
-/
namespace QR.Props
open QR

set_option maxRecDepth 100000 in
/-- `PATTERN_POSITION_TABLE` is the Annex E closed form for all 40 versions -/
theorem C05_alignment : ∀ v, v < 40 → Model.patternPosition (v + 1) = .ok (Spec.alignmentCentres (v + 1)) := by
  have h : (List.range 40).all (fun v =>
      match Model.patternPosition (v + 1) with
      | .ok p => p == Spec.alignmentCentres (v + 1)
      | .error _ => false) = true := by decide +kernel
  intro v hv
  have := forall_lt_of_all h v hv
  revert this
  cases Model.patternPosition (v + 1) with
  | ok b => intro h; simp at h; rw [h]
  | error e => intro h; simp at h

/-- the eight mask functions of the code are the eight conditions of ISO Table 10, for all coordinates -/
theorem C05_mask : ∀ p i j, p < 8 → Model.maskFunc p i j = Spec.maskCond p i j := by
  intro p i j hp
  match p, hp with
  | 0, _ | 1, _ | 2, _ | 3, _ | 4, _ | 5, _ | 6, _ => rfl
  | 7, _ => show decide (_ = 0) = (_ == 0); rw [Nat.add_comm]; rfl

set_option maxRecDepth 100000 in
/-- sanity of the Spec's Annex E formula: first coordinate 6, last 4v+10, count ⌊v/7⌋+2, strictly increasing -/
theorem C05_spec_alignment_sane : ∀ v, v < 39 →
    let cs := Spec.alignmentCentres (v + 2)
    cs.head? = some 6 ∧ cs.getLast? = some (4 * (v + 2) + 10) ∧ cs.length = (v + 2) / 7 + 2 ∧ cs.Pairwise (· < ·) := by
  have h : (List.range 39).all (fun v =>
      let cs := Spec.alignmentCentres (v + 2)
      cs.head? == some 6 && cs.getLast? == some (4 * (v + 2) + 10) && cs.length == (v + 2) / 7 + 2
        && decide (cs.Pairwise (· < ·))) = true := by decide +kernel
  intro v hv
  have := forall_lt_of_all h v hv
  simpa [Bool.and_eq_true, and_assoc] using this

end QR.Props
