import QR.Model.Segment
import QR.Spec.Segmentation
/-
C10 - segmentation.  (Theorems under construction: lossless / valid / zero-threshold first.)
-/
namespace QR.Props
open QR QR.Model

/-- threshold 0: exactly one segment holding the whole data -/
theorem C10_zero_single (d : Bytes) : addData d 0 = [{ mode := optimalMode d, data := d }] := by
  simp [addData]

end QR.Props
