import QR.Proofs.Segmentation
/-
C10 - segmentation is lossless, uses valid and most-compact modes, honours the optimize threshold.
`Model.addData` mirrors QRCode.add_data / util.optimal_data_chunks / _optimal_split with the four regular expressions as
run scanners; `Spec.segmentation n d segs` states the five clauses of the property as predicates on the outcome (it does not
prescribe an algorithm).  Every statement is for ALL byte strings d and ALL thresholds n.
-/
namespace QR.Props
open QR QR.Model

/-- **C10 (main)**: all five clauses hold for the segments of every `add_data(d, optimize=n)` -/
theorem C10_segmentation (d : List Nat) (n : Nat) :
    ∀ ps, toPSegs (addData d n) = some ps → (Spec.segmentation n d ps).ok = true :=
  _root_.QR.C10_segmentation d n

/-- the segments always have one of the three supported modes (the hypothesis above is never vacuous) -/
theorem C10_modes (d : List Nat) (n : Nat) : ∃ ps, toPSegs (addData d n) = some ps :=
  _root_.QR.addData_toPSegs d n

/-- lossless: the segments concatenate to exactly the supplied bytes -/
theorem C10_lossless (d : List Nat) (n : Nat) : (addData d n).flatMap (·.data) = d :=
  _root_.QR.addData_flatMap_data d n

/-- valid: numeric segments hold ASCII digits only, alphanumeric ones the 45-character set only -/
theorem C10_valid (d : List Nat) (n : Nat) :
    ∀ ps, toPSegs (addData d n) = some ps → (Spec.segmentation n d ps).valid = true :=
  _root_.QR.segmentation_valid d n

/-- threshold 0: exactly one segment, in the most compact mode able to represent the data -/
theorem C10_zero (d : List Nat) (n : Nat) :
    ∀ ps, toPSegs (addData d n) = some ps → (Spec.segmentation n d ps).thresholdZero = true :=
  _root_.QR.segmentation_thresholdZero d n

/-- threshold n > 0: every run of ≥ n digits is carried in numeric mode, every run of ≥ n alphanumeric characters outside
    those digit runs in alphanumeric mode -/
theorem C10_runs (d : List Nat) (n : Nat) :
    ∀ ps, toPSegs (addData d n) = some ps → (Spec.segmentation n d ps).runsCarried = true :=
  _root_.QR.segmentation_runsCarried d n

/-- and when the data is longer than n no numeric or alphanumeric segment is shorter than n -/
theorem C10_min_len (d : List Nat) (n : Nat) :
    ∀ ps, toPSegs (addData d n) = some ps → (Spec.segmentation n d ps).minLength = true :=
  _root_.QR.segmentation_minLength d n

/-- a requested mode that cannot represent the data is rejected (ValueError) instead of being mis-encoded -/
theorem C10_explicit_rejected (d : List Nat) (m : Nat) (hm : m = 1 ∨ m = 2 ∨ m = 4) :
    (∃ md, Spec.Mode.ofIndicator m = some md ∧ Spec.canRepresent md d = false) →
    mkQRData d (some m) true = .error .valueError :=
  _root_.QR.mkQRData_rejects d m hm

/-- threshold 0 shape -/
theorem C10_zero_single (d : Bytes) : addData d 0 = [{ mode := optimalMode d, data := d }] := by
  simp [addData]

/-- non-vacuity (tests of the statement on concrete data): "AB1234567cd" with threshold 4 -/
example : addData [65, 66, 49, 50, 51, 52, 53, 54, 55, 99, 100] 4 =
    [⟨4, [65, 66]⟩, ⟨1, [49, 50, 51, 52, 53, 54, 55]⟩, ⟨4, [99, 100]⟩] := by decide

end QR.Props
