import QR.Proofs.Segmentation
import QR.Proofs.Pinned
import QR.Proofs.SourceTieD1b
import QR.Proofs.CapstoneE3
/-
C10 - segmentation is lossless, uses valid and most-compact modes, honours the optimize threshold.
`Model.addData` mirrors QRCode.add_data / util.optimal_data_chunks / _optimal_split with the four regular expressions as
run scanners; `Spec.segmentation n d segs` states the five clauses of the property as predicates on the outcome (it does not
prescribe an algorithm).  Every statement is for ALL byte strings d and ALL thresholds n.
-/
namespace QR.Props
open QR QR.Model

/-- **C10 (main)**: all five clauses hold for the segments of every `add_data(d, optimize=n)` -/
theorem C10_segmentation (d : List Nat) (n : Nat) :
    ∀ ps, toPSegs (addData d n) = some ps → (Spec.segmentation n d ps).ok = true :=
  _root_.QR.C10_segmentation d n

/-- the segments always have one of the three supported modes (the hypothesis above is never vacuous) -/
theorem C10_modes (d : List Nat) (n : Nat) : ∃ ps, toPSegs (addData d n) = some ps :=
  _root_.QR.addData_toPSegs d n

/-- lossless: the segments concatenate to exactly the supplied bytes -/
theorem C10_lossless (d : List Nat) (n : Nat) : (addData d n).flatMap (·.data) = d :=
  _root_.QR.addData_flatMap_data d n

/-- valid: numeric segments hold ASCII digits only, alphanumeric ones the 45-character set only -/
theorem C10_valid (d : List Nat) (n : Nat) :
    ∀ ps, toPSegs (addData d n) = some ps → (Spec.segmentation n d ps).valid = true :=
  _root_.QR.segmentation_valid d n

/-- threshold 0: exactly one segment, in the most compact mode able to represent the data -/
theorem C10_zero (d : List Nat) (n : Nat) :
    ∀ ps, toPSegs (addData d n) = some ps → (Spec.segmentation n d ps).thresholdZero = true :=
  _root_.QR.segmentation_thresholdZero d n

/-- threshold n > 0: every run of ≥ n digits is carried in numeric mode, every run of ≥ n alphanumeric characters outside
    those digit runs in alphanumeric mode -/
theorem C10_runs (d : List Nat) (n : Nat) :
    ∀ ps, toPSegs (addData d n) = some ps → (Spec.segmentation n d ps).runsCarried = true :=
  _root_.QR.segmentation_runsCarried d n

/-- and when the data is longer than n no numeric or alphanumeric segment is shorter than n -/
theorem C10_min_len (d : List Nat) (n : Nat) :
    ∀ ps, toPSegs (addData d n) = some ps → (Spec.segmentation n d ps).minLength = true :=
  _root_.QR.segmentation_minLength d n

/-- a requested mode that cannot represent the data is rejected (ValueError) instead of being mis-encoded -/
theorem C10_explicit_rejected (d : List Nat) (m : Nat) (hm : m = 1 ∨ m = 2 ∨ m = 4) :
    (∃ md, Spec.Mode.ofIndicator m = some md ∧ Spec.canRepresent md d = false) →
    mkQRData d (some m) true = .error .valueError :=
  _root_.QR.mkQRData_rejects d m hm

/-- threshold 0 shape -/
theorem C10_zero_single (d : Bytes) : addData d 0 = [{ mode := optimalMode d, data := d }] := by
  simp [addData]

/-- non-vacuity (tests of the statement on concrete data): "AB1234567cd" with threshold 4 -/
example : addData [65, 66, 49, 50, 51, 52, 53, 54, 55, 99, 100] 4 =
    [⟨4, [65, 66]⟩, ⟨1, [49, 50, 51, 52, 53, 54, 55]⟩, ⟨4, [99, 100]⟩] := by decide

/-! ### tie to the source (translator T2, plugin `frag_d1.py`): the segmentation code as it stands in /repo, translated
statement by statement into `QR.Gen.Code.sg_*`, equals the Model.  `pyModel F enc` is the interpreter record of the Model:
its regex engine `searchModel` / `matchModel` (the ASSUMPTION on `re` stated in Model/Segment.lean, now a value), its two
exceptions, arguments that are `bytes`, `F d` iterations granted to `while data:` started on `d`. -/
section SourceTieD1
open QR.Gen.Code QR.SourceTieD1

/-- `util.MODE_NUMBER / MODE_ALPHA_NUM / MODE_8BIT_BYTE`, `ALPHA_NUM`, `RE_ALPHA_NUM = compile(b"^[" + re.escape(ALPHA_NUM) + rb"]*\Z")`
    and the defaults `minimum=4`, `optimize=20`, as read from the AST, are the Model's tables -/
theorem C10_source_consts : sg_MODE_NUMBER = Gen.MODE_NUMBER ∧ sg_MODE_ALPHA_NUM = Gen.MODE_ALPHA_NUM ∧
    sg_MODE_8BIT_BYTE = Gen.MODE_8BIT_BYTE ∧ sg_ALPHA_NUM = Gen.ALPHA_NUM ∧
    sg_RE_ALPHA_NUM = .anchoredStarZ (.set Gen.ALPHA_NUM) ∧
    sg_optimal_data_chunks_default_minimum = 4 ∧ sg_add_data_default_optimize = 20 :=
  QR.SourceTieD1.consts_src

/-- `util.to_bytestring(data)` returns a `bytes` argument unchanged (the Model's functions take the bytes themselves) -/
theorem C10_source_toBytestring {ε : Type} (py : sg_Py ε) (data : List Nat) (hb : py.isinstance_bytes data = true) :
    sg_to_bytestring py data = data :=
  QR.SourceTieD1.toBytestring_src py data hb

/-- **`util.optimal_mode`** (`data.isdigit()`, `RE_ALPHA_NUM.match(data)`, the three returns) = `Model.optimalMode`,
    for every byte string -/
theorem C10_source_optimalMode (fuel enc) (data : Bytes) :
    optimalMode data = sg_optimal_mode (pyModel fuel enc) data :=
  QR.SourceTieD1.optimalMode_src fuel enc data

/-- **`QRData.__init__(data, mode, check_data)`** on a byte string (the `to_bytestring` call, `mode is None`, the `not in`
    TypeError, the `check_data and mode < optimal_mode(data)` ValueError, the two attributes) = `Model.mkQRData`:
    same object, same exception, for all arguments -/
theorem C10_source_mkQRData (fuel enc) (data : Bytes) (mode : Option Nat) (checkData : Bool) :
    sg_qrdata_init (pyModel fuel enc) data mode checkData = (mkQRData data mode checkData).map segQ :=
  QR.SourceTieD1.mkQRData_src fuel enc data mode checkData

/-- **`util._optimal_split(data, compile(C{n,}))`** (the `while data:` loop, `re.search`, `break`, the three yields, the slices)
    = `Model.splitRuns`, for every class, threshold, fuel and byte string -/
theorem C10_source_splitRuns (enc) (c : sg_Cls) (n : Nat) (fuel : Nat) (data : List Nat) :
    splitRuns (clsPred c) n fuel data = sg_optimal_split (pyModel (fun _ => fuel) enc) data (.atLeast c n) :=
  QR.SourceTieD1.splitRuns_src enc c n fuel data

/-- **`util._optimal_split(data, compile(^C+$))`** = `Model.splitAnchored`, as soon as one iteration is granted -/
theorem C10_source_splitAnchored (enc) (c : sg_Cls) (fuel : Nat) (hfuel : 1 ≤ fuel) (data : List Nat) :
    splitAnchored (clsPred c) data = sg_optimal_split (pyModel (fun _ => fuel) enc) data (.anchoredPlus c) :=
  QR.SourceTieD1.splitAnchored_src enc c fuel hfuel data

/-- `_optimal_split`'s loop ends by itself with the Model's engine: every fuel ≥ `len(data)` gives the result of fuel
    `len(data)` (what `Model.optimalDataChunks` passes to `splitRuns`), so no yielded value is an artefact of the fuel -/
theorem C10_source_optimalSplit_fuel (F enc) (p : sg_Pat) (fuel : Nat) (data : List Nat) (h : data.length ≤ fuel) :
    splitOut (pyModel F enc) p fuel data = splitOut (pyModel F enc) p data.length data :=
  QR.SourceTieD1.optimalSplit_fuel F enc p fuel data h

/-- **`util.optimal_data_chunks(data, minimum)`** (the `len(data) <= minimum` test, which pattern is built in which branch -
    `b"^" + C + b"+$"` vs `C + b"{" + str(minimum).encode("ascii") + b",}"` with `C = rb"\d"` / `b"[" + re.escape(ALPHA_NUM) + b"]"` -,
    the nested generator loops, the three `QRData(..., mode=..., check_data=False)` calls) raises nothing and yields exactly
    `Model.optimalDataChunks data minimum`, whatever number `F d ≥ len(d)` of iterations each `while` loop is granted -/
theorem C10_source_optimalDataChunks (F enc) (hF : ∀ d : List Nat, d.length ≤ F d) (data : Bytes) (minimum : Nat) :
    sg_optimal_data_chunks (pyModel F enc) data minimum = .ok ((optimalDataChunks data minimum).map segQ) :=
  QR.SourceTieD1.optimalDataChunks_src F enc hF data minimum

/-- **`QRCode.add_data(data, optimize)`** for a byte string (`isinstance(data, util.QRData)` false, `elif optimize:` by
    truthiness, `extend(optimal_data_chunks(data, minimum=optimize))` / `append(QRData(data))`, `self.data_cache = None`):
    `data_list` grows by exactly `Model.addData data optimize`, the cache is reset -/
theorem C10_source_addData (F enc) (hF : ∀ d : List Nat, d.length ≤ F d) {κ : Type} (dl : List sg_QRData) (cache : Option κ)
    (data : Bytes) (optimize : Nat) :
    sg_add_data (pyModel F enc) dl cache (.inr data) optimize =
      .ok (dl ++ (addData data optimize).map segQ, none) :=
  QR.SourceTieD1.addData_src F enc hF dl cache data optimize

/-- **`QRCode.add_data(qrdata_object)`**: the `isinstance` branch appends the object itself and resets the cache -/
theorem C10_source_addData_object (F enc) {κ : Type} (dl : List sg_QRData) (cache : Option κ) (q : sg_QRData) (optimize : Nat) :
    sg_add_data (pyModel F enc) dl cache (.inl q) optimize = .ok (dl ++ [q], none) :=
  QR.SourceTieD1.addData_object_src F enc dl cache q optimize

end SourceTieD1

/-! ### Capstones: (bridge) + (property) composed - the TRANSLATED segmentation code itself satisfies the Spec clauses.
The only not-translated callee is the `re` engine: the interpreter record is `pyModel F enc`, i.e. `re.search` / `re.match`
are instantiated by `SourceTieD1.searchModel` / `matchModel` (the stated assumption on `re`), arguments are `bytes`, and each
`while data:` loop started on `d` is granted `F d ≥ len(d)` iterations.  `CapstoneE3.qToPSegs` reads the translated `QRData`
objects as Spec segments (same reading as `toPSegs`). -/
section Capstone
open QR.Gen.Code QR.SourceTieD1 QR.CapstoneE3

/-- **capstone, `main.py:QRCode.add_data` -> `util.py:optimal_data_chunks` -> `util.py:_optimal_split`, `util.py:QRData.__init__`,
    `util.py:optimal_mode`, `util.py:to_bytestring`** (all translated, `sg_*`; `re` = `searchModel`): for every byte string, every
    threshold and every previous `data_list`, the translated `add_data` raises nothing, resets the cache, and appends objects
    `qs` that have supported modes and satisfy ALL FIVE clauses of `Spec.segmentation optimize data` (lossless, valid,
    threshold 0, runs carried, minimum length). From `C10_source_addData`, `C10_modes`, `C10_segmentation`. -/
theorem C10_source_capstone_add_data (F enc) (hF : ∀ d : List Nat, d.length ≤ F d) {κ : Type} (dl : List sg_QRData)
    (cache : Option κ) (data : Bytes) (optimize : Nat) :
    ∃ qs ps, sg_add_data (pyModel F enc) dl cache (.inr data) optimize = .ok (dl ++ qs, none) ∧
      qToPSegs qs = some ps ∧ (Spec.segmentation optimize data ps).ok = true := by
  obtain ⟨ps, hps⟩ := C10_modes data optimize
  exact ⟨(addData data optimize).map segQ, ps, C10_source_addData F enc hF dl cache data optimize,
    by rw [qToPSegs_map_segQ, hps], C10_segmentation data optimize ps hps⟩

/-- **capstone, `util.py:optimal_data_chunks`** (with `_optimal_split`, `QRData.__init__`; `re` = `searchModel`) called directly
    with `minimum ≥ 1`: it raises nothing and yields objects with supported modes satisfying the five clauses of
    `Spec.segmentation minimum data`. From `C10_source_optimalDataChunks`, `C10_modes`, `C10_segmentation`. -/
theorem C10_source_capstone_optimal_data_chunks (F enc) (hF : ∀ d : List Nat, d.length ≤ F d) (data : Bytes) (minimum : Nat)
    (hmin : 1 ≤ minimum) :
    ∃ qs ps, sg_optimal_data_chunks (pyModel F enc) data minimum = .ok qs ∧
      qToPSegs qs = some ps ∧ (Spec.segmentation minimum data ps).ok = true := by
  obtain ⟨ps, hps⟩ := C10_modes data minimum
  have hadd : addData data minimum = optimalDataChunks data minimum := by
    have : minimum ≠ 0 := by omega
    simp [addData, this]
  refine ⟨(optimalDataChunks data minimum).map segQ, ps, C10_source_optimalDataChunks F enc hF data minimum, ?_,
    C10_segmentation data minimum ps hps⟩
  rw [qToPSegs_map_segQ, ← hadd, hps]

/-- **capstone (lossless, read directly on the translated objects), `main.py:QRCode.add_data`**: the `data` attributes of the
    appended objects concatenate to exactly the supplied bytes. From `C10_source_addData`, `C10_lossless`. -/
theorem C10_source_capstone_add_data_lossless (F enc) (hF : ∀ d : List Nat, d.length ≤ F d) {κ : Type} (dl : List sg_QRData)
    (cache : Option κ) (data : Bytes) (optimize : Nat) :
    ∃ qs, sg_add_data (pyModel F enc) dl cache (.inr data) optimize = .ok (dl ++ qs, none) ∧
      qs.flatMap (·.data) = data :=
  ⟨(addData data optimize).map segQ, C10_source_addData F enc hF dl cache data optimize,
    by rw [flatMap_data_map_segQ, C10_lossless]⟩

/-- **capstone, `util.py:QRData.__init__(data, mode=m, check_data=True)`** (translated, with `optimal_mode`, `to_bytestring`):
    a requested mode that, by the Spec (`Spec.canRepresent`), cannot represent the data raises the interpreter's `ValueError`.
    From `C10_source_mkQRData`, `C10_explicit_rejected`. -/
theorem C10_source_capstone_qrdata_rejected (fuel enc) (d : List Nat) (m : Nat) (hm : m = 1 ∨ m = 2 ∨ m = 4)
    (h : ∃ md, Spec.Mode.ofIndicator m = some md ∧ Spec.canRepresent md d = false) :
    sg_qrdata_init (pyModel fuel enc) d (some m) true = .error (pyModel fuel enc).ValueError := by
  rw [C10_source_mkQRData, C10_explicit_rejected d m hm h]; rfl

/-- the capstone's conclusion evaluated on "AB1234567cd", threshold 4, through the TRANSLATED code: three objects
    (byte, numeric, byte), and the Spec verdict on them is `true` -/
example : sg_add_data (pyModel (fun d => d.length) id) [] (none : Option Unit)
      (.inr [65, 66, 49, 50, 51, 52, 53, 54, 55, 99, 100]) 4 =
      .ok ([⟨4, [65, 66]⟩, ⟨1, [49, 50, 51, 52, 53, 54, 55]⟩, ⟨4, [99, 100]⟩], none) ∧
    (Spec.segmentation 4 [65, 66, 49, 50, 51, 52, 53, 54, 55, 99, 100]
      [⟨.byte, [65, 66]⟩, ⟨.numeric, [49, 50, 51, 52, 53, 54, 55]⟩, ⟨.byte, [99, 100]⟩]).ok = true :=
  ⟨by rfl, by decide⟩

end Capstone

/-- the Python functions this property's model mirrors have, in /repo's current working tree, exactly the normalised
    ASTs the model was written and validated against (fingerprints regenerated by T1 on every run) -/
theorem C10_source_fingerprints : QR.Gen.fp_C10 = QR.Pinned.fp_C10 := by decide

end QR.Props
