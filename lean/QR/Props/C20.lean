import QR.Model.Release
import QR.Spec.Release
/-
C20 - the manual-page release hook.  (General theorems under construction.)
-/
namespace QR.Props
open QR QR.Model

/-- nothing is written for another package name -/
theorem C20_other_package (name ver date page : List Char) (h : name ≠ "qrcode".toList) :
    updateManpage name ver date page = none := by
  unfold updateManpage
  have : (name != "qrcode".toList) = true := by simpa using h
  rw [if_pos this]

end QR.Props
