import QR.Model.Release
import QR.Spec.Release
import QR.Proofs.Release
import QR.Proofs.Pinned
import QR.Proofs.SourceTieC20
import QR.Proofs.SourceTieT7
/-
C20 - the manual-page release hook (qrcode/release.py `update_manpage`).

The hook rewrites only the version and date fields of the first well-formed `.TH` header line of doc/qr.1;
applying it twice is the same as applying it once; it writes nothing for another package name, for an unchanged
version, or for a page without a well-formed header line.

`Model.updateManpage name ver date page : Option (List Char)` is the model of the code (`none` = nothing written,
`some text` = the text written); `Spec.expectedManpage` is the property's definition via quote positions.
All proofs are in QR/Proofs/Release.lean.
-/
namespace QR.Props
open QR QR.Model QR.Spec

/-- `'"'.join(re.split('"([^"]*)"', line)) == line`: splitting a line at its quoted fields and joining the parts
with `'"'` again is the identity (so a rewritten line differs from the old one only in the parts assigned to). -/
theorem C20_split_join (line : List Char) (fuel : Nat) (hf : line.length < fuel) :
    joinQuote (reSplit fuel line) = line :=
  Proofs.Release.joinQuote_reSplit line fuel hf

/-- `readlines()` loses nothing: concatenating the lines gives the page back. -/
theorem C20_readlines_flatten (fuel : Nat) (page : List Char) (hf : page.length < fuel) :
    (readLines fuel page).flatten = page :=
  Proofs.Release.readLines_flatten fuel page hf

/-- every line returned by `readlines()` except possibly the last one ends with `'\n'` and contains no other
`'\n'`. -/
theorem C20_readlines_nonlast (fuel : Nat) (page : List Char) (i : Nat)
    (hi : i + 1 < (readLines fuel page).length) :
    ∃ b, (readLines fuel page)[i] = b ++ ['\n'] ∧ ∀ c ∈ b, c ≠ '\n' :=
  Proofs.Release.readLines_nonlast fuel page i hi

/-- every line (in particular the last) is non-empty and has no `'\n'` except possibly as its last character. -/
theorem C20_readlines_any (fuel : Nat) (page : List Char) (i : Nat) (hi : i < (readLines fuel page).length) :
    (∃ b, (readLines fuel page)[i] = b ++ ['\n'] ∧ ∀ c ∈ b, c ≠ '\n') ∨
    ((readLines fuel page)[i] ≠ [] ∧ ∀ c ∈ (readLines fuel page)[i], c ≠ '\n') :=
  Proofs.Release.readLines_last fuel page i hi

/-- Main theorem: the model of the code equals the property's definition.  Only quoted fields 0 (date) and
1 (version) of the first well-formed header line change, every other line and the rest of that line are kept,
in order; nothing is written (`none`) exactly when the package name differs, no well-formed header line exists,
or the version field of the first one already equals `ver`.
(The hypotheses on `ver` and `date` are not used: the equality holds for arbitrary strings.) -/
theorem C20_only_header (name ver date page : List Char)
    (hv : ∀ c ∈ ver, c ≠ '"' ∧ c ≠ '\n') (hd : ∀ c ∈ date, c ≠ '"' ∧ c ≠ '\n') :
    updateManpage name ver date page = expectedManpage name ver date page :=
  Proofs.Release.updateManpage_eq_expected name ver date page hv hd

/-- the same without hypotheses on the strings -/
theorem C20_only_header' (name ver date page : List Char) :
    updateManpage name ver date page = expectedManpage name ver date page :=
  Proofs.Release.updateManpage_eq_expected' name ver date page

/-- Definition-free reading of "only the two fields change": whenever something is written, the page has the form
`pre ++ t0 "f0" t1 "f1" r ++ post` with `t0, f0, t1, f1` free of quotes and `t0` starting with `.TH `, the old
version field `f1` differs from `ver`, and the text written is `pre ++ t0 "date" t1 "ver" r ++ post`. -/
theorem C20_only_fields (ver date page page' : List Char)
    (h : updateManpage "qrcode".toList ver date page = some page') :
    ∃ pre t0 f0 t1 f1 r post,
      page = pre ++ (t0 ++ '"' :: (f0 ++ '"' :: (t1 ++ '"' :: (f1 ++ '"' :: r)))) ++ post ∧
      page' = pre ++ (t0 ++ '"' :: (date ++ '"' :: (t1 ++ '"' :: (ver ++ '"' :: r)))) ++ post ∧
      f1 ≠ ver ∧ (∀ c ∈ t0, c ≠ '"') ∧ (∀ c ∈ f0, c ≠ '"') ∧ (∀ c ∈ t1, c ≠ '"') ∧ (∀ c ∈ f1, c ≠ '"') ∧
      t0.take 4 = ".TH ".toList :=
  Proofs.Release.only_fields_change ver date page page' h

/-- Idempotence: after a successful run, a second run with the same version writes nothing - even on another day
(`date'` arbitrary).  `ver` and `date` must contain neither `'"'` nor `'\n'`; each of the four conditions is
necessary (counterexamples in the report). -/
theorem C20_idempotent (ver date date' page page' : List Char)
    (hv : ∀ c ∈ ver, c ≠ '"' ∧ c ≠ '\n') (hd : ∀ c ∈ date, c ≠ '"' ∧ c ≠ '\n')
    (h : updateManpage "qrcode".toList ver date page = some page') :
    updateManpage "qrcode".toList ver date' page' = none :=
  Proofs.Release.idempotent ver date date' page page' hv hd h

/-- nothing is written for another package name -/
theorem C20_other_package (name ver date page : List Char) (h : name ≠ "qrcode".toList) :
    updateManpage name ver date page = none := by
  unfold updateManpage
  have : (name != "qrcode".toList) = true := by simpa using h
  rw [if_pos this]

/-- nothing is written when no line of the page is a well-formed header line -/
theorem C20_noop_no_header (name ver date page : List Char)
    (h : ∀ l ∈ lineSplit (page.length + 1) page, wellFormedHeader l = false) :
    updateManpage name ver date page = none :=
  Proofs.Release.noop_no_header name ver date page h

/-- nothing is written when the version field (quoted field 1) of the first well-formed header line
already equals `ver` -/
theorem C20_noop_same_version (name ver date page : List Char) (i : Nat)
    (hi : i < (lineSplit (page.length + 1) page).length)
    (hwf : wellFormedHeader (lineSplit (page.length + 1) page)[i] = true)
    (hfirst : ∀ j (hj : j < i), wellFormedHeader ((lineSplit (page.length + 1) page)[j]'(by omega)) = false)
    (hq : quotedField (lineSplit (page.length + 1) page)[i] 1 = ver) :
    updateManpage name ver date page = none :=
  Proofs.Release.noop_same_version name ver date page i hi hwf hfirst hq

/-- the lines used in the two no-op statements are the lines the code reads -/
theorem C20_lines_agree (fuel : Nat) (page : List Char) : readLines fuel page = lineSplit fuel page :=
  Proofs.Release.readLines_eq_lineSplit fuel page

/-- non-vacuity: on a concrete page with a malformed `.TH` line, a good one and a later one, exactly the date and
version of the good one are rewritten, and a second run (another day) writes nothing -/
example :
    updateManpage "qrcode".toList "8.0".toList "26 Sep 2026".toList
      "x\n.TH QR 1 \"only one\"\n.TH QR 1 \"1 Jan 2020\" \"7.0\" \"tool\"\n.TH A \"d\" \"6.0\"".toList
    = some "x\n.TH QR 1 \"only one\"\n.TH QR 1 \"26 Sep 2026\" \"8.0\" \"tool\"\n.TH A \"d\" \"6.0\"".toList
    ∧ updateManpage "qrcode".toList "8.0".toList "27 Sep 2026".toList
      "x\n.TH QR 1 \"only one\"\n.TH QR 1 \"26 Sep 2026\" \"8.0\" \"tool\"\n.TH A \"d\" \"6.0\"".toList = none := by
  decide


/-! ### Source tie, part 2 (T2 plugins `tools/t2_fragments/`): (second plugin round, `frag_c.py`) the hand-written Model equals the definitions translated from
    /repo's current Python AST (`QR.Gen.Code`, regenerated on every run). Restated verbatim from `QR/Proofs/SourceTie*.lean`. -/
section SourceTieT2b
open QR.Model QR.Gen QR.Gen.Code QR.SourceTieT QR.Spec QR.Proofs.Release

theorem C20_source_manpage_literals_src :
    manpage_path_base_dir = "os.path.dirname(os.path.dirname(os.path.abspath(__file__)))" ∧
    manpage_path_filename = "os.path.join(base_dir, 'doc', 'qr.1')" ∧
    manpage_read_open = "open(filename)" ∧ manpage_write_open = "open(filename, 'w')" ∧
    manpage_split_pattern = "\"([^\"]*)\"" ∧ manpage_date_format = "%-d %b %Y" :=
  QR.SourceTieT.manpage_literals_src

/-- the loop `for i, line in enumerate(lines): ...` with its `continue`s and its `break`: `Model.processLines` is the translated
loop started with `changed = False`, for every list of lines -/
theorem C20_source_processLines_src (name v d : List Char) (L : List (List Char)) :
    processLines v d L = manpage_loop name v d false L :=
  QR.SourceTieT.processLines_src name v d L

/-- `update_manpage(data)`: the model equals the translated function - the `data["name"] != "qrcode"` early return, `readlines`,
`changed = False`, the loop, and the final `if changed:` write of all lines - for every name, version, date and page text -/
theorem C20_source_updateManpage_src (name v d page : List Char) :
    updateManpage name v d page = manpage_update name v d page :=
  QR.SourceTieT.updateManpage_src name v d page

end SourceTieT2b

/-! ### Capstones: the property composed with the source tie. The TRANSLATED SOURCE ITSELF (`QR.Gen.Code.manpage_update`,
    regenerated from /repo's current Python AST on every run) satisfies the Spec statement, for all inputs; no `QR.Model`
    function occurs in a conclusion. Covered: `qrcode/release.py:update_manpage` as a whole - the
    `data["name"] != "qrcode"` early return, `readlines()`, the `for i, line in enumerate(lines)` loop with its
    `continue`s and `break`, `re.split`, `'"'.join`, the final `if changed:` write. The Python library functions
    (`str.startswith`, `str.join`, `readlines`, `re.split` for this pattern) are the translator's `manpage_py_*`
    definitions in `Gen.Code`; file I/O is abstracted to page text in / text written out (`none` = nothing written);
    the `strftime` result is the parameter `date`. -/
section Capstone
open QR.Model QR.Gen QR.Gen.Code QR.SourceTieT QR.Spec

/-- **capstone, `qrcode/release.py:update_manpage`** = `Spec.expectedManpage`, for arbitrary name, version, date and page: only
    quoted fields 0 (date) and 1 (version) of the first well-formed `.TH` header line change, everything else is kept in
    order; nothing is written exactly when the package name differs, no well-formed header line exists, or the version
    field already equals the new version. From `C20_source_updateManpage_src` and `C20_only_header'`. -/
theorem C20_source_capstone_only_header (name ver date page : List Char) :
    manpage_update name ver date page = expectedManpage name ver date page := by
  rw [← C20_source_updateManpage_src name ver date page]
  exact C20_only_header' name ver date page

/-- **capstone, `qrcode/release.py:update_manpage`**, definition-free: whenever the translated function writes something, the page
    has the form `pre ++ t0 "f0" t1 "f1" r ++ post` (`t0, f0, t1, f1` quote-free, `t0` starting with `.TH `), the old
    version `f1` differs from `ver`, and the text written is `pre ++ t0 "date" t1 "ver" r ++ post`.
    From `C20_source_updateManpage_src` and `C20_only_fields`. -/
theorem C20_source_capstone_only_fields (ver date page page' : List Char)
    (h : manpage_update "qrcode".toList ver date page = some page') :
    ∃ pre t0 f0 t1 f1 r post,
      page = pre ++ (t0 ++ '"' :: (f0 ++ '"' :: (t1 ++ '"' :: (f1 ++ '"' :: r)))) ++ post ∧
      page' = pre ++ (t0 ++ '"' :: (date ++ '"' :: (t1 ++ '"' :: (ver ++ '"' :: r)))) ++ post ∧
      f1 ≠ ver ∧ (∀ c ∈ t0, c ≠ '"') ∧ (∀ c ∈ f0, c ≠ '"') ∧ (∀ c ∈ t1, c ≠ '"') ∧ (∀ c ∈ f1, c ≠ '"') ∧
      t0.take 4 = ".TH ".toList := by
  rw [← C20_source_updateManpage_src] at h
  exact C20_only_fields ver date page page' h

/-- **capstone, `qrcode/release.py:update_manpage`**, idempotence: after a run of the translated function that wrote `page'`, a
    second run with the same version writes nothing, whatever the date (`ver`, `date` free of `'"'` and `'\n'`).
    From `C20_source_updateManpage_src` (twice) and `C20_idempotent`. -/
theorem C20_source_capstone_idempotent (ver date date' page page' : List Char)
    (hv : ∀ c ∈ ver, c ≠ '"' ∧ c ≠ '\n') (hd : ∀ c ∈ date, c ≠ '"' ∧ c ≠ '\n')
    (h : manpage_update "qrcode".toList ver date page = some page') :
    manpage_update "qrcode".toList ver date' page' = none := by
  rw [← C20_source_updateManpage_src] at h ⊢
  exact C20_idempotent ver date date' page page' hv hd h

/-- **capstone, `qrcode/release.py:update_manpage`**, the three no-op cases on the translated function: another package name; no
    well-formed header line among the lines of the page (`Spec.lineSplit`); the version field (quoted field 1) of the
    first well-formed header line already equals `ver`.
    From `C20_source_updateManpage_src` and `C20_other_package`, `C20_noop_no_header`, `C20_noop_same_version`. -/
theorem C20_source_capstone_noop (name ver date page : List Char) :
    (name ≠ "qrcode".toList → manpage_update name ver date page = none) ∧
    ((∀ l ∈ lineSplit (page.length + 1) page, wellFormedHeader l = false) → manpage_update name ver date page = none) ∧
    (∀ i (hi : i < (lineSplit (page.length + 1) page).length),
      wellFormedHeader (lineSplit (page.length + 1) page)[i] = true →
      (∀ j (hj : j < i), wellFormedHeader ((lineSplit (page.length + 1) page)[j]'(by omega)) = false) →
      quotedField (lineSplit (page.length + 1) page)[i] 1 = ver →
      manpage_update name ver date page = none) := by
  rw [← C20_source_updateManpage_src name ver date page]
  exact ⟨C20_other_package name ver date page, C20_noop_no_header name ver date page,
    fun i hi hwf hfirst hq => C20_noop_same_version name ver date page i hi hwf hfirst hq⟩

/-- the translated function evaluated by the kernel on a concrete page (a malformed `.TH` line, a good one, a later one):
    exactly the date and version of the good one are rewritten; a second run on another day writes nothing
    (as `C20_source_capstone_only_fields` / `C20_source_capstone_idempotent` say) -/
example :
    manpage_update "qrcode".toList "8.0".toList "26 Sep 2026".toList
      "x\n.TH QR 1 \"only one\"\n.TH QR 1 \"1 Jan 2020\" \"7.0\" \"tool\"\n.TH A \"d\" \"6.0\"".toList
    = some "x\n.TH QR 1 \"only one\"\n.TH QR 1 \"26 Sep 2026\" \"8.0\" \"tool\"\n.TH A \"d\" \"6.0\"".toList
    ∧ manpage_update "qrcode".toList "8.0".toList "27 Sep 2026".toList
      "x\n.TH QR 1 \"only one\"\n.TH QR 1 \"26 Sep 2026\" \"8.0\" \"tool\"\n.TH A \"d\" \"6.0\"".toList = none := by
  decide

end Capstone

/-- the Python functions this property's model mirrors have, in /repo's current working tree, exactly the normalised
    ASTs the model was written and validated against (fingerprints regenerated by T1 on every run) -/
theorem C20_source_fingerprints : QR.Gen.fp_C20 = QR.Pinned.fp_C20 := by decide

/-- the literals `update_manpage` depends on, as they stand in the source: package name, header prefix ".TH ", the quote-pair
    pattern, field indices 3 (version) and 1 (date), the bound 5 on the number of parts -/
theorem C20_source_literals :
    Gen.Code.release_strings = ["qrcode", "doc", "qr.1", "name", "\"([^\"]*)\"", ".TH ", "new_version", "new_version", "%-d %b %Y", "w", "\""] ∧
    Gen.Code.release_ints = [5, 3, 3, 1] := QR.SourceTie.release_literals

end QR.Props
