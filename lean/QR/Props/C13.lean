import QR.Model.Svg
import QR.Spec.Svg
import QR.Proofs.Svg
import QR.Proofs.SourceTieC13
import QR.Proofs.Pinned
import QR.Proofs.Units
import QR.Proofs.SourceTieB6
/-
C13 - SVG factories: each factory draws exactly one correctly placed shape per dark module and none for light modules,
each shape centred on its module's cell and not larger than the cell.
-/
namespace QR.Props
open QR QR.Model

/-- only the fill variants add a background rectangle; only the path variants carry a viewBox -/
theorem C13_background (f : SvgFactory) (md ed : SvgDrawer) (M : Mods) (w b box : Nat) :
    ((svgDoc f md ed M w b box).background = true ↔ f = .fill ∨ f = .pathFill) ∧
    ((svgDoc f md ed M w b box).viewBox = true ↔ f = .path ∨ f = .pathFill) := by
  cases f <;> simp [svgDoc, SvgFactory.hasBackground, SvgFactory.isPath]

/-- document size: (modules + 2*border) * box_size pixels = /10 mm -/
theorem C13_size (f : SvgFactory) (md ed : SvgDrawer) (M : Mods) (w b box : Nat) :
    (svgDoc f md ed M w b box).pixelSize = (w + 2 * b) * box := by
  simp [svgDoc, pixelSize, Nat.mul_comm b 2]

/-- **C13 (shapes)**: for every factory (fragment / image / fill / path / pathFill), every module drawer and eye drawer
    (square or circle) whose size ratio `num/den` is at most 1, every matrix, width, border and box size: the emitted
    shapes - each reduced by `blobOf` to its centre and full extent - are exactly one per dark module in row-major order
    and none for light modules (`Spec.shapesOK`: same length as `Spec.darkCells`, the k-th shape belongs to the k-th
    dark module), each centred on its module's cell `((c+border)*box + box/2, (r+border)*box + box/2)` and not larger
    than the cell.  The hypothesis `num ≤ den` is necessary (see the counterexample below); `0 < num`, `0 < den` are not. -/
theorem C13_shapes (f : SvgFactory) (md ed : SvgDrawer) (M : Mods) (n border box : Nat)
    (hm : md.num ≤ md.den) (he : ed.num ≤ ed.den) :
    Spec.shapesOK M n border box ((svgDoc f md ed M n border box).shapes.map Proofs.Svg.blobOf) = true :=
  Proofs.Svg.svg_shapesOK f md ed M n border box hm he

/-- the number of emitted shapes is the number of dark modules (no hypothesis on the drawers) -/
theorem C13_count (f : SvgFactory) (md ed : SvgDrawer) (M : Mods) (n border box : Nat) :
    (svgDoc f md ed M n border box).shapes.length = (Spec.darkCells M n).length :=
  Proofs.Svg.svg_count f md ed M n border box

/-- `Spec.darkCells` is what it should be: exactly the dark modules of the `n x n` square, each once, in strictly
    increasing row-major order -/
theorem C13_darkCells (M : Mods) (n : Nat) :
    (∀ r c, (r, c) ∈ Spec.darkCells M n ↔ r < n ∧ c < n ∧ (M.getD r []).getD c false = true) ∧
    (Spec.darkCells M n).Pairwise fun a b => a.1 < b.1 ∨ (a.1 = b.1 ∧ a.2 < b.2) :=
  ⟨Proofs.Svg.mem_darkCells M n, Proofs.Svg.darkCells_sorted M n⟩

/-- unfolded: the k-th shape is the shape drawn for the k-th dark module `(r, c)` in row-major order - by the eye drawer
    iff `isEye n r c`, else by the module drawer, at that module's pixel box - and it is centred on that module's cell
    and fits the cell -/
theorem C13_kth (f : SvgFactory) (md ed : SvgDrawer) (M : Mods) (n border box : Nat)
    (hm : md.num ≤ md.den) (he : ed.num ≤ ed.den) (k : Nat) (hk : k < (Spec.darkCells M n).length) :
    let rc := (Spec.darkCells M n)[k]
    let d := if isEye n rc.1 rc.2 then ed else md
    (svgDoc f md ed M n border box).shapes[k]? =
        some (2 * d.den, drawShape f.isPath d box ((rc.2 + border) * box) ((rc.1 + border) * box)) ∧
    (∀ p, (svgDoc f md ed M n border box).shapes[k]? = some p →
        (Proofs.Svg.blobOf p).centredOn border box rc.1 rc.2 = true ∧ (Proofs.Svg.blobOf p).fitsCell box = true) :=
  Proofs.Svg.svg_kth f md ed M n border box hm he k hk

/-- non-vacuity: a 9x9 matrix with dark modules inside and outside the eyes, gapped-circle (4/5) module drawer, square
    eye drawer, path factory: 6 shapes, and the spec predicate really evaluates to `true` -/
example :
    let M : Mods := (List.range 9).map fun r => (List.range 9).map fun c => r == c && r % 2 == 0 || (r == 7 && c == 8)
    let doc := svgDoc .path ⟨.circle, 4, 5⟩ ⟨.square, 1, 1⟩ M 9 4 10
    doc.shapes.length = 6 ∧
    doc.shapes[0]? = some (2, .pathSquare 80 80 100 100) ∧        -- (0,0): eye, full square, 4.0mm .. 5.0mm
    doc.shapes[4]? = some (10, .pathCircle 1210 1150 1290 30) ∧   -- (7,8): not an eye, circle of diameter 8 px
    Spec.shapesOK M 9 4 10 (doc.shapes.map Proofs.Svg.blobOf) = true := by decide

/-- the hypothesis `num ≤ den` cannot be dropped: a ratio of 2 gives an uncentred, too large shape -/
example : Spec.shapesOK [[true]] 1 0 1
    ((svgDoc .image ⟨.square, 2, 1⟩ ⟨.square, 2, 1⟩ [[true]] 1 0 1).shapes.map Proofs.Svg.blobOf) = false := by decide

/-! ### tie to the source: the model's expressions are the ones translated from the current Python AST (T2) -/

/-- `BaseImage.is_eye` as it stands in the source is the model's `isEye` -/
theorem C13_source_is_eye (width row col : Nat) : Gen.Code.is_eye width row col = isEye width row col :=
  QR.SourceTie.isEye_eq width row col


/-! ### Source tie, part 2 (T2 plugins `tools/t2_fragments/`): the hand-written Model equals the definitions translated from
    /repo's current Python AST (`QR.Gen.Code`, regenerated on every run). Restated verbatim from `QR/Proofs/SourceTie*.lean`. -/
section SourceTieT2
open QR.Model QR.Gen.Code QR.SourceTieB

theorem C13_source_units_literals :
    units_text_default = true ∧ units_divisor = 10 ∧ units_quantum_decimals = 3 ∧ units_rounding = "ROUND_HALF_EVEN" ∧
    units_cascade_traps = ["decimal.Inexact"] ∧ units_cascade_except = "decimal.Inexact" ∧
    units_cascade_decimals = [2, 1, 0] ∧ units_suffix = "mm" ∧ (∀ t, units_raw_test t = !t) :=
  QR.SourceTieB.units_literals

/-- the model's printer is the source's cascade: quantum and cascade steps as they stand in the source -/
theorem C13_source_fmtThousandths_src (t : Nat) :
    fmtThousandths t = fmtScaled (cascade t units_quantum_decimals units_cascade_decimals).1
                                 (cascade t units_quantum_decimals units_cascade_decimals).2 :=
  QR.SourceTieB.fmtThousandths_src t

/-- `units(pixels)` for `pixels = num / den`: `Decimal(pixels) / 10` quantised to `units_quantum_decimals` decimals
    (half-even: `units_rounding`), printed through the cascade, followed by the suffix -/
theorem C13_source_units_src (num den : Nat) :
    units num den =
      (let t := roundHalfEven (10 ^ units_quantum_decimals / units_divisor * num) den
       let c := cascade t units_quantum_decimals units_cascade_decimals
       fmtScaled c.1 c.2 ++ units_suffix) :=
  QR.SourceTieB.units_src num den

theorem C13_source_svgRoot_literals :
    svg_root_attrs = [("width", "dimension"), ("height", "dimension"), ("version", "version")] ∧
    svg_viewbox_format = "0 0 {d} {d}" ∧ svg_background_test = "self.background" ∧ svg_background_tag = "rect" ∧
    svg_background_attrs = [("fill", "<self.background>"), ("x", "0"), ("y", "0"), ("width", "100%"), ("height", "100%")] :=
  QR.SourceTieB.svgRoot_literals

/-- which factory draws the background rectangle: the class attribute `background` resolved along the class hierarchy -/
theorem C13_source_hasBackground_src (f : SvgFactory) : svg_has_background.lookup (factoryName f) = some f.hasBackground :=
  QR.SourceTieB.hasBackground_src f

/-- the document: `width` / `height` (and the path factories' viewBox) are `units` of `pixel_size`; the pixel box handed to the
    drawer is `pixel_box(row, col)[0]`; the eye test is `is_eye` -/
theorem C13_source_svgDoc_src (f : SvgFactory) (md ed : SvgDrawer) (M : Mods) (width border boxSize : Nat) :
    svgDoc f md ed M width border boxSize =
      { pixelSize := svg_dimension_arg (pixel_size border width boxSize)
        viewBox := f.isPath
        background := f.hasBackground
        shapes := (List.range width).flatMap fun r => (List.range width).filterMap fun c =>
          if (M.getD r []).getD c false then
            let d := if is_eye width r c then ed else md
            let box := pixel_box border boxSize r c
            some (2 * d.den, drawShape f.isPath d boxSize box.1.1 box.1.2)
          else none } :=
  QR.SourceTieB.svgDoc_src f md ed M width border boxSize

/-- `initialize()`: `box_delta = (1 - size_ratio) * img.box_size / 2`, `box_size = img.box_size * size_ratio`,
    `box_half = box_size / 2`, for `size_ratio = num / den ≤ 1`.  The translated value is `numerator / divisor` in units of
    1/den pixel; the model's is in units of 1/(2 den) pixel: `model * divisor = 2 * numerator`. -/
theorem C13_source_drawerMetrics_src (d : SvgDrawer) (b : Nat) :
    (d.den - d.num) * b * (svg_box_delta d.num d.den b).2 = 2 * (svg_box_delta d.num d.den b).1 ∧
    2 * d.num * b * (svg_box_size d.num d.den b).2 = 2 * (svg_box_size d.num d.den b).1 ∧
    d.num * b * (svg_box_half d.num d.den b).2 = 2 * (svg_box_half d.num d.den b).1 :=
  QR.SourceTieB.drawerMetrics_src d b

theorem C13_source_svgDrawer_literals :
    svg_coords_fields = ["x0", "y0", "x1", "y1", "xh", "yh"] ∧
    svg_square_tag = "rect" ∧ svg_square_attrs = ["x", "y", "width", "height"] ∧
    svg_circle_tag = "circle" ∧ svg_circle_attrs = ["cx", "cy", "r"] ∧
    svg_path_square_template = ["M", "{x0}", ",", "{y0}", "H", "{x1}", "V", "{y1}", "H", "{x0}", "z"] ∧
    svg_path_circle_template = ["M", "{x0}", ",", "{yh}", "A", "{h}", ",", "{h}", " 0 0 0 ", "{x1}", ",", "{yh}",
      "A", "{h}", ",", "{h}", " 0 0 0 ", "{x0}", ",", "{yh}", "z"] :=
  QR.SourceTieB.svgDrawer_literals

/-- the shape a drawer emits for the pixel box starting at (X, Y): `coords()` as translated, and for each drawer class the
    coordinates it passes to `units` for each attribute (`x`/`y`/`width`/`height`, `cx`/`cy`/`r`) or path variable -/
theorem C13_source_drawShape_src (isPath : Bool) (d : SvgDrawer) (b X Y : Nat) :
    some (drawShape isPath d b X Y) =
      (let D := 2 * d.den
       let delta := (d.den - d.num) * b
       let size := 2 * d.num * b
       let half := d.num * b
       let c := svg_coords (X * D) (Y * D) delta size half
       match isPath, d.kind with
       | false, .square => rectOf (svg_square_el c.1 c.2.1 c.2.2.1 c.2.2.2.1 c.2.2.2.2.1 c.2.2.2.2.2 delta size half)
       | false, .circle => circleOf (svg_circle_el c.1 c.2.1 c.2.2.1 c.2.2.2.1 c.2.2.2.2.1 c.2.2.2.2.2 delta size half)
       | true, .square => pathSquareOf (svg_path_square_vars c.1 c.2.1 c.2.2.1 c.2.2.2.1 c.2.2.2.2.1 c.2.2.2.2.2 delta size half)
       | true, .circle => pathCircleOf (svg_path_circle_vars c.1 c.2.1 c.2.2.1 c.2.2.2.1 c.2.2.2.2.1 c.2.2.2.2.2 delta size half)) :=
  QR.SourceTieB.drawShape_src isPath d b X Y

end SourceTieT2

/-- the Python functions this property's model mirrors have, in /repo's current working tree, exactly the normalised
    ASTs the model was written and validated against (fingerprints regenerated by T1 on every run) -/
theorem C13_source_fingerprints : QR.Gen.fp_C13 = QR.Pinned.fp_C13 := by decide

/-! ### `units`: the printed length denotes the half-even quantised value -/

/-- **C13 (units, text)**: `units(pixels)` for `pixels = num/den` is a decimal literal followed by "mm", and the literal -
    read by the strict reader `Proofs.Units.parseThousandths` (digits, optionally a point and one to three decimals;
    value in thousandths) - denotes exactly `roundHalfEven (100*num) den` thousandths of a millimetre; in general
    every `fmtThousandths t` reads back to `t`, so different quantised values print differently -/
theorem C13_units_roundtrip :
    (∀ t : Nat, Proofs.Units.parseThousandths (fmtThousandths t) = some t) ∧
    (∀ a b : Nat, fmtThousandths a = fmtThousandths b → a = b) ∧
    (∀ num den : Nat, units num den = fmtThousandths (roundHalfEven (100 * num) den) ++ "mm" ∧
      Proofs.Units.parseThousandths (fmtThousandths (roundHalfEven (100 * num) den)) =
        some (roundHalfEven (100 * num) den)) :=
  ⟨Proofs.Units.parse_fmt, fun _ _ h => Proofs.Units.fmtThousandths_injective h,
    fun _ _ => ⟨rfl, Proofs.Units.parse_fmt _⟩⟩

/-- **C13 (units, rounding)**: the quantised value `q = roundHalfEven a b` is within half a unit of `a / b`:
    `|q*b - a| ≤ b/2`, stated without division -/
theorem C13_units_close (a b : Nat) (hb : 0 < b) :
    2 * (roundHalfEven a b * b) ≤ 2 * a + b ∧ 2 * a ≤ 2 * (roundHalfEven a b * b) + b :=
  Proofs.Units.roundHalfEven_close a b hb

/-- **C13 (units, exactness)**: when `num/den` pixels is a whole number of thousandths of a millimetre (all default
    drawers at integer box sizes), nothing is lost by the rounding -/
theorem C13_units_exact (num den : Nat) (hd : 0 < den) (h : den ∣ 100 * num) :
    roundHalfEven (100 * num) den = 100 * num / den ∧ (100 * num / den) * den = 100 * num :=
  Proofs.Units.units_exact num den hd h

/-- instances: 10 px = "1mm", 25/2 px = "1.25mm", 1/3 px = 0.0333.. mm prints "0.033mm", ties go to even -/
example : units 10 1 = "1mm" ∧ units 25 2 = "1.25mm" ∧ units 1 3 = "0.033mm" ∧ units 1 200 = "0mm" ∧
    units 3 200 = "0.002mm" ∧ units 1230 1 = "123mm" ∧ units 101 10 = "1.01mm" := by decide

end QR.Props
