import QR.Model.Svg
import QR.Spec.Svg
/-
C13 - SVG factories.  (General theorems under construction.)
-/
namespace QR.Props
open QR QR.Model

/-- only the fill variants add a background rectangle; only the path variants carry a viewBox -/
theorem C13_background (f : SvgFactory) (md ed : SvgDrawer) (M : Mods) (w b box : Nat) :
    ((svgDoc f md ed M w b box).background = true ↔ f = .fill ∨ f = .pathFill) ∧
    ((svgDoc f md ed M w b box).viewBox = true ↔ f = .path ∨ f = .pathFill) := by
  cases f <;> simp [svgDoc, SvgFactory.hasBackground, SvgFactory.isPath]

/-- document size: (modules + 2*border) * box_size pixels = /10 mm -/
theorem C13_size (f : SvgFactory) (md ed : SvgDrawer) (M : Mods) (w b box : Nat) :
    (svgDoc f md ed M w b box).pixelSize = (w + 2 * b) * box := by
  simp [svgDoc, pixelSize, Nat.mul_comm b 2]

end QR.Props
