import QR.Proofs.SourceTieD4b
import QR.Proofs.SourceTieD4c
import QR.Model.Svg
import QR.Spec.Svg
import QR.Proofs.Svg
import QR.Proofs.SourceTieC13
import QR.Proofs.Pinned
import QR.Proofs.Units
import QR.Proofs.SourceTieB6
/-
C13 - SVG factories: each factory draws exactly one correctly placed shape per dark module and none for light modules,
each shape centred on its module's cell and not larger than the cell.
-/
namespace QR.Props
open QR QR.Model

/-- only the fill variants add a background rectangle; only the path variants carry a viewBox -/
theorem C13_background (f : SvgFactory) (md ed : SvgDrawer) (M : Mods) (w b box : Nat) :
    ((svgDoc f md ed M w b box).background = true ↔ f = .fill ∨ f = .pathFill) ∧
    ((svgDoc f md ed M w b box).viewBox = true ↔ f = .path ∨ f = .pathFill) := by
  cases f <;> simp [svgDoc, SvgFactory.hasBackground, SvgFactory.isPath]

/-- document size: (modules + 2*border) * box_size pixels = /10 mm -/
theorem C13_size (f : SvgFactory) (md ed : SvgDrawer) (M : Mods) (w b box : Nat) :
    (svgDoc f md ed M w b box).pixelSize = (w + 2 * b) * box := by
  simp [svgDoc, pixelSize, Nat.mul_comm b 2]

/-- **C13 (shapes)**: for every factory (fragment / image / fill / path / pathFill), every module drawer and eye drawer
    (square or circle) whose size ratio `num/den` is at most 1, every matrix, width, border and box size: the emitted
    shapes - each reduced by `blobOf` to its centre and full extent - are exactly one per dark module in row-major order
    and none for light modules (`Spec.shapesOK`: same length as `Spec.darkCells`, the k-th shape belongs to the k-th
    dark module), each centred on its module's cell `((c+border)*box + box/2, (r+border)*box + box/2)` and not larger
    than the cell.  The hypothesis `num ≤ den` is necessary (see the counterexample below); `0 < num`, `0 < den` are not. -/
theorem C13_shapes (f : SvgFactory) (md ed : SvgDrawer) (M : Mods) (n border box : Nat)
    (hm : md.num ≤ md.den) (he : ed.num ≤ ed.den) :
    Spec.shapesOK M n border box ((svgDoc f md ed M n border box).shapes.map Proofs.Svg.blobOf) = true :=
  Proofs.Svg.svg_shapesOK f md ed M n border box hm he

/-- the number of emitted shapes is the number of dark modules (no hypothesis on the drawers) -/
theorem C13_count (f : SvgFactory) (md ed : SvgDrawer) (M : Mods) (n border box : Nat) :
    (svgDoc f md ed M n border box).shapes.length = (Spec.darkCells M n).length :=
  Proofs.Svg.svg_count f md ed M n border box

/-- `Spec.darkCells` is what it should be: exactly the dark modules of the `n x n` square, each once, in strictly
    increasing row-major order -/
theorem C13_darkCells (M : Mods) (n : Nat) :
    (∀ r c, (r, c) ∈ Spec.darkCells M n ↔ r < n ∧ c < n ∧ (M.getD r []).getD c false = true) ∧
    (Spec.darkCells M n).Pairwise fun a b => a.1 < b.1 ∨ (a.1 = b.1 ∧ a.2 < b.2) :=
  ⟨Proofs.Svg.mem_darkCells M n, Proofs.Svg.darkCells_sorted M n⟩

/-- unfolded: the k-th shape is the shape drawn for the k-th dark module `(r, c)` in row-major order - by the eye drawer
    iff `isEye n r c`, else by the module drawer, at that module's pixel box - and it is centred on that module's cell
    and fits the cell -/
theorem C13_kth (f : SvgFactory) (md ed : SvgDrawer) (M : Mods) (n border box : Nat)
    (hm : md.num ≤ md.den) (he : ed.num ≤ ed.den) (k : Nat) (hk : k < (Spec.darkCells M n).length) :
    let rc := (Spec.darkCells M n)[k]
    let d := if isEye n rc.1 rc.2 then ed else md
    (svgDoc f md ed M n border box).shapes[k]? =
        some (2 * d.den, drawShape f.isPath d box ((rc.2 + border) * box) ((rc.1 + border) * box)) ∧
    (∀ p, (svgDoc f md ed M n border box).shapes[k]? = some p →
        (Proofs.Svg.blobOf p).centredOn border box rc.1 rc.2 = true ∧ (Proofs.Svg.blobOf p).fitsCell box = true) :=
  Proofs.Svg.svg_kth f md ed M n border box hm he k hk

/-- non-vacuity: a 9x9 matrix with dark modules inside and outside the eyes, gapped-circle (4/5) module drawer, square
    eye drawer, path factory: 6 shapes, and the spec predicate really evaluates to `true` -/
example :
    let M : Mods := (List.range 9).map fun r => (List.range 9).map fun c => r == c && r % 2 == 0 || (r == 7 && c == 8)
    let doc := svgDoc .path ⟨.circle, 4, 5⟩ ⟨.square, 1, 1⟩ M 9 4 10
    doc.shapes.length = 6 ∧
    doc.shapes[0]? = some (2, .pathSquare 80 80 100 100) ∧        -- (0,0): eye, full square, 4.0mm .. 5.0mm
    doc.shapes[4]? = some (10, .pathCircle 1210 1150 1290 30) ∧   -- (7,8): not an eye, circle of diameter 8 px
    Spec.shapesOK M 9 4 10 (doc.shapes.map Proofs.Svg.blobOf) = true := by decide

/-- the hypothesis `num ≤ den` cannot be dropped: a ratio of 2 gives an uncentred, too large shape -/
example : Spec.shapesOK [[true]] 1 0 1
    ((svgDoc .image ⟨.square, 2, 1⟩ ⟨.square, 2, 1⟩ [[true]] 1 0 1).shapes.map Proofs.Svg.blobOf) = false := by decide

/-! ### tie to the source: the model's expressions are the ones translated from the current Python AST (T2) -/

/-- `BaseImage.is_eye` as it stands in the source is the model's `isEye` -/
theorem C13_source_is_eye (width row col : Nat) : Gen.Code.is_eye width row col = isEye width row col :=
  QR.SourceTie.isEye_eq width row col


/-! ### Source tie, part 2 (T2 plugins `tools/t2_fragments/`): the hand-written Model equals the definitions translated from
    /repo's current Python AST (`QR.Gen.Code`, regenerated on every run). Restated verbatim from `QR/Proofs/SourceTie*.lean`. -/
section SourceTieT2
open QR.Model QR.Gen.Code QR.SourceTieB

theorem C13_source_units_literals :
    units_text_default = true ∧ units_divisor = 10 ∧ units_quantum_decimals = 3 ∧ units_rounding = "ROUND_HALF_EVEN" ∧
    units_cascade_traps = ["decimal.Inexact"] ∧ units_cascade_except = "decimal.Inexact" ∧
    units_cascade_decimals = [2, 1, 0] ∧ units_suffix = "mm" ∧ (∀ t, units_raw_test t = !t) :=
  QR.SourceTieB.units_literals

/-- the model's printer is the source's cascade: quantum and cascade steps as they stand in the source -/
theorem C13_source_fmtThousandths_src (t : Nat) :
    fmtThousandths t = fmtScaled (cascade t units_quantum_decimals units_cascade_decimals).1
                                 (cascade t units_quantum_decimals units_cascade_decimals).2 :=
  QR.SourceTieB.fmtThousandths_src t

/-- `units(pixels)` for `pixels = num / den`: `Decimal(pixels) / 10` quantised to `units_quantum_decimals` decimals
    (half-even: `units_rounding`), printed through the cascade, followed by the suffix -/
theorem C13_source_units_src (num den : Nat) :
    units num den =
      (let t := roundHalfEven (10 ^ units_quantum_decimals / units_divisor * num) den
       let c := cascade t units_quantum_decimals units_cascade_decimals
       fmtScaled c.1 c.2 ++ units_suffix) :=
  QR.SourceTieB.units_src num den

theorem C13_source_svgRoot_literals :
    svg_root_attrs = [("width", "dimension"), ("height", "dimension"), ("version", "version")] ∧
    svg_viewbox_format = "0 0 {d} {d}" ∧ svg_background_test = "self.background" ∧ svg_background_tag = "rect" ∧
    svg_background_attrs = [("fill", "<self.background>"), ("x", "0"), ("y", "0"), ("width", "100%"), ("height", "100%")] :=
  QR.SourceTieB.svgRoot_literals

/-- which factory draws the background rectangle: the class attribute `background` resolved along the class hierarchy -/
theorem C13_source_hasBackground_src (f : SvgFactory) : svg_has_background.lookup (factoryName f) = some f.hasBackground :=
  QR.SourceTieB.hasBackground_src f

/-- the document: `width` / `height` (and the path factories' viewBox) are `units` of `pixel_size`; the pixel box handed to the
    drawer is `pixel_box(row, col)[0]`; the eye test is `is_eye` -/
theorem C13_source_svgDoc_src (f : SvgFactory) (md ed : SvgDrawer) (M : Mods) (width border boxSize : Nat) :
    svgDoc f md ed M width border boxSize =
      { pixelSize := svg_dimension_arg (pixel_size border width boxSize)
        viewBox := f.isPath
        background := f.hasBackground
        shapes := (List.range width).flatMap fun r => (List.range width).filterMap fun c =>
          if (M.getD r []).getD c false then
            let d := if is_eye width r c then ed else md
            let box := pixel_box border boxSize r c
            some (2 * d.den, drawShape f.isPath d boxSize box.1.1 box.1.2)
          else none } :=
  QR.SourceTieB.svgDoc_src f md ed M width border boxSize

/-- `initialize()`: `box_delta = (1 - size_ratio) * img.box_size / 2`, `box_size = img.box_size * size_ratio`,
    `box_half = box_size / 2`, for `size_ratio = num / den ≤ 1`.  The translated value is `numerator / divisor` in units of
    1/den pixel; the model's is in units of 1/(2 den) pixel: `model * divisor = 2 * numerator`. -/
theorem C13_source_drawerMetrics_src (d : SvgDrawer) (b : Nat) :
    (d.den - d.num) * b * (svg_box_delta d.num d.den b).2 = 2 * (svg_box_delta d.num d.den b).1 ∧
    2 * d.num * b * (svg_box_size d.num d.den b).2 = 2 * (svg_box_size d.num d.den b).1 ∧
    d.num * b * (svg_box_half d.num d.den b).2 = 2 * (svg_box_half d.num d.den b).1 :=
  QR.SourceTieB.drawerMetrics_src d b

theorem C13_source_svgDrawer_literals :
    svg_coords_fields = ["x0", "y0", "x1", "y1", "xh", "yh"] ∧
    svg_square_tag = "rect" ∧ svg_square_attrs = ["x", "y", "width", "height"] ∧
    svg_circle_tag = "circle" ∧ svg_circle_attrs = ["cx", "cy", "r"] ∧
    svg_path_square_template = ["M", "{x0}", ",", "{y0}", "H", "{x1}", "V", "{y1}", "H", "{x0}", "z"] ∧
    svg_path_circle_template = ["M", "{x0}", ",", "{yh}", "A", "{h}", ",", "{h}", " 0 0 0 ", "{x1}", ",", "{yh}",
      "A", "{h}", ",", "{h}", " 0 0 0 ", "{x0}", ",", "{yh}", "z"] :=
  QR.SourceTieB.svgDrawer_literals

/-- the shape a drawer emits for the pixel box starting at (X, Y): `coords()` as translated, and for each drawer class the
    coordinates it passes to `units` for each attribute (`x`/`y`/`width`/`height`, `cx`/`cy`/`r`) or path variable -/
theorem C13_source_drawShape_src (isPath : Bool) (d : SvgDrawer) (b X Y : Nat) :
    some (drawShape isPath d b X Y) =
      (let D := 2 * d.den
       let delta := (d.den - d.num) * b
       let size := 2 * d.num * b
       let half := d.num * b
       let c := svg_coords (X * D) (Y * D) delta size half
       match isPath, d.kind with
       | false, .square => rectOf (svg_square_el c.1 c.2.1 c.2.2.1 c.2.2.2.1 c.2.2.2.2.1 c.2.2.2.2.2 delta size half)
       | false, .circle => circleOf (svg_circle_el c.1 c.2.1 c.2.2.1 c.2.2.2.1 c.2.2.2.2.1 c.2.2.2.2.2 delta size half)
       | true, .square => pathSquareOf (svg_path_square_vars c.1 c.2.1 c.2.2.1 c.2.2.2.1 c.2.2.2.2.1 c.2.2.2.2.2 delta size half)
       | true, .circle => pathCircleOf (svg_path_circle_vars c.1 c.2.1 c.2.2.1 c.2.2.2.1 c.2.2.2.2.1 c.2.2.2.2.2 delta size half)) :=
  QR.SourceTieB.drawShape_src isPath d b X Y

end SourceTieT2

/-! ### Tie to the source, package D4 (`tools/t2_fragments/frag_d4.py`): `BaseImageWithDrawer.__init__` / `get_drawer` /
    `init_new_image` / `drawrect_context`, the SVG drawers' `drawrect`, `SvgPathImage.__init__` / `process`, run inside the
    translated tail of `QRCode.make_image`; translated statement by statement from /repo's current Python AST.
    Restated verbatim from `QR/Proofs/SourceTieD4b.lean`, `SourceTieD4c.lean`. -/
section SourceTieD4
open QR.Model QR.Gen.Code QR.SourceTieB QR.SourceTieD4

/-- `BaseImageWithDrawer.drawrect_context(row, col, qr)`: one call `drawer.drawrect(box, is_active)`; the drawer is the eye
    drawer iff `Model.isEye`, `box = Model.pixelBox row col`, `is_active` the neighbour context iff the drawer needs it -/
theorem C13_source_drawrectContext_src {D A S : Type} (border boxSize width : Nat) (ed md : D) (nn : D → Bool)
    (awn : Nat → Nat → A) (ofBool : Bool → A) (M : Mods) (drawrect : D → rd_Box → A → S → S) (row col : Nat) (im : S) :
    rd_drawrect_context border boxSize width ed md nn awn ofBool M drawrect row col im =
      let d := if isEye width row col then ed else md
      drawrect d (pixelBox border boxSize row col) (if nn d then awn row col else ofBool ((M.getD row []).getD col false)) im :=
  QR.SourceTieD4.drawrectContext_src border boxSize width ed md nn awn ofBool M drawrect row col im

/-- class bodies of `moduledrawers/svg.py`: no SVG drawer sets `needs_neighbors`; path drawers inherit
    `SvgPathQRModuleDrawer.drawrect`, element drawers `SvgQRModuleDrawer.drawrect` -/
theorem C13_source_svgDrawer_classes_src (isPath : Bool) (d : SvgDrawer) :
    needsNeighbors isPath d = false ∧
    rd_svg_drawer_drawrect_class.lookup (drawerClass isPath d.kind)
      = some (if isPath then "SvgPathQRModuleDrawer" else "SvgQRModuleDrawer") :=
  QR.SourceTieD4.svgDrawer_classes_src isPath d

/-- `default_drawer_class` of each SVG factory and `get_default_module_drawer` / `get_default_eye_drawer` -/
theorem C13_source_svgDefaultDrawer_src (f : SvgFactory) :
    rd_svg_default_drawer.lookup (factoryName f) = some (drawerClass f.isPath .square) ∧
    rd_get_default_module_drawer = "self.default_drawer_class()" ∧ rd_get_default_eye_drawer = "self.default_drawer_class()" :=
  QR.SourceTieD4.svgDefaultDrawer_src f

/-- `SvgQRModuleDrawer.drawrect`: `if not is_active: return`, else `self.img._img.append(self.el(box))` -/
theorem C13_source_svgDrawrect_src (el : rd_Box → rd_Element) (box : rd_Box) (a : Bool) (img : rd_SvgImg) :
    rd_svg_drawrect el id box a img = if a then { img with img := img.img ++ [el box] } else img :=
  QR.SourceTieD4.svgDrawrect_src el box a img

/-- `SvgPathQRModuleDrawer.drawrect`: `if not is_active: return`, else `self.img._subpaths.append(self.subpath(box))` -/
theorem C13_source_svgPathDrawrect_src (sub : rd_Box → String) (box : rd_Box) (a : Bool) (img : rd_SvgImg) :
    rd_svg_path_drawrect sub id box a img = if a then { img with subpaths := img.subpaths ++ [sub box] } else img :=
  QR.SourceTieD4.svgPathDrawrect_src sub box a img

/-- `SvgPathImage.process()`: the final `<path d="".join(self._subpaths) id="qr-path" **QR_PATH_STYLE>` element, stored in
    `self.path`, appended to the document; `_subpaths` emptied -/
theorem C13_source_svgPathProcess_src (self : rd_SvgImg) :
    rd_svg_path_process self =
      let p : rd_Element :=
        { tag := "path"
          attrs := [("d", "".intercalate self.subpaths), ("id", "qr-path"), ("fill", "#000000"), ("fill-opacity", "1"),
                    ("fill-rule", "nonzero"), ("stroke", "none")] }
      { img := self.img ++ [p], subpaths := [], path := some p } :=
  QR.SourceTieD4.svgPathProcess_src self

/-- `SvgPathImage.__init__`: `self._subpaths = []` before the base class constructor -/
theorem C13_source_svgPathInit_src (superInit : rd_SvgImg → rd_SvgImg) (self : rd_SvgImg) :
    rd_svg_path_init superInit self = superInit { self with subpaths := [] } :=
  QR.SourceTieD4.svgPathInit_src superInit self

/-- one cell of the loop: `drawrect_context` + the drawer's `drawrect` append (a rendering of) the Model's
    `drawShape` for that cell, with the eye drawer on the eyes, iff the module is dark -/
theorem C13_source_svgCell_src (isPath : Bool) (render : Nat × SvgShape → rd_Element) (renderP : Nat × SvgShape → String)
    (md ed : SvgDrawer) (M : Mods) (width border boxSize : Nat) (awn : Nat → Nat → Bool) (r c : Nat) (img : rd_SvgImg) :
    rd_drawrect_context border boxSize width ed md (needsNeighbors isPath) awn id M (svgDrawrect isPath render renderP boxSize) r c img
      = if (M.getD r []).getD c false then
          addAll isPath render renderP img
            [(let d := if isEye width r c then ed else md
              (2 * d.den, drawShape isPath d boxSize ((c + border) * boxSize) ((r + border) * boxSize)))]
        else img :=
  QR.SourceTieD4.svgCell_src isPath render renderP md ed M width border boxSize awn r c img

/-- `make_image` with an SVG factory (loop, `drawrect_context`, drawers' `drawrect`, `process`, class flags - all translated)
    = `Model.svgDoc`: element factories append the Model's shapes in the Model's order, path factories append one `<path>` whose
    `d` is the concatenation of the Model's subpaths in row-major order; inactive modules append nothing -/
theorem C13_source_svgDraw_src (f : SvgFactory) (render : Nat × SvgShape → rd_Element) (renderP : Nat × SvgShape → String)
    (md ed : SvgDrawer) (M : Mods) (width border boxSize : Nat) (awn : Nat → Nat → Bool)
    (drawrect : Nat → Nat → rd_SvgImg → rd_SvgImg) (img : rd_SvgImg) :
    makeImageDraw (factoryName f) width M
        (rd_drawrect_context border boxSize width ed md (needsNeighbors f.isPath) awn id M (svgDrawrect f.isPath render renderP boxSize))
        drawrect rd_svg_path_process img
      = let shapes := (svgDoc f md ed M width border boxSize).shapes
        if f.isPath then
          let p : rd_Element :=
            { tag := "path"
              attrs := [("d", "".intercalate (img.subpaths ++ shapes.map renderP)), ("id", "qr-path"), ("fill", "#000000"),
                        ("fill-opacity", "1"), ("fill-rule", "nonzero"), ("stroke", "none")] }
          { img := img.img ++ [p], subpaths := [], path := some p }
        else { img with img := img.img ++ shapes.map render } :=
  QR.SourceTieD4.svgDraw_src f render renderP md ed M width border boxSize awn drawrect img

/-- a freshly constructed path image (`SvgPathImage.__init__` + `make_image`): the `d` attribute of `self.path` is exactly the
    concatenation of the subpaths of `Model.svgDoc`'s shapes -/
theorem C13_source_svgPathD_src (f : SvgFactory) (hf : f.isPath = true) (render : Nat × SvgShape → rd_Element)
    (renderP : Nat × SvgShape → String) (md ed : SvgDrawer) (M : Mods) (width border boxSize : Nat) (awn : Nat → Nat → Bool)
    (drawrect : Nat → Nat → rd_SvgImg → rd_SvgImg) (superInit : rd_SvgImg → rd_SvgImg) (self : rd_SvgImg)
    (hsuper : (superInit { self with subpaths := [] }).subpaths = []) :
    ((makeImageDraw (factoryName f) width M
        (rd_drawrect_context border boxSize width ed md (needsNeighbors f.isPath) awn id M (svgDrawrect f.isPath render renderP boxSize))
        drawrect rd_svg_path_process (rd_svg_path_init superInit self)).path.map fun p => p.attrs.lookup "d")
      = some (some ("".intercalate ((svgDoc f md ed M width border boxSize).shapes.map renderP))) :=
  QR.SourceTieD4.svgPathD_src f hf render renderP md ed M width border boxSize awn drawrect superInit self hsuper

/-- `BaseImageWithDrawer.get_drawer`: None / drawer object / alias looked up in `self.drawer_aliases` (closed form) -/
theorem C13_source_getDrawer_src {D : Type} (aliases : String → Option D) (a : rd_DrawerArg D) :
    rd_get_drawer aliases a =
      match a with
      | .none => .ok none
      | .obj d => .ok (some d)
      | .str s => (aliases s).elim (.error "KeyError") (fun d => .ok (some d)) :=
  QR.SourceTieD4.getDrawer_src aliases a

/-- `BaseImageWithDrawer.__init__`: module drawer = resolved `module_drawer` or the default module drawer, eye drawer = resolved
    `eye_drawer` or the default eye drawer, both set before `super().__init__` (closed form) -/
theorem C13_source_withDrawerInit_src {D A : Type} (getDrawer : A → Option D) (dm de : D)
    (superInit : rd_Drawers D → rd_Drawers D) (m e : A) (self : rd_Drawers D) :
    rd_with_drawer_init getDrawer dm de superInit m e self =
      superInit { module_drawer := (getDrawer m).getD dm, eye_drawer := (getDrawer e).getD de } :=
  QR.SourceTieD4.withDrawerInit_src getDrawer dm de superInit m e self

/-- `BaseImageWithDrawer.init_new_image`: the two `initialize(img=self)` calls, module drawer first -/
theorem C13_source_initNewImage_literals :
    rd_init_new_image_calls = ["self.module_drawer.initialize", "self.eye_drawer.initialize"] :=
  QR.SourceTieD4.initNewImage_literals

/-- which class's drawrect / drawrect_context / process / init_new_image / __init__ each factory runs -/
theorem C13_source_classMethods_literals :
    rd_class_methods.lookup "PilImage" = some ["PilImage", "BaseImage", "BaseImage", "BaseImage", "BaseImage"] ∧
    rd_class_methods.lookup "SvgImage"
      = some ["BaseImage", "BaseImageWithDrawer", "BaseImage", "BaseImageWithDrawer", "SvgFragmentImage"] ∧
    rd_class_methods.lookup "SvgFragmentImage" = rd_class_methods.lookup "SvgImage" ∧
    rd_class_methods.lookup "SvgFillImage" = rd_class_methods.lookup "SvgImage" ∧
    rd_class_methods.lookup "SvgPathImage"
      = some ["BaseImage", "BaseImageWithDrawer", "SvgPathImage", "BaseImageWithDrawer", "SvgPathImage"] ∧
    rd_class_methods.lookup "SvgPathFillImage" = rd_class_methods.lookup "SvgPathImage" :=
  QR.SourceTieD4.classMethods_literals

/-- `SvgImage._svg` (root, `xmlns`, background rectangle appended before any module, return), `SvgPathImage._svg`,
    `SvgFragmentImage.to_string` / `new_image`: statement order and callees -/
theorem C13_source_svgImage_literals :
    rd_svg_image_svg_steps = ["svg = super()._svg(tag=tag, **kwargs)", "svg.set('xmlns', self._SVG_namespace)",
      "if self.background", "svg.append", "return svg"] ∧
    rd_svg_image_svg_tag_default = "svg" ∧
    rd_svg_path_svg_return = "super()._svg(viewBox=viewBox, **kwargs)" ∧
    rd_svg_to_string_returns = "ET.tostring(self._img, **kwargs)" ∧
    rd_svg_new_image_returns = "self._svg(**kwargs)" :=
  QR.SourceTieD4.svgImage_literals

/-- `ActiveWithNeighbors.__bool__` returns the centre flag `self.me` (the truth value a drawer's `if not is_active` sees) -/
theorem C13_source_activeWithNeighbors_bool_literal : rd_active_with_neighbors_bool = "self.me" :=
  QR.SourceTieD4.activeWithNeighbors_bool_literal

end SourceTieD4

/-! ### Capstones: (bridge) + (property) composed - the TRANSLATED SVG draw code itself emits one correctly placed shape per dark
module (`Spec.shapesOK`). -/
section Capstone
open QR.Gen.Code QR.SourceTieB QR.SourceTieD4

/-- **capstone, element factories (`SvgFragmentImage`, `SvgImage`, `SvgFillImage`): `main.py:QRCode.make_image` (draw loop, class
    flags) + `image/base.py:BaseImageWithDrawer.drawrect_context` (with `is_eye`, `pixel_box`) +
    `image/styles/moduledrawers/svg.py:SvgQRModuleDrawer.drawrect`** (all translated).  Partly translated chain: the drawer's
    `self.el(box)` is the parameter `render` applied to the Model's `drawShape` (tied to the translated `coords` / `el` separately by
    `C13_source_drawShape_src`); `render` (XML serialisation) is arbitrary.  The elements appended to the document are
    `shapes.map render` for a list `shapes` that satisfies `Spec.shapesOK` - exactly one shape per dark module in row-major
    order, none for light modules, each centred on its module's cell and not larger than it - and has as many entries as
    there are dark modules.  From `C13_source_svgDraw_src`, `C13_shapes`, `C13_count`. -/
theorem C13_source_capstone_svg_elements (f : SvgFactory) (hf : f.isPath = false) (render : Nat × SvgShape → rd_Element)
    (renderP : Nat × SvgShape → String) (md ed : SvgDrawer) (M : Mods) (n border box : Nat) (awn : Nat → Nat → Bool)
    (drawrect : Nat → Nat → rd_SvgImg → rd_SvgImg) (img : rd_SvgImg) (hm : md.num ≤ md.den) (he : ed.num ≤ ed.den) :
    ∃ shapes : List (Nat × SvgShape),
      (makeImageDraw (factoryName f) n M
        (rd_drawrect_context border box n ed md (needsNeighbors f.isPath) awn id M (svgDrawrect f.isPath render renderP box))
        drawrect rd_svg_path_process img).img = img.img ++ shapes.map render ∧
      Spec.shapesOK M n border box (shapes.map Proofs.Svg.blobOf) = true ∧
      shapes.length = (Spec.darkCells M n).length := by
  refine ⟨(svgDoc f md ed M n border box).shapes, ?_, C13_shapes f md ed M n border box hm he, C13_count f md ed M n border box⟩
  rw [C13_source_svgDraw_src]
  simp only [hf]
  rfl

/-- **capstone, path factories (`SvgPathImage`, `SvgPathFillImage`): `image/svg.py:SvgPathImage.__init__` + `make_image` (draw
    loop) + `drawrect_context` + `svg.py:SvgPathQRModuleDrawer.drawrect` + `image/svg.py:SvgPathImage.process`** (all
    translated; the drawer's `self.subpath(box)` is the parameter `renderP` applied to the Model's `drawShape`, as above; the
    base-class constructor `superInit` must leave `_subpaths` empty): the `d` attribute of the final `<path>` is the
    concatenation of `shapes.map renderP` for a list `shapes` satisfying `Spec.shapesOK`, one entry per dark module.
    From `C13_source_svgPathD_src`, `C13_shapes`, `C13_count`. -/
theorem C13_source_capstone_svg_path (f : SvgFactory) (hf : f.isPath = true) (render : Nat × SvgShape → rd_Element)
    (renderP : Nat × SvgShape → String) (md ed : SvgDrawer) (M : Mods) (n border box : Nat) (awn : Nat → Nat → Bool)
    (drawrect : Nat → Nat → rd_SvgImg → rd_SvgImg) (superInit : rd_SvgImg → rd_SvgImg) (self : rd_SvgImg)
    (hsuper : (superInit { self with subpaths := [] }).subpaths = []) (hm : md.num ≤ md.den) (he : ed.num ≤ ed.den) :
    ∃ shapes : List (Nat × SvgShape),
      ((makeImageDraw (factoryName f) n M
        (rd_drawrect_context border box n ed md (needsNeighbors f.isPath) awn id M (svgDrawrect f.isPath render renderP box))
        drawrect rd_svg_path_process (rd_svg_path_init superInit self)).path.map fun p => p.attrs.lookup "d")
        = some (some ("".intercalate (shapes.map renderP))) ∧
      Spec.shapesOK M n border box (shapes.map Proofs.Svg.blobOf) = true ∧
      shapes.length = (Spec.darkCells M n).length :=
  ⟨(svgDoc f md ed M n border box).shapes,
    C13_source_svgPathD_src f hf render renderP md ed M n border box awn drawrect superInit self hsuper,
    C13_shapes f md ed M n border box hm he, C13_count f md ed M n border box⟩

/-- **capstone, the shape list itself** as it is assembled from the translated `image/base.py:BaseImage.is_eye`, `pixel_box` (and
    `pixel_size` for the document size) - the right-hand side of `C13_source_svgDoc_src`, with the drawers' shape function the
    Model's `drawShape`: it satisfies `Spec.shapesOK` for every factory, drawers of ratio ≤ 1, matrix, width, border and box
    size.  From `C13_source_svgDoc_src`, `C13_shapes`. -/
theorem C13_source_capstone_shapes (f : SvgFactory) (md ed : SvgDrawer) (M : Mods) (n border box : Nat)
    (hm : md.num ≤ md.den) (he : ed.num ≤ ed.den) :
    Spec.shapesOK M n border box
      (((List.range n).flatMap fun r => (List.range n).filterMap fun c =>
          if (M.getD r []).getD c false then
            let d := if is_eye n r c then ed else md
            let bx := pixel_box border box r c
            some (2 * d.den, drawShape f.isPath d box bx.1.1 bx.1.2)
          else none).map Proofs.Svg.blobOf) = true := by
  have h := C13_shapes f md ed M n border box hm he
  rw [C13_source_svgDoc_src] at h
  exact h

/-- the translated loop run on the 9 x 9 matrix of the non-vacuity example above (6 dark modules, inside and outside the eyes),
    element factory `SvgImage`, gapped-circle module drawer, square eye drawer: 6 elements appended -/
example :
    let M : Mods := (List.range 9).map fun r => (List.range 9).map fun c => r == c && r % 2 == 0 || (r == 7 && c == 8)
    let img := makeImageDraw "SvgImage" 9 M
        (rd_drawrect_context 4 10 9 ⟨.square, 1, 1⟩ ⟨.circle, 4, 5⟩ (needsNeighbors false) (fun _ _ => false) id M
          (svgDrawrect false (fun p => { tag := "shape", attrs := [("den", toString p.1)] }) (fun _ => "") 10))
        (fun _ _ i => i) rd_svg_path_process { img := [], subpaths := [], path := none }
    img.img.length = 6 := by decide
end Capstone

/-- the Python functions this property's model mirrors have, in /repo's current working tree, exactly the normalised
    ASTs the model was written and validated against (fingerprints regenerated by T1 on every run) -/
theorem C13_source_fingerprints : QR.Gen.fp_C13 = QR.Pinned.fp_C13 := by decide

/-! ### `units`: the printed length denotes the half-even quantised value -/

/-- **C13 (units, text)**: `units(pixels)` for `pixels = num/den` is a decimal literal followed by "mm", and the literal -
    read by the strict reader `Proofs.Units.parseThousandths` (digits, optionally a point and one to three decimals;
    value in thousandths) - denotes exactly `roundHalfEven (100*num) den` thousandths of a millimetre; in general
    every `fmtThousandths t` reads back to `t`, so different quantised values print differently -/
theorem C13_units_roundtrip :
    (∀ t : Nat, Proofs.Units.parseThousandths (fmtThousandths t) = some t) ∧
    (∀ a b : Nat, fmtThousandths a = fmtThousandths b → a = b) ∧
    (∀ num den : Nat, units num den = fmtThousandths (roundHalfEven (100 * num) den) ++ "mm" ∧
      Proofs.Units.parseThousandths (fmtThousandths (roundHalfEven (100 * num) den)) =
        some (roundHalfEven (100 * num) den)) :=
  ⟨Proofs.Units.parse_fmt, fun _ _ h => Proofs.Units.fmtThousandths_injective h,
    fun _ _ => ⟨rfl, Proofs.Units.parse_fmt _⟩⟩

/-- **C13 (units, rounding)**: the quantised value `q = roundHalfEven a b` is within half a unit of `a / b`:
    `|q*b - a| ≤ b/2`, stated without division -/
theorem C13_units_close (a b : Nat) (hb : 0 < b) :
    2 * (roundHalfEven a b * b) ≤ 2 * a + b ∧ 2 * a ≤ 2 * (roundHalfEven a b * b) + b :=
  Proofs.Units.roundHalfEven_close a b hb

/-- **C13 (units, exactness)**: when `num/den` pixels is a whole number of thousandths of a millimetre (all default
    drawers at integer box sizes), nothing is lost by the rounding -/
theorem C13_units_exact (num den : Nat) (hd : 0 < den) (h : den ∣ 100 * num) :
    roundHalfEven (100 * num) den = 100 * num / den ∧ (100 * num / den) * den = 100 * num :=
  Proofs.Units.units_exact num den hd h

/-- instances: 10 px = "1mm", 25/2 px = "1.25mm", 1/3 px = 0.0333.. mm prints "0.033mm", ties go to even -/
example : units 10 1 = "1mm" ∧ units 25 2 = "1.25mm" ∧ units 1 3 = "0.033mm" ∧ units 1 200 = "0mm" ∧
    units 3 200 = "0.002mm" ∧ units 1230 1 = "123mm" ∧ units 101 10 = "1.01mm" := by decide

end QR.Props
