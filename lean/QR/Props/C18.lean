import QR.Model.QRObject
import QR.Proofs.Except
import QR.Proofs.History
import QR.Proofs.SourceTieC18
import QR.Proofs.Pinned
/-
C18 - out-of-range settings are rejected, in-range settings accepted (all integers), and nothing is produced under an
out-of-range setting (invariant over operation sequences of any length).
-/
namespace QR.Props
open QR QR.Model

/-- version: rejected with ValueError iff outside 1..40 (construction uses the same setter) -/
theorem C18_version (x : Int) : checkVersion x = .error .valueError ↔ x < 1 ∨ 40 < x := by
  unfold checkVersion; split <;> simp_all

theorem C18_version_ok (x : Int) : checkVersion x = .ok () ↔ 1 ≤ x ∧ x ≤ 40 := by
  unfold checkVersion; split <;> simp_all <;> omega

/-- mask pattern: None accepted, integers rejected with ValueError iff outside 0..7 -/
theorem C18_mask (x : Int) : checkMaskPattern (some x) = .error .valueError ↔ x < 0 ∨ 7 < x := by
  simp only [checkMaskPattern]; split <;> simp_all <;> omega

theorem C18_mask_none : checkMaskPattern none = .ok () := rfl

/-- border: rejected iff negative -/
theorem C18_border (x : Int) : checkBorder x = .error .valueError ↔ x < 0 := by
  unfold checkBorder; split <;> simp_all

/-- box size: rejected iff not positive -/
theorem C18_box (x : Int) : checkBoxSize x = .error .valueError ↔ x ≤ 0 := by
  unfold checkBoxSize; split <;> simp_all

/-- the settings a state may hold when something is produced -/
def SettingsOK (s : QRState) : Prop := s.version ≤ 40 ∧ (∀ m, s.mask = some m → m ≤ 7)

/-- construction: succeeds iff every argument is in range, and then stores exactly those values -/
theorem C18_construct (version : Option Int) (level : Nat) (box border : Int) (mask : Option Int) :
    (∃ s, construct version level box border mask = .ok s) ↔
      (0 < box ∧ 0 ≤ border ∧ (∀ v, version = some v → 1 ≤ v ∧ v ≤ 40) ∧ (∀ m, mask = some m → 0 ≤ m ∧ m ≤ 7)) := by
  unfold construct checkBoxSize checkBorder checkMaskPattern checkVersion
  cases version <;> cases mask <;> simp <;> (repeat' split) <;> simp_all <;> omega

/-! ### nothing is produced under an out-of-range setting (proofs: QR/Proofs/History.lean)

`GInv g` is the invariant of the process-wide blank cache (`Props.Global.Inv` of C11, which every operation preserves and
the empty cache satisfies); `CacheInv s` says that a filled `data_cache` goes with a `modules_count` of a real version. -/

theorem SettingsOK_iff (s : QRState) : SettingsOK s ↔ SettingsInv s := Iff.rfl

/-- a constructed object satisfies the invariants -/
theorem C18_constructed (version : Option Int) (level : Nat) (box border : Int) (mask : Option Int) (s0 : QRState)
    (h : construct version level box border mask = .ok s0) : SettingsOK s0 ∧ CacheInv s0 ∧ 0 < s0.boxSize :=
  construct_inv h

/-- every operation keeps the settings in range (setters validate; `best_fit` only stores checked versions) and keeps
    the two cache invariants -/
theorem C18_step (g : Global) (hg : GInv g) (s : QRState) (op : Op) :
    GInv (step (g, s) op).1.1 ∧ (SettingsOK s → SettingsOK (step (g, s) op).1.2) ∧
      (CacheInv s → CacheInv (step (g, s) op).1.2) := by
  obtain ⟨a1, a2, a3, a4⟩ := step_inv g s op hg
  exact ⟨a1, fun hs => ⟨a2 hs.1, a3 hs.2⟩, a4⟩

/-- ... hence so does every sequence of operations -/
theorem C18_run (ops : List Op) (g : Global) (hg : GInv g) (s : QRState) :
    GInv (run (g, s) ops).1.1 ∧ (SettingsOK s → SettingsOK (run (g, s) ops).1.2) ∧
      (CacheInv s → CacheInv (run (g, s) ops).1.2) := by
  obtain ⟨a1, a2, a3, a4⟩ := run_inv ops g s hg
  exact ⟨a1, fun hs => ⟨a2 hs.1, a3 hs.2⟩, a4⟩

/-- **C18**: the `k`-th output of any run, if it is a matrix, an image or a text, was handed out in a state (`post`,
    the state right after the `k`-th operation, i.e. after its implicit compile) with `version ≤ 40`, mask `None` or
    `≤ 7`, a compiled matrix whose size is that of a real version `1..40`, and - for an image - `box_size > 0`; the
    output carries exactly that state's matrix, border, size and box size.
    `1 ≤ version` holds as soon as the operation compiled (`data_cache` was empty) or `version` was not `None` before;
    it does NOT hold in general: see `C18_version_none_after_compile`. -/
theorem C18_never (ops : List Op) (g0 : Global) (hg : GInv g0) (s0 : QRState) (hs : SettingsOK s0) (hc : CacheInv s0)
    (k : Nat) (o : Out) (h : (run (g0, s0) ops).2[k]? = some o) :
    let pre := (run (g0, s0) (ops.take k)).1.2
    let post := (run (g0, s0) (ops.take (k + 1))).1.2
    let produced := post.version ≤ 40 ∧ (∀ m, post.mask = some m → m ≤ 7) ∧ post.dataCache.isSome = true ∧
      ∃ v, 1 ≤ v ∧ v ≤ 40 ∧ post.modulesCount = v * 4 + 17
    let versionSet := pre.dataCache = none ∨ pre.version ≠ 0 → 1 ≤ post.version
    match o with
    | .matrix m => produced ∧ versionSet ∧ m = framedOpt post.modules.toLists post.border
    | .image b n bs m => produced ∧ versionSet ∧ 0 < post.boxSize ∧ b = post.border ∧ n = post.modulesCount ∧
        bs = post.boxSize ∧ m = post.modules.toLists
    | .text b m => produced ∧ versionSet ∧ (b = post.border ∨ b = 1) ∧ m = post.modules.toLists
    | _ => True := by
  have := run_out ops g0 s0 hg hs hc k o h
  cases o <;> exact this

/-- the outputs that hand something out -/
def isProduct : Out → Bool
  | .matrix _ => true
  | .image .. => true
  | .text .. => true
  | _ => false

/-- ... in particular for every constructed object, from the empty process cache -/
theorem C18_never_constructed (version : Option Int) (level : Nat) (box border : Int) (mask : Option Int)
    (s0 : QRState) (hcon : construct version level box border mask = .ok s0) (ops : List Op)
    (k : Nat) (o : Out) (h : (run ({ blanks := [] }, s0) ops).2[k]? = some o) (ho : isProduct o = true) :
    (run ({ blanks := [] }, s0) (ops.take (k + 1))).1.2.version ≤ 40 ∧
    (∀ m, (run ({ blanks := [] }, s0) (ops.take (k + 1))).1.2.mask = some m → m ≤ 7) ∧
    (∃ v, 1 ≤ v ∧ v ≤ 40 ∧ (run ({ blanks := [] }, s0) (ops.take (k + 1))).1.2.modulesCount = v * 4 + 17) ∧
    (∀ b n bs m, o = .image b n bs m → 0 < bs) := by
  have hempty : GInv { blanks := [] } := by intro v b hl; simp at hl
  have := run_out ops _ s0 hempty (construct_inv hcon).1 (construct_inv hcon).2.1 k o h
  cases o with
  | matrix m => exact ⟨this.1.1, this.1.2.1, this.1.2.2.2, fun _ _ _ _ he => by cases he⟩
  | image b n bs m =>
    obtain ⟨a1, _, a3, _, _, a6, _⟩ := this
    refine ⟨a1.1, a1.2.1, a1.2.2.2, fun _ _ bs' _ he => ?_⟩
    injection he with _ _ he _
    subst he
    rw [a6]; exact a3
  | text b m => exact ⟨this.1.1, this.1.2.1, this.1.2.2.2, fun _ _ _ _ he => by cases he⟩
  | unit => cases ho
  | err e => cases ho

/-- why `1 ≤ version` cannot be claimed unconditionally: `qr.version = None` after a compile does not clear the data
    cache, so `get_matrix()` hands out the stored matrix while `version` is `None` (0 in the model) -/
theorem C18_version_none_after_compile (g : Global) (s : QRState) (d : List Nat) (h : s.dataCache = some d) :
    (run (g, s) [.setVersion none, .getMatrix]).2 = [.unit, .matrix (framedOpt s.modules.toLists s.border)] ∧
    (run (g, s) [.setVersion none, .getMatrix]).1.2.version = 0 := by
  simp [run, step, ensureMade, h]

/-! ### tie to the source: the model's expressions are the ones translated from the current Python AST (T2) -/

/-- the four validators raise exactly under the conditions that stand in the source now -/
theorem C18_source_validators (x : Int) :
    (checkVersion x = if Gen.Code.check_version_bad x then .error .valueError else .ok ()) ∧
    (checkBoxSize x = if Gen.Code.check_box_size_bad x then .error .valueError else .ok ()) ∧
    (checkBorder x = if Gen.Code.check_border_bad x then .error .valueError else .ok ()) ∧
    (checkMaskPattern (some x) = if Gen.Code.check_mask_pattern_bad x then .error .valueError else .ok ()) :=
  ⟨QR.SourceTie.checkVersion_eq x, QR.SourceTie.checkBoxSize_eq x, QR.SourceTie.checkBorder_eq x, QR.SourceTie.checkMask_eq x⟩

/-- the Python functions this property's model mirrors have, in /repo's current working tree, exactly the normalised
    ASTs the model was written and validated against (fingerprints regenerated by T1 on every run) -/
theorem C18_source_fingerprints : QR.Gen.fp_C18 = QR.Pinned.fp_C18 := by decide

end QR.Props
