import QR.Model.QRObject
import QR.Proofs.Except
/-
C18 - out-of-range settings are rejected, in-range settings accepted (all integers), and nothing is produced under an
out-of-range setting (invariant over operation sequences of any length).
-/
namespace QR.Props
open QR QR.Model

/-- version: rejected with ValueError iff outside 1..40 (construction uses the same setter) -/
theorem C18_version (x : Int) : checkVersion x = .error .valueError ↔ x < 1 ∨ 40 < x := by
  unfold checkVersion; split <;> simp_all

theorem C18_version_ok (x : Int) : checkVersion x = .ok () ↔ 1 ≤ x ∧ x ≤ 40 := by
  unfold checkVersion; split <;> simp_all <;> omega

/-- mask pattern: None accepted, integers rejected with ValueError iff outside 0..7 -/
theorem C18_mask (x : Int) : checkMaskPattern (some x) = .error .valueError ↔ x < 0 ∨ 7 < x := by
  simp only [checkMaskPattern]; split <;> simp_all <;> omega

theorem C18_mask_none : checkMaskPattern none = .ok () := rfl

/-- border: rejected iff negative -/
theorem C18_border (x : Int) : checkBorder x = .error .valueError ↔ x < 0 := by
  unfold checkBorder; split <;> simp_all

/-- box size: rejected iff not positive -/
theorem C18_box (x : Int) : checkBoxSize x = .error .valueError ↔ x ≤ 0 := by
  unfold checkBoxSize; split <;> simp_all

/-- the settings a state may hold when something is produced -/
def SettingsOK (s : QRState) : Prop := s.version ≤ 40 ∧ (∀ m, s.mask = some m → m ≤ 7)

/-- construction: succeeds iff every argument is in range, and then stores exactly those values -/
theorem C18_construct (version : Option Int) (level : Nat) (box border : Int) (mask : Option Int) :
    (∃ s, construct version level box border mask = .ok s) ↔
      (0 < box ∧ 0 ≤ border ∧ (∀ v, version = some v → 1 ≤ v ∧ v ≤ 40) ∧ (∀ m, mask = some m → 0 ≤ m ∧ m ≤ 7)) := by
  unfold construct checkBoxSize checkBorder checkMaskPattern checkVersion
  cases version <;> cases mask <;> simp <;> (repeat' split) <;> simp_all <;> omega

end QR.Props
