import QR.Proofs.SourceTieD2b
import QR.Model.QRObject
import QR.Proofs.Except
import QR.Proofs.History
import QR.Proofs.SourceTieC18
import QR.Proofs.Pinned
import QR.Proofs.CapstoneE3
import QR.Proofs.CapstoneE5
/-
C18 - out-of-range settings are rejected, in-range settings accepted (all integers), and nothing is produced under an
out-of-range setting (invariant over operation sequences of any length).
-/
namespace QR.Props
open QR QR.Model

/-- version: rejected with ValueError iff outside 1..40 (construction uses the same setter) -/
theorem C18_version (x : Int) : checkVersion x = .error .valueError ↔ x < 1 ∨ 40 < x := by
  unfold checkVersion; split <;> simp_all

theorem C18_version_ok (x : Int) : checkVersion x = .ok () ↔ 1 ≤ x ∧ x ≤ 40 := by
  unfold checkVersion; split <;> simp_all <;> omega

/-- mask pattern: None accepted, integers rejected with ValueError iff outside 0..7 -/
theorem C18_mask (x : Int) : checkMaskPattern (some x) = .error .valueError ↔ x < 0 ∨ 7 < x := by
  simp only [checkMaskPattern]; split <;> simp_all <;> omega

theorem C18_mask_none : checkMaskPattern none = .ok () := rfl

/-- border: rejected iff negative -/
theorem C18_border (x : Int) : checkBorder x = .error .valueError ↔ x < 0 := by
  unfold checkBorder; split <;> simp_all

/-- box size: rejected iff not positive -/
theorem C18_box (x : Int) : checkBoxSize x = .error .valueError ↔ x ≤ 0 := by
  unfold checkBoxSize; split <;> simp_all

/-- the settings a state may hold when something is produced -/
def SettingsOK (s : QRState) : Prop := s.version ≤ 40 ∧ (∀ m, s.mask = some m → m ≤ 7)

/-- construction: succeeds iff every argument is in range, and then stores exactly those values -/
theorem C18_construct (version : Option Int) (level : Nat) (box border : Int) (mask : Option Int) :
    (∃ s, construct version level box border mask = .ok s) ↔
      (0 < box ∧ 0 ≤ border ∧ (∀ v, version = some v → 1 ≤ v ∧ v ≤ 40) ∧ (∀ m, mask = some m → 0 ≤ m ∧ m ≤ 7)) := by
  unfold construct checkBoxSize checkBorder checkMaskPattern checkVersion
  cases version <;> cases mask <;> simp <;> (repeat' split) <;> simp_all <;> omega

/-! ### nothing is produced under an out-of-range setting (proofs: QR/Proofs/History.lean)

`GInv g` is the invariant of the process-wide blank cache (`Props.Global.Inv` of C11, which every operation preserves and
the empty cache satisfies); `CacheInv s` says that a filled `data_cache` goes with a `modules_count` of a real version. -/

theorem SettingsOK_iff (s : QRState) : SettingsOK s ↔ SettingsInv s := Iff.rfl

/-- a constructed object satisfies the invariants -/
theorem C18_constructed (version : Option Int) (level : Nat) (box border : Int) (mask : Option Int) (s0 : QRState)
    (h : construct version level box border mask = .ok s0) : SettingsOK s0 ∧ CacheInv s0 ∧ 0 < s0.boxSize :=
  construct_inv h

/-- every operation keeps the settings in range (setters validate; `best_fit` only stores checked versions) and keeps
    the two cache invariants -/
theorem C18_step (g : Global) (hg : GInv g) (s : QRState) (op : Op) :
    GInv (step (g, s) op).1.1 ∧ (SettingsOK s → SettingsOK (step (g, s) op).1.2) ∧
      (CacheInv s → CacheInv (step (g, s) op).1.2) := by
  obtain ⟨a1, a2, a3, a4⟩ := step_inv g s op hg
  exact ⟨a1, fun hs => ⟨a2 hs.1, a3 hs.2⟩, a4⟩

/-- ... hence so does every sequence of operations -/
theorem C18_run (ops : List Op) (g : Global) (hg : GInv g) (s : QRState) :
    GInv (run (g, s) ops).1.1 ∧ (SettingsOK s → SettingsOK (run (g, s) ops).1.2) ∧
      (CacheInv s → CacheInv (run (g, s) ops).1.2) := by
  obtain ⟨a1, a2, a3, a4⟩ := run_inv ops g s hg
  exact ⟨a1, fun hs => ⟨a2 hs.1, a3 hs.2⟩, a4⟩

/-- **C18**: the `k`-th output of any run, if it is a matrix, an image or a text, was handed out in a state (`post`,
    the state right after the `k`-th operation, i.e. after its implicit compile) with `version ≤ 40`, mask `None` or
    `≤ 7`, a compiled matrix whose size is that of a real version `1..40`, and - for an image - `box_size > 0`; the
    output carries exactly that state's matrix, border, size and box size.
    `1 ≤ version` holds as soon as the operation compiled (`data_cache` was empty) or `version` was not `None` before;
    it does NOT hold in general: see `C18_version_none_after_compile`. -/
theorem C18_never (ops : List Op) (g0 : Global) (hg : GInv g0) (s0 : QRState) (hs : SettingsOK s0) (hc : CacheInv s0)
    (k : Nat) (o : Out) (h : (run (g0, s0) ops).2[k]? = some o) :
    let pre := (run (g0, s0) (ops.take k)).1.2
    let post := (run (g0, s0) (ops.take (k + 1))).1.2
    let produced := post.version ≤ 40 ∧ (∀ m, post.mask = some m → m ≤ 7) ∧ post.dataCache.isSome = true ∧
      ∃ v, 1 ≤ v ∧ v ≤ 40 ∧ post.modulesCount = v * 4 + 17
    let versionSet := pre.dataCache = none ∨ pre.version ≠ 0 → 1 ≤ post.version
    match o with
    | .matrix m => produced ∧ versionSet ∧ m = framedOpt post.modules.toLists post.border
    | .image b n bs m => produced ∧ versionSet ∧ 0 < post.boxSize ∧ b = post.border ∧ n = post.modulesCount ∧
        bs = post.boxSize ∧ m = post.modules.toLists
    | .text b m => produced ∧ versionSet ∧ (b = post.border ∨ b = 1) ∧ m = post.modules.toLists
    | _ => True := by
  have := run_out ops g0 s0 hg hs hc k o h
  cases o <;> exact this

/-- the outputs that hand something out -/
def isProduct : Out → Bool
  | .matrix _ => true
  | .image .. => true
  | .text .. => true
  | _ => false

/-- ... in particular for every constructed object, from the empty process cache -/
theorem C18_never_constructed (version : Option Int) (level : Nat) (box border : Int) (mask : Option Int)
    (s0 : QRState) (hcon : construct version level box border mask = .ok s0) (ops : List Op)
    (k : Nat) (o : Out) (h : (run ({ blanks := [] }, s0) ops).2[k]? = some o) (ho : isProduct o = true) :
    (run ({ blanks := [] }, s0) (ops.take (k + 1))).1.2.version ≤ 40 ∧
    (∀ m, (run ({ blanks := [] }, s0) (ops.take (k + 1))).1.2.mask = some m → m ≤ 7) ∧
    (∃ v, 1 ≤ v ∧ v ≤ 40 ∧ (run ({ blanks := [] }, s0) (ops.take (k + 1))).1.2.modulesCount = v * 4 + 17) ∧
    (∀ b n bs m, o = .image b n bs m → 0 < bs) := by
  have hempty : GInv { blanks := [] } := by intro v b hl; simp at hl
  have := run_out ops _ s0 hempty (construct_inv hcon).1 (construct_inv hcon).2.1 k o h
  cases o with
  | matrix m => exact ⟨this.1.1, this.1.2.1, this.1.2.2.2, fun _ _ _ _ he => by cases he⟩
  | image b n bs m =>
    obtain ⟨a1, _, a3, _, _, a6, _⟩ := this
    refine ⟨a1.1, a1.2.1, a1.2.2.2, fun _ _ bs' _ he => ?_⟩
    injection he with _ _ he _
    subst he
    rw [a6]; exact a3
  | text b m => exact ⟨this.1.1, this.1.2.1, this.1.2.2.2, fun _ _ _ _ he => by cases he⟩
  | unit => cases ho
  | err e => cases ho

/-- why `1 ≤ version` cannot be claimed unconditionally: `qr.version = None` after a compile does not clear the data
    cache, so `get_matrix()` hands out the stored matrix while `version` is `None` (0 in the model) -/
theorem C18_version_none_after_compile (g : Global) (s : QRState) (d : List Nat) (h : s.dataCache = some d) :
    (run (g, s) [.setVersion none, .getMatrix]).2 = [.unit, .matrix (framedOpt s.modules.toLists s.border)] ∧
    (run (g, s) [.setVersion none, .getMatrix]).1.2.version = 0 := by
  simp [run, step, ensureMade, h]

/-! ### tie to the source: the model's expressions are the ones translated from the current Python AST (T2) -/

/-- the four validators raise exactly under the conditions that stand in the source now -/
theorem C18_source_validators (x : Int) :
    (checkVersion x = if Gen.Code.check_version_bad x then .error .valueError else .ok ()) ∧
    (checkBoxSize x = if Gen.Code.check_box_size_bad x then .error .valueError else .ok ()) ∧
    (checkBorder x = if Gen.Code.check_border_bad x then .error .valueError else .ok ()) ∧
    (checkMaskPattern (some x) = if Gen.Code.check_mask_pattern_bad x then .error .valueError else .ok ()) :=
  ⟨QR.SourceTie.checkVersion_eq x, QR.SourceTie.checkBoxSize_eq x, QR.SourceTie.checkBorder_eq x, QR.SourceTie.checkMask_eq x⟩

/-! ### Source tie, part 4 (T2 plugin `tools/t2_fragments/frag_d2.py`): the QRCode object's own methods, translated statement by
    statement from /repo's current Python AST (`QR.Gen.Code.ob_*`), against the Model. Restated verbatim from
    `QR/Proofs/SourceTieD2*.lean`. -/
section SourceTieD2
open QR.Model QR.Gen.Code QR.SourceTieD2

/-- `_check_box_size(size)` on an integer -/
theorem C18_source_checkBoxSize_src (x : Int) : ob_check_box_size (.int x) = liftR (checkBoxSize x) := by
  first | exact QR.SourceTieD2.checkBoxSize_src | (apply QR.SourceTieD2.checkBoxSize_src <;> assumption)

/-- `_check_box_size(size)` on the other types: `int(None)` / `int(other)` raise TypeError; `True` is 1, `False` is 0; a
    float is truncated first (so `box_size=0.5` is rejected, `box_size=1.5` accepted) -/
theorem C18_source_checkBoxSize_nonint_src :
    ob_check_box_size .none = .error "TypeError" ∧ ob_check_box_size .other = .error "TypeError" ∧
    ob_check_box_size (.bool true) = .ok () ∧ ob_check_box_size (.bool false) = .error "ValueError" ∧
    (∀ t, ob_check_box_size (.float t) = ob_check_box_size (.int t)) := by
  first | exact QR.SourceTieD2.checkBoxSize_nonint_src | (apply QR.SourceTieD2.checkBoxSize_nonint_src <;> assumption)

/-- `_check_border(size)` on an integer -/
theorem C18_source_checkBorder_src (x : Int) : ob_check_border (.int x) = liftR (checkBorder x) := by
  first | exact QR.SourceTieD2.checkBorder_src | (apply QR.SourceTieD2.checkBorder_src <;> assumption)

/-- `_check_border(size)` on the other types (`border=-0.5` is accepted: `int(-0.5) == 0`) -/
theorem C18_source_checkBorder_nonint_src :
    ob_check_border .none = .error "TypeError" ∧ ob_check_border .other = .error "TypeError" ∧
    (∀ b, ob_check_border (.bool b) = .ok ()) ∧ (∀ t, ob_check_border (.float t) = ob_check_border (.int t)) := by
  first | exact QR.SourceTieD2.checkBorder_nonint_src | (apply QR.SourceTieD2.checkBorder_nonint_src <;> assumption)

/-- `_check_mask_pattern(mask_pattern)` on `None` or an integer: the complete body (early return, isinstance test, range) -/
theorem C18_source_checkMaskPattern_src (x : Option Int) : ob_check_mask_pattern (optVal x) = liftR (checkMaskPattern x) := by
  first | exact QR.SourceTieD2.checkMaskPattern_src | (apply QR.SourceTieD2.checkMaskPattern_src <;> assumption)

/-- `_check_mask_pattern` on the other types: a float or another object is a TypeError; a `bool` IS an `int` instance and
    `True` / `False` are in range, so both are accepted -/
theorem C18_source_checkMaskPattern_nonint_src :
    (∀ t, ob_check_mask_pattern (.float t) = .error "TypeError") ∧ ob_check_mask_pattern .other = .error "TypeError" ∧
    (∀ b, ob_check_mask_pattern (.bool b) = .ok ()) := by
  first | exact QR.SourceTieD2.checkMaskPattern_nonint_src | (apply QR.SourceTieD2.checkMaskPattern_nonint_src <;> assumption)

/-- the getters of `border` and `mask_pattern` return the stored attribute -/
theorem C18_source_getters_src {F : Type} (fac : Option F) (s : QRState) :
    ob_get_border (toOb fac s) = (s.border : Int) ∧ ob_get_mask_pattern (toOb fac s) = optVal (s.mask.map Int.ofNat) := by
  first | exact QR.SourceTieD2.getters_src | (apply QR.SourceTieD2.getters_src <;> assumption)

/-- `self.version = value`: `None` is stored as it is; otherwise `int(value)`, `util.check_version`, store -/
theorem C18_source_setVersion_src {F : Type} (fac : Option F) (g : Global) (s : QRState) (x : Option Int) :
    Agrees fac g s (ob_set_version checkVersionOb (toOb fac s) (optVal x)) (step (g, s) (.setVersion x)) := by
  first | exact QR.SourceTieD2.setVersion_src | (apply QR.SourceTieD2.setVersion_src <;> assumption)

/-- `self.border = value`: `_check_border(value)`, then `int(value)` is stored -/
theorem C18_source_setBorder_src {F : Type} (fac : Option F) (g : Global) (s : QRState) (x : Int) :
    Agrees fac g s (ob_set_border (toOb fac s) (.int x)) (step (g, s) (.setBorder x)) := by
  first | exact QR.SourceTieD2.setBorder_src | (apply QR.SourceTieD2.setBorder_src <;> assumption)

/-- `self.mask_pattern = pattern`: `_check_mask_pattern(pattern)`, then the argument itself is stored -/
theorem C18_source_setMask_src {F : Type} (fac : Option F) (g : Global) (s : QRState) (x : Option Int) :
    Agrees fac g s (ob_set_mask_pattern (toOb fac s) (optVal x)) (step (g, s) (.setMask x)) := by
  first | exact QR.SourceTieD2.setMask_src | (apply QR.SourceTieD2.setMask_src <;> assumption)

/-- a bool passes the mask setter and is stored AS A BOOL (`qr.mask_pattern = True` leaves `_mask_pattern is True`); the
    Model's setter takes integers only -/
theorem C18_source_setMask_bool_src {D C F : Type} (o : ob_QR D C F) (b : Bool) :
    ob_set_mask_pattern o (.bool b) = .ok { o with _mask_pattern := .bool b } := by
  first | exact QR.SourceTieD2.setMask_bool_src | (apply QR.SourceTieD2.setMask_bool_src <;> assumption)

/-- **`QRCode.__init__`** on integer (or `None`) arguments = the Model's `construct`: the same checks in the same order
    (`_check_box_size`, `_check_border`, the `version` setter, `int(error_correction)`, `int(box_size)`, the `border`
    setter on `int(border)`, the `mask_pattern` setter, the factory assertion, `clear()`), the same exception class, the
    same resulting attributes - whatever the attributes were before (`self0`).  `fac` is the `image_factory` argument
    (absent from the Model); it must be `None` or a subclass of `BaseImage`. -/
theorem C18_source_construct_src {F : Type} (issub : F → Bool) (fac : Option F) (hf : ∀ f, fac = some f → issub f = true)
    (self0 : ob_QR Seg (List Nat) F) (version : Option Int) (level : Nat) (box border : Int) (mask : Option Int) :
    ob_init checkVersionOb issub self0 (optVal version) (.int level) (.int box) (.int border) fac (optVal mask) =
      liftR ((construct version level box border mask).map (toOb fac)) := by
  first | exact QR.SourceTieD2.construct_src | (apply QR.SourceTieD2.construct_src <;> assumption)

/-- texts recorded by the translator for `QRCode.make_image` (imports, raise message) and the field order of `ActiveWithNeighbors` -/
theorem C18_source_make_image_literals_src :
    ob_make_image_pure_import = "from qrcode.image.pure import PyPNGImage" ∧
    ob_make_image_import = "from qrcode.image.pil import Image, PilImage" ∧
    ob_make_image_raise0 =
      "ValueError('Error correction level must be ERROR_CORRECT_H if an embedded image is provided')" ∧
    ob_awn_fields = ["NW", "N", "NE", "W", "me", "E", "SW", "S", "SE"] ∧ ob_awn_bool_field = "me" := by
  first | exact QR.SourceTieD2.make_image_literals_src | (apply QR.SourceTieD2.make_image_literals_src <;> assumption)

/-- the factory selection, the call of the class and the draw loops, on any object -/
theorem C18_source_make_image_rest_src {D C F K W : Type} (issub : F → Bool) (Image : Bool) (PilImage PyPNGImage : F)
    (nd nc np : F → Bool) (w : W) (o : ob_QR D C F) (arg : Option F) (kwargs : List (String × K))
    (hf : ∀ f, arg = some f → issub f = true) :
    ob_make_image_rest issub Image PilImage PyPNGImage nd nc np w o arg kwargs =
      (let im : ob_Call F K :=
         { cls := chosenFactory Image PilImage PyPNGImage o.image_factory arg,
           pos := [o._border, (o.modules_count : Int), o.box_size], kw := [("qrcode_modules", o.modules)], star := kwargs }
       ((w, o), .ok (im, ob_make_image_draw nd nc np o im))) := by
  first | exact QR.SourceTieD2.make_image_rest_src | (apply QR.SourceTieD2.make_image_rest_src <;> assumption)

/-- an `image_factory` argument that is not a subclass of `BaseImage` fails the assertion - after the box-size check and
    the implicit compile (the Model has no factory argument) -/
theorem C18_source_make_image_rest_bad_factory_src {D C F K W : Type} (issub : F → Bool) (Image : Bool) (PilImage PyPNGImage : F)
    (nd nc np : F → Bool) (w : W) (o : ob_QR D C F) (f : F) (kwargs : List (String × K)) (hf : issub f = false) :
    ob_make_image_rest issub Image PilImage PyPNGImage nd nc np w o (some f) kwargs = ((w, o), .error "AssertionError") := by
  first | exact QR.SourceTieD2.make_image_rest_bad_factory_src | (apply QR.SourceTieD2.make_image_rest_bad_factory_src <;> assumption)

/-- **`make_image`** = the Model's `step .makeImage`: the box-size check on the CURRENT `box_size` attribute first, then the
    implicit compile when `data_cache is None`; the same exception class and state in the error cases; otherwise the image
    class receives exactly `(border, modules_count, box_size, qrcode_modules=modules, **kwargs)` of the state after the
    compile - the fields of the Model's `.image` output, in this order.
    Hypotheses: no embedded image in `kwargs` unless the level is H (the Model has no `kwargs`; see
    `make_image_embedded_src`), and the `image_factory` argument, if given, is a subclass of `BaseImage`. -/
theorem C18_source_makeImage_src {F K : Type} (issub : F → Bool) (truthy : K → Bool) (Image : Bool) (PilImage PyPNGImage : F)
    (nd nc np : F → Bool) (fac : Option F) (g : Global) (s : QRState) (arg : Option F) (kwargs : List (String × K))
    (hk : (ob_py_truthy_opt truthy (ob_py_kwargs_get kwargs "embeded_image_path") ||
            ob_py_truthy_opt truthy (ob_py_kwargs_get kwargs "embeded_image")) = false ∨ s.level = 2)
    (hf : ∀ f, arg = some f → issub f = true) :
    ob_make_image issub truthy Image PilImage PyPNGImage nd nc np (makeOb fac) g (toOb fac s) arg kwargs =
      match step (g, s) .makeImage with
      | (st', .err e) => ((st'.1, toOb fac st'.2), .error e.name)
      | (st', .image b n bs m) =>
        (let im : ob_Call F K :=
           { cls := chosenFactory Image PilImage PyPNGImage fac arg, pos := [(b : Int), (n : Int), bs],
             kw := [("qrcode_modules", m)], star := kwargs }
         ((st'.1, toOb fac st'.2), .ok (im, ob_make_image_draw nd nc np (toOb fac st'.2) im)))
      | (st', _) => ((st'.1, toOb fac st'.2), .error "unreachable") := by
  first | exact QR.SourceTieD2.makeImage_src | (apply QR.SourceTieD2.makeImage_src <;> assumption)

/-- the test the Model does not have: an embedded image (`embeded_image_path` or `embeded_image` truthy in `kwargs`) with a
    level other than `ERROR_CORRECT_H` (= 2, read from `constants.py`) is a ValueError BEFORE anything else happens -/
theorem C18_source_make_image_embedded_src {D C F K W : Type} (issub : F → Bool) (truthy : K → Bool) (Image : Bool)
    (PilImage PyPNGImage : F) (nd nc np : F → Bool) (mk : W × ob_QR D C F → (W × ob_QR D C F) × Except String Unit)
    (w : W) (o : ob_QR D C F) (arg : Option F) (kwargs : List (String × K))
    (hk : (ob_py_truthy_opt truthy (kwargs.lookup "embeded_image_path") ||
            ob_py_truthy_opt truthy (kwargs.lookup "embeded_image")) = true) (hl : o.error_correction ≠ 2) :
    ob_make_image issub truthy Image PilImage PyPNGImage nd nc np mk w o arg kwargs = ((w, o), .error "ValueError") := by
  first | exact QR.SourceTieD2.make_image_embedded_src | (apply QR.SourceTieD2.make_image_embedded_src <;> assumption)

/-- **the draw loop of `make_image`** for an image class that needs `drawrect` calls without context: the calls on the
    image are exactly `drawrect(r, c)` for the dark cells of the matrix in row-major order, followed by `process()` iff the
    class needs processing -/
theorem C18_source_make_image_draw_src {D C F K : Type} (nd nc np : F → Bool) (o : ob_QR D C F) (im : ob_Call F K)
    (hd : nd im.cls = true) (hc : nc im.cls = false) :
    ob_make_image_draw nd nc np o im =
      (darkCells o.modules o.modules_count).map
        (fun (p : Nat × Nat) => ({ method := "drawrect", args := [(p.1 : Int), (p.2 : Int)], kw := [] } : ob_Ev)) ++
      (if np im.cls then [({ method := "process", args := [], kw := [] } : ob_Ev)] else []) := by
  first | exact QR.SourceTieD2.make_image_draw_src | (apply QR.SourceTieD2.make_image_draw_src <;> assumption)

/-- with `needs_context` every cell gets a `drawrect_context(r, c, qr=self)`, dark or not -/
theorem C18_source_make_image_draw_context_src {D C F K : Type} (nd nc np : F → Bool) (o : ob_QR D C F) (im : ob_Call F K)
    (hd : nd im.cls = true) (hc : nc im.cls = true) :
    ob_make_image_draw nd nc np o im =
      (allCells o.modules_count).map
        (fun (p : Nat × Nat) => ({ method := "drawrect_context", args := [(p.1 : Int), (p.2 : Int)], kw := [("qr", "self")] } : ob_Ev)) ++
      (if np im.cls then [({ method := "process", args := [], kw := [] } : ob_Ev)] else []) := by
  first | exact QR.SourceTieD2.make_image_draw_context_src | (apply QR.SourceTieD2.make_image_draw_context_src <;> assumption)

/-- a class that does not need `drawrect` gets no draw call at all -/
theorem C18_source_make_image_draw_none_src {D C F K : Type} (nd nc np : F → Bool) (o : ob_QR D C F) (im : ob_Call F K)
    (hd : nd im.cls = false) :
    ob_make_image_draw nd nc np o im =
      (if np im.cls then [({ method := "process", args := [], kw := [] } : ob_Ev)] else []) := by
  first | exact QR.SourceTieD2.make_image_draw_none_src | (apply QR.SourceTieD2.make_image_draw_none_src <;> assumption)

/-- `is_constrained(row, col)` is the bounds test against the matrix -/
theorem C18_source_is_constrained_src {D C F : Type} (o : ob_QR D C F) (row col : Int) :
    ob_is_constrained o row col =
      decide (0 ≤ row ∧ row < o.modules.length ∧ 0 ≤ col ∧ col < (o.modules.getD row.toNat []).length) := by
  first | exact QR.SourceTieD2.is_constrained_src | (apply QR.SourceTieD2.is_constrained_src <;> assumption)

/-- the expression `active_with_neighbors` appends: `is_constrained(r, c) and bool(modules[r][c])` -/
theorem C18_source_awn_cell_src {D C F : Type} (o : ob_QR D C F) (r c : Int) (ctx : List Bool) :
    ob_awn_cell o r c ctx = ctx ++ [cellAt o.modules r c] := by
  first | exact QR.SourceTieD2.awn_cell_src | (apply QR.SourceTieD2.awn_cell_src <;> assumption)

/-- **`active_with_neighbors(row, col)`**: the nine values passed to `ActiveWithNeighbors(*context)` are the modules of the
    3x3 neighbourhood in the order NW, N, NE, W, me, E, SW, S, SE (`ob_awn_fields`, see `make_image_literals_src`), with
    everything outside the matrix `False` -/
theorem C18_source_awn_src {D C F : Type} (o : ob_QR D C F) (row col : Int) :
    ob_awn o row col =
      [cellAt o.modules (row - 1) (col - 1), cellAt o.modules (row - 1) col, cellAt o.modules (row - 1) (col + 1),
       cellAt o.modules row (col - 1), cellAt o.modules row col, cellAt o.modules row (col + 1),
       cellAt o.modules (row + 1) (col - 1), cellAt o.modules (row + 1) col, cellAt o.modules (row + 1) (col + 1)] := by
  first | exact QR.SourceTieD2.awn_src | (apply QR.SourceTieD2.awn_src <;> assumption)

end SourceTieD2

/-! ### Capstones: (bridge) + (property) composed - the TRANSLATED validators, constructor, setters and `make_image` themselves
reject exactly the out-of-range settings. -/
section Capstone
open QR.Gen.Code QR.SourceTieD2

/-- **capstone, `util.py:check_version`, `main.py:_check_box_size` / `_check_border` / `_check_mask_pattern`** (the raise
    conditions as translated from the AST, `Gen.Code.check_*_bad`): each validator raises exactly outside the documented range
    (version 1..40, box size > 0, border ≥ 0, mask 0..7), for all integers.
    From `C18_source_validators` and `C18_version`, `C18_box`, `C18_border`, `C18_mask`. -/
theorem C18_source_capstone_validators (x : Int) :
    (check_version_bad x = true ↔ x < 1 ∨ 40 < x) ∧ (check_box_size_bad x = true ↔ x ≤ 0) ∧
    (check_border_bad x = true ↔ x < 0) ∧ (check_mask_pattern_bad x = true ↔ x < 0 ∨ 7 < x) := by
  obtain ⟨h1, h2, h3, h4⟩ := C18_source_validators x
  refine ⟨?_, ?_, ?_, ?_⟩
  · rw [← C18_version, h1]; cases check_version_bad x <;> simp
  · rw [← C18_box, h2]; cases check_box_size_bad x <;> simp
  · rw [← C18_border, h3]; cases check_border_bad x <;> simp
  · rw [← C18_mask, h4]; cases check_mask_pattern_bad x <;> simp

/-- **capstone, `main.py:_check_box_size`, `_check_border`, `_check_mask_pattern`** (complete translated bodies `ob_check_*`, on an
    integer argument): ValueError iff out of range; `None` is an accepted mask pattern.
    From `C18_source_checkBoxSize_src`, `C18_source_checkBorder_src`, `C18_source_checkMaskPattern_src` and `C18_box`,
    `C18_border`, `C18_mask`, `C18_mask_none`. -/
theorem C18_source_capstone_check_methods (x : Int) :
    (ob_check_box_size (.int x) = .error "ValueError" ↔ x ≤ 0) ∧
    (ob_check_border (.int x) = .error "ValueError" ↔ x < 0) ∧
    (ob_check_mask_pattern (.int x) = .error "ValueError" ↔ x < 0 ∨ 7 < x) ∧
    ob_check_mask_pattern .none = .ok () := by
  refine ⟨?_, ?_, ?_, ?_⟩
  · rw [C18_source_checkBoxSize_src, QR.CapstoneE3.liftR_error_iff, C18_box]
  · rw [C18_source_checkBorder_src, QR.CapstoneE3.liftR_error_iff, C18_border]
  · rw [show ob_Val.int x = optVal (some x) from rfl, C18_source_checkMaskPattern_src, QR.CapstoneE3.liftR_error_iff, C18_mask]
  · rw [show ob_Val.none = optVal none from rfl, C18_source_checkMaskPattern_src, C18_mask_none]; rfl

/-- **capstone, `main.py:QRCode.__init__`** (translated `ob_init`, with the translated `_check_*`, setters and `clear`; the callee
    `util.check_version` is the parameter `checkVersionOb` = the Model's `checkVersion` on integers, tied to the source by
    `C18_source_validators`): on integer / `None` arguments the constructor returns an object iff every argument is in range.
    From `C18_source_construct_src`, `C18_construct`.  `fac` must be `None` or a subclass of `BaseImage` (`hf`). -/
theorem C18_source_capstone_construct {F : Type} (issub : F → Bool) (fac : Option F) (hf : ∀ f, fac = some f → issub f = true)
    (self0 : ob_QR Seg (List Nat) F) (version : Option Int) (level : Nat) (box border : Int) (mask : Option Int) :
    (∃ o, ob_init checkVersionOb issub self0 (optVal version) (.int level) (.int box) (.int border) fac (optVal mask) = .ok o) ↔
      (0 < box ∧ 0 ≤ border ∧ (∀ v, version = some v → 1 ≤ v ∧ v ≤ 40) ∧ (∀ m, mask = some m → 0 ≤ m ∧ m ≤ 7)) := by
  rw [C18_source_construct_src issub fac hf, ← C18_construct version level box border mask]
  cases construct version level box border mask with
  | ok s => simp [liftR, Except.map]
  | error e => simp [liftR, Except.map]
/-- **capstone, the property setters `main.py:QRCode.version` / `border` / `mask_pattern` (`@x.setter`)** (translated
    `ob_set_*`; `util.check_version` = `checkVersionOb` as above) on the object of any state: ValueError iff out of range,
    and an in-range value is stored (object of the state with that one field replaced).
    From `C18_source_setVersion_src`, `C18_source_setBorder_src`, `C18_source_setMask_src` and `C18_version`, `C18_border`,
    `C18_mask`. -/
theorem C18_source_capstone_setters {F : Type} (fac : Option F) (s : QRState) (x : Int) :
    (ob_set_version checkVersionOb (toOb fac s) (.int x) = .error "ValueError" ↔ x < 1 ∨ 40 < x) ∧
    (ob_set_border (toOb fac s) (.int x) = .error "ValueError" ↔ x < 0) ∧
    (ob_set_mask_pattern (toOb fac s) (.int x) = .error "ValueError" ↔ x < 0 ∨ 7 < x) ∧
    (1 ≤ x ∧ x ≤ 40 → ob_set_version checkVersionOb (toOb fac s) (.int x) = .ok (toOb fac { s with version := x.toNat })) ∧
    (0 ≤ x → ob_set_border (toOb fac s) (.int x) = .ok (toOb fac { s with border := x.toNat })) ∧
    (0 ≤ x ∧ x ≤ 7 → ob_set_mask_pattern (toOb fac s) (.int x) = .ok (toOb fac { s with mask := some x.toNat })) := by
  have hv := C18_source_setVersion_src fac ({ blanks := [] } : Global) s (some x)
  have hb := C18_source_setBorder_src fac ({ blanks := [] } : Global) s x
  have hm := C18_source_setMask_src fac ({ blanks := [] } : Global) s (some x)
  have kv := C18_version x
  have kv' := C18_version_ok x
  have kb := C18_border x
  have km := C18_mask x
  have kb' : checkBorder x = .ok () ↔ 0 ≤ x := by unfold checkBorder; split <;> simp_all
  have km' : checkMaskPattern (some x) = .ok () ↔ 0 ≤ x ∧ x ≤ 7 := by
    simp only [checkMaskPattern]; split <;> simp_all <;> omega
  simp only [Agrees, step, optVal] at hv hb hm
  refine ⟨?_, ?_, ?_, ?_, ?_, ?_⟩
  · cases hc : checkVersion x with
    | ok u => rw [hc] at hv kv; simp only at hv; rw [hv.1]; simp at kv ⊢; omega
    | error e => rw [hc] at hv; simp only at hv; rw [hv.1, ← kv, hc]; cases e <;> simp [Err.name]
  · cases hc : checkBorder x with
    | ok u => rw [hc] at hb kb; simp only at hb; rw [hb.1]; simp at kb ⊢; omega
    | error e => rw [hc] at hb; simp only at hb; rw [hb.1, ← kb, hc]; cases e <;> simp [Err.name]
  · cases hc : checkMaskPattern (some x) with
    | ok u => rw [hc] at hm km; simp only at hm; rw [hm.1]; simp at km ⊢; omega
    | error e => rw [hc] at hm; simp only at hm; rw [hm.1, ← km, hc]; cases e <;> simp [Err.name]
  · intro hx
    cases hc : checkVersion x with
    | ok u => rw [hc] at hv; exact hv.1
    | error e => exfalso; rw [kv'.2 hx] at hc; cases hc
  · intro hx
    cases hc : checkBorder x with
    | ok u => rw [hc] at hb; exact hb.1
    | error e =>
      exfalso; rw [kb'.2 hx] at hc; cases hc
  · intro hx
    cases hc : checkMaskPattern (some x) with
    | ok u => rw [hc] at hm; exact hm.1
    | error e =>
      exfalso; rw [km'.2 hx] at hc; cases hc
/-- **capstone, `main.py:QRCode.make_image`** (translated `ob_make_image`; the implicit compile `self.make()` is the parameter
    `makeOb fac` = the Model's `makeS true`): with a `box_size` attribute ≤ 0 nothing is produced - ValueError, state unchanged,
    before any compile.  From `C18_source_makeImage_src`, `C18_box`.  Hypotheses of the bridge kept: no embedded image unless
    level H (`hk`), factory argument a subclass of `BaseImage` (`hf`). -/
theorem C18_source_capstone_make_image_rejected {F K : Type} (issub : F → Bool) (truthy : K → Bool) (Image : Bool)
    (PilImage PyPNGImage : F) (nd nc np : F → Bool) (fac : Option F) (g : Global) (s : QRState) (arg : Option F)
    (kwargs : List (String × K))
    (hk : (ob_py_truthy_opt truthy (ob_py_kwargs_get kwargs "embeded_image_path") ||
            ob_py_truthy_opt truthy (ob_py_kwargs_get kwargs "embeded_image")) = false ∨ s.level = 2)
    (hf : ∀ f, arg = some f → issub f = true) (hbox : s.boxSize ≤ 0) :
    ob_make_image issub truthy Image PilImage PyPNGImage nd nc np (makeOb fac) g (toOb fac s) arg kwargs =
      ((g, toOb fac s), .error "ValueError") := by
  rw [C18_source_makeImage_src issub truthy Image PilImage PyPNGImage nd nc np fac g s arg kwargs hk hf]
  have hb := (C18_box s.boxSize).2 hbox
  simp only [step, hb]
  rfl

/-- **capstone, `main.py:QRCode.make_image`** (as above; partly translated chain: `make()` = `makeOb fac`): whenever the
    translated `make_image` hands an image out, from a state satisfying the invariants every constructed object keeps
    (`C18_constructed`, `C18_run`), the image class was called with `(border, modules_count, box_size)` where `box_size > 0` and
    `modules_count = 4 v + 17` for a real version `1 ≤ v ≤ 40`, these are the object's attributes after the call, and
    `qrcode_modules` is its matrix.  From `C18_source_makeImage_src`, `C18_never`. -/
theorem C18_source_capstone_make_image {F K : Type} (issub : F → Bool) (truthy : K → Bool) (Image : Bool)
    (PilImage PyPNGImage : F) (nd nc np : F → Bool) (fac : Option F) (g : Global) (hg : GInv g) (s : QRState)
    (hs : SettingsOK s) (hc : CacheInv s) (arg : Option F) (kwargs : List (String × K))
    (hk : (ob_py_truthy_opt truthy (ob_py_kwargs_get kwargs "embeded_image_path") ||
            ob_py_truthy_opt truthy (ob_py_kwargs_get kwargs "embeded_image")) = false ∨ s.level = 2)
    (hf : ∀ f, arg = some f → issub f = true)
    (st' : Global × ob_QR Seg (List Nat) F) (im : ob_Call F K) (evs : List ob_Ev)
    (h : ob_make_image issub truthy Image PilImage PyPNGImage nd nc np (makeOb fac) g (toOb fac s) arg kwargs =
      (st', .ok (im, evs))) :
    ∃ (b n v : Nat) (bs : Int), im.pos = [(b : Int), (n : Int), bs] ∧ 0 < bs ∧ 1 ≤ v ∧ v ≤ 40 ∧ n = v * 4 + 17 ∧
      st'.2.box_size = bs ∧ st'.2.modules_count = n ∧ st'.2._border = (b : Int) ∧ im.kw = [("qrcode_modules", st'.2.modules)] := by
  rw [C18_source_makeImage_src issub truthy Image PilImage PyPNGImage nd nc np fac g s arg kwargs hk hf] at h
  cases hst : step (g, s) .makeImage with
  | mk st o =>
    have hrun : run (g, s) [.makeImage] = (st, [o]) := by simp [run, hst]
    have hn := C18_never [.makeImage] g hg s hs hc 0 o (by rw [hrun]; rfl)
    simp only [List.take, hrun] at hn
    rw [hst] at h
    cases o with
    | image b n bs m =>
      simp only [Prod.mk.injEq, Except.ok.injEq] at h
      obtain ⟨h1, h2, h3⟩ := h
      obtain ⟨⟨_, _, _, v, hv1, hv2, hv3⟩, _, hpos, hb, hn', hbs, hm⟩ := hn
      subst h1 h2
      refine ⟨b, n, v, bs, rfl, ?_, hv1, hv2, ?_, ?_, ?_, ?_, ?_⟩
      · rw [hbs]; exact hpos
      · rw [hn']; exact hv3
      · simp [toOb, hbs]
      · simp [toOb, hn']
      · simp [toOb, hb]
      · simp [toOb, hm]
    | unit => simp at h
    | err e => simp at h
    | matrix m => simp at h
    | text b m => simp at h
/-- instances through the translated bodies: `box_size=0`, `border=-1`, `mask_pattern=8` are rejected, `mask_pattern=7` is not -/
example : ob_check_box_size (.int 0) = .error "ValueError" ∧ ob_check_border (.int (-1)) = .error "ValueError" ∧
    ob_check_mask_pattern (.int 8) = .error "ValueError" ∧ ob_check_mask_pattern (.int 7) ≠ .error "ValueError" :=
  ⟨(C18_source_capstone_check_methods 0).1.2 (by decide), (C18_source_capstone_check_methods (-1)).2.1.2 (by decide),
   (C18_source_capstone_check_methods 8).2.2.1.2 (by decide),
   fun h => absurd ((C18_source_capstone_check_methods 7).2.2.1.1 h) (by decide)⟩


/-! #### operation sequences executed by the translated code (`QR.CapstoneE5.stepSrc` / `runSrc`) -/
section CapstoneSeq
open QR.CapstoneE5

/-- **capstone, ANY sequence of operations executed by the TRANSLATED code** (`CapstoneE5.runSrc`, the fold of `stepSrc`:
    `main.py:QRCode.add_data` = `ob_add_data`, `clear` = `ob_clear`, `make` = `CapstoneE3.makeSrc`, the property setters `version` /
    `mask_pattern` / `border` = `ob_set_*` with the translated `_check_*`, `get_matrix` = `get_matrix_compile_test` + `make` +
    `get_matrix_early` / `get_matrix_code`, `make_image` = `ob_make_image`, `print_ascii` / `print_tty` = their translated
    implicit-compile tests + `make`, a compile by another object = `makeSrc`; `error_correction` / `box_size` are plain attribute
    assignments; the only Model fallback is `.mutateModules`, the CALLER writing into `qr.modules`; partly translated chain:
    `util.check_version` = `checkVersionOb`, the callees of `make` = the Model's `bestFitS`, `bestMaskS`, `makeImplS`) keeps the
    settings in range and keeps the two cache invariants: the run ends on the object of a state `s` (unique:
    `toOb_injective`) with `version ≤ 40`, mask `None` or `≤ 7`, and the invariants.
    From `CapstoneE5.runSrc_sim_gen` (induction over the single-step bridges), `C18_run`.  Hypotheses of the `make_image` bridge kept
    (`hk`, `CapstoneE5.EmbeddedOK`: no embedded image in `kwargs`, or level H throughout; `hf`: factory argument a subclass of `BaseImage`). -/
theorem C18_source_capstone_run {F K : Type} (E : ImgEnv F K)
    (hf : ∀ f, E.arg = some f → E.issub f = true) (fac : Option F) (ops : List Op) (g0 : Global) (hg : GInv g0)
    (s0 : QRState) (hk : EmbeddedOK E s0 ops) :
    ∃ g s outs, runSrc E (g0, toOb fac s0) ops = ((g, toOb fac s), outs) ∧ GInv g ∧ (SettingsOK s0 → SettingsOK s) ∧
      (CacheInv s0 → CacheInv s) := by
  have sim := runSrc_sim_gen E hf fac g0 hg s0 ops hk
  exact ⟨_, _, _, sim, C18_run ops g0 hg s0⟩

/-- **capstone (C18 itself), over ANY sequence of operations executed by the TRANSLATED code** (`runSrc`, as above) nothing is
    handed out under an out-of-range setting: the `k`-th output, if it is a matrix (`get_matrix`), an image (`make_image`: the
    call `im` of the image class and the draw calls `evs`) or a text (`print_ascii` / `print_tty`), was produced on an object
    `toOb fac post` (the object right after the `k`-th operation) with `version ≤ 40`, mask `None` or `≤ 7`, a filled data cache,
    `modules_count = 4 v + 17` for a real version `1 ≤ v ≤ 40`, and - for an image - `box_size > 0`; the matrix is that object's
    matrix framed by the translated `get_matrix_early` / `get_matrix_code`; the image class was called with exactly
    `(border, modules_count, box_size, qrcode_modules=modules, **kwargs)` of that object and drawn by the translated draw loop.
    `1 ≤ version` under the condition of `C18_never` (`pre` = the object before the `k`-th operation).
    From `CapstoneE5.runSrc_sim_gen`, `C18_never`, `SourceTieB.framedOpt_src`.  Hypotheses kept: the cache invariants `GInv`, `CacheInv`
    and `SettingsOK` of the start state (every constructed object has them: `C18_constructed`), `hk`, `hf` of the `make_image`
    bridge. -/
theorem C18_source_capstone_never {F K : Type} (E : ImgEnv F K)
    (hf : ∀ f, E.arg = some f → E.issub f = true) (fac : Option F) (ops : List Op) (g0 : Global) (hg : GInv g0)
    (s0 : QRState) (hs : SettingsOK s0) (hc : CacheInv s0) (hk : EmbeddedOK E s0 ops) (k : Nat) (o : OutSrc F K)
    (h : (runSrc E (g0, toOb fac s0) ops).2[k]? = some o) :
    ∃ pre post : QRState, (runSrc E (g0, toOb fac s0) (ops.take k)).1.2 = toOb fac pre ∧
      (runSrc E (g0, toOb fac s0) (ops.take (k + 1))).1.2 = toOb fac post ∧
      (let produced := post.version ≤ 40 ∧ (∀ m, post.mask = some m → m ≤ 7) ∧ post.dataCache.isSome = true ∧
        ∃ v, 1 ≤ v ∧ v ≤ 40 ∧ post.modulesCount = v * 4 + 17
       let versionSet := pre.dataCache = none ∨ pre.version ≠ 0 → 1 ≤ post.version
       match o with
       | .matrix m => produced ∧ versionSet ∧
           m = (if get_matrix_early post.border then post.modules.toLists
                else get_matrix_code (some false) post.modules.toLists post.border)
       | .image im evs => produced ∧ versionSet ∧ 0 < post.boxSize ∧
           im.pos = [(post.border : Int), (post.modulesCount : Int), post.boxSize] ∧
           im.kw = [("qrcode_modules", post.modules.toLists)] ∧ im.star = E.kwargs ∧
           im.cls = chosenFactory E.Image E.PilImage E.PyPNGImage fac E.arg ∧
           evs = ob_make_image_draw E.nd E.nc E.np (toOb fac post) im
       | .text b m => produced ∧ versionSet ∧ (b = post.border ∨ b = 1) ∧ m = post.modules.toLists
       | _ => True) := by
  have sim := fun n => runSrc_sim_gen E hf fac g0 hg s0 (ops.take n) (hk.take n)
  rw [runSrc_sim_gen E hf fac g0 hg s0 ops hk] at h
  simp only [List.getElem?_map] at h
  cases ho : (run (g0, s0) ops).2[k]? with
  | none => rw [ho] at h; simp at h
  | some o' =>
    rw [ho] at h
    simp only [Option.map_some, Option.some.injEq] at h
    have hn := C18_never ops g0 hg s0 hs hc k o' ho
    refine ⟨(run (g0, s0) (ops.take k)).1.2, (run (g0, s0) (ops.take (k + 1))).1.2, by rw [sim], by rw [sim], ?_⟩
    subst h
    cases o' with
    | unit => trivial
    | err e => trivial
    | matrix m =>
      obtain ⟨a, b, c⟩ := hn
      exact ⟨a, b, by rw [c, QR.SourceTieB.framedOpt_src]⟩
    | image b n bs m =>
      obtain ⟨a1, a2, a3, a4, a5, a6, a7⟩ := hn
      subst a4 a5 a6 a7
      exact ⟨a1, a2, a3, rfl, rfl, rfl, rfl, draw_congr E.nd E.nc E.np _ _ _ rfl rfl⟩
    | text b m => exact hn

/-- **capstone, the same read off the ATTRIBUTES of the translated object** (no Model state in the conclusion): whenever the `k`-th
    output of a sequence executed by the translated code (`runSrc`, as above) hands something out (`OutSrc.isProduct`: the result
    of `get_matrix`, `make_image`, `print_ascii`, `print_tty`), the object right after that operation has `_version` `None` or an
    integer in `1..40`, `_mask_pattern` `None` or an integer in `0..7`, `_border ≥ 0`, a filled `data_cache`,
    `modules_count = 4 v + 17` for a real version `v`; and an image was requested from the image class with exactly
    `(self.border, self.modules_count, self.box_size, qrcode_modules=self.modules)` where `box_size > 0`.
    From `C18_source_capstone_never`.  Same hypotheses. -/
theorem C18_source_capstone_never_attrs {F K : Type} (E : ImgEnv F K)
    (hf : ∀ f, E.arg = some f → E.issub f = true) (fac : Option F) (ops : List Op) (g0 : Global) (hg : GInv g0)
    (s0 : QRState) (hs : SettingsOK s0) (hc : CacheInv s0) (hk : EmbeddedOK E s0 ops) (k : Nat) (o : OutSrc F K)
    (h : (runSrc E (g0, toOb fac s0) ops).2[k]? = some o) (ho : o.isProduct = true) :
    (((runSrc E (g0, toOb fac s0) (ops.take (k + 1))).1.2._version = .none ∨
        ∃ v : Nat, (runSrc E (g0, toOb fac s0) (ops.take (k + 1))).1.2._version = .int v ∧ 1 ≤ v ∧ v ≤ 40) ∧
      ((runSrc E (g0, toOb fac s0) (ops.take (k + 1))).1.2._mask_pattern = .none ∨
        ∃ m : Nat, (runSrc E (g0, toOb fac s0) (ops.take (k + 1))).1.2._mask_pattern = .int m ∧ m ≤ 7) ∧
      0 ≤ (runSrc E (g0, toOb fac s0) (ops.take (k + 1))).1.2._border ∧
      (runSrc E (g0, toOb fac s0) (ops.take (k + 1))).1.2.data_cache.isSome = true ∧
      (∃ v, 1 ≤ v ∧ v ≤ 40 ∧ (runSrc E (g0, toOb fac s0) (ops.take (k + 1))).1.2.modules_count = v * 4 + 17) ∧
      (∀ im evs, o = .image im evs →
        0 < (runSrc E (g0, toOb fac s0) (ops.take (k + 1))).1.2.box_size ∧
        im.pos = [(runSrc E (g0, toOb fac s0) (ops.take (k + 1))).1.2._border,
          ((runSrc E (g0, toOb fac s0) (ops.take (k + 1))).1.2.modules_count : Int),
          (runSrc E (g0, toOb fac s0) (ops.take (k + 1))).1.2.box_size] ∧
        im.kw = [("qrcode_modules", (runSrc E (g0, toOb fac s0) (ops.take (k + 1))).1.2.modules)])) := by
  obtain ⟨pre, post, _, hpost, hn⟩ := C18_source_capstone_never E hf fac ops g0 hg s0 hs hc hk k o h
  rw [hpost]
  have key : ∀ (_ : post.version ≤ 40 ∧ (∀ m, post.mask = some m → m ≤ 7) ∧ post.dataCache.isSome = true ∧
      ∃ v, 1 ≤ v ∧ v ≤ 40 ∧ post.modulesCount = v * 4 + 17),
      ((toOb fac post)._version = .none ∨ ∃ v : Nat, (toOb fac post)._version = .int v ∧ 1 ≤ v ∧ v ≤ 40) ∧
      ((toOb fac post)._mask_pattern = .none ∨ ∃ m : Nat, (toOb fac post)._mask_pattern = .int m ∧ m ≤ 7) ∧
      0 ≤ (toOb fac post)._border ∧ (toOb fac post).data_cache.isSome = true ∧
      (∃ v, 1 ≤ v ∧ v ≤ 40 ∧ (toOb fac post).modules_count = v * 4 + 17) := by
    intro ⟨p1, p2, p3, p4⟩
    refine ⟨?_, ?_, ?_, p3, p4⟩
    · by_cases hv0 : post.version = 0
      · left; simp [toOb, hv0]
      · right; exact ⟨post.version, by simp [toOb, hv0], by omega, p1⟩
    · cases hm : post.mask with
      | none => left; simp [toOb, hm]
      | some m => right; exact ⟨m, by simp [toOb, hm], p2 m hm⟩
    · simp [toOb]
  cases o with
  | unit => cases ho
  | err e => cases ho
  | matrix m =>
    obtain ⟨k1, k2, k3, k4, k5⟩ := key hn.1
    exact ⟨k1, k2, k3, k4, k5, fun _ _ he => by cases he⟩
  | text b m =>
    obtain ⟨k1, k2, k3, k4, k5⟩ := key hn.1
    exact ⟨k1, k2, k3, k4, k5, fun _ _ he => by cases he⟩
  | image im evs =>
    obtain ⟨a1, _, a3, a4, a5, _⟩ := hn
    obtain ⟨k1, k2, k3, k4, k5⟩ := key a1
    refine ⟨k1, k2, k3, k4, k5, fun im' evs' he => ?_⟩
    injection he with he1 he2
    subst he1
    exact ⟨a3, a4, a5⟩

/-- **capstone, from the constructor on**: whenever the translated `main.py:QRCode.__init__` (`ob_init`; `util.check_version` =
    `checkVersionOb`; integer / `None` arguments; `image_factory` `None` or a subclass of `BaseImage`) returns an object `o`, then
    over every sequence of operations executed by the translated code on `o`, from the empty process cache, whatever is handed out
    (`OutSrc.isProduct`) comes from an object with `version ≤ 40`, mask `None` or `≤ 7`, `modules_count = 4 v + 17` for a real version,
    and an image is only ever requested from the image class with a third positional argument (`box_size`) `> 0`.
    From `C18_source_construct_src`, `C18_constructed`, `C18_source_capstone_never`. -/
theorem C18_source_capstone_never_constructed {F K : Type} (E : ImgEnv F K)
    (hf : ∀ f, E.arg = some f → E.issub f = true) (fac : Option F) (hfac : ∀ f, fac = some f → E.issub f = true)
    (self0 : ob_QR Seg (List Nat) F) (version : Option Int) (level : Nat) (box border : Int) (mask : Option Int)
    (ob : ob_QR Seg (List Nat) F)
    (hcon : ob_init checkVersionOb E.issub self0 (optVal version) (.int level) (.int box) (.int border) fac (optVal mask) = .ok ob)
    (ops : List Op) (hk : E.embedded = false ∨ (level = 2 ∧ ∀ l, Op.setLevel l ∈ ops → l = 2))
    (k : Nat) (o : OutSrc F K) (h : (runSrc E ({ blanks := [] }, ob) ops).2[k]? = some o)
    (ho : o.isProduct = true) :
    ∃ post : QRState, (runSrc E ({ blanks := [] }, ob) (ops.take (k + 1))).1.2 = toOb fac post ∧
      post.version ≤ 40 ∧ (∀ m, post.mask = some m → m ≤ 7) ∧ (∃ v, 1 ≤ v ∧ v ≤ 40 ∧ post.modulesCount = v * 4 + 17) ∧
      (∀ im evs, o = .image im evs → ∃ (b n : Int) (bs : Int), im.pos = [b, n, bs] ∧ 0 < bs) := by
  rw [C18_source_construct_src E.issub fac hfac] at hcon
  cases hc : construct version level box border mask with
  | error e => rw [hc] at hcon; simp [liftR, Except.map] at hcon
  | ok s0 =>
    rw [hc] at hcon
    simp only [liftR, Except.map, Except.ok.injEq] at hcon
    subst hcon
    have hempty : GInv { blanks := [] } := by intro v b hl; simp at hl
    obtain ⟨c1, c2, _⟩ := C18_constructed version level box border mask s0 hc
    obtain ⟨pre, post, _, hpost, hn⟩ := C18_source_capstone_never E hf fac ops _ hempty s0 c1 c2
      (hk.imp id fun h => ⟨(construct_level hc).trans h.1, h.2⟩) k o h
    refine ⟨post, hpost, ?_⟩
    cases o with
    | unit => cases ho
    | err e => cases ho
    | matrix m => exact ⟨hn.1.1, hn.1.2.1, hn.1.2.2.2, fun _ _ he => by cases he⟩
    | text b m => exact ⟨hn.1.1, hn.1.2.1, hn.1.2.2.2, fun _ _ he => by cases he⟩
    | image im evs =>
      obtain ⟨a1, _, a3, a4, _⟩ := hn
      refine ⟨a1.1, a1.2.1, a1.2.2.2, fun im' evs' he => ?_⟩
      injection he with he1 he2
      subst he1
      exact ⟨_, _, _, a4, a3⟩

/-- instance, evaluated through the translated code: on `QRCode()`, `version = 41`, `border = -1`, `mask_pattern = 8` are rejected
    (ValueError, nothing stored), `box_size = 0` is stored unchecked but `make_image()` then refuses before any compile, and
    `version = 40` is accepted; by `C18_source_capstone_run` the run ends on the object of a state with the settings in range -/
example :
    (runSrc exampleEnv ({ blanks := [] }, toOb none exampleState)
      [.setVersion (some 41), .setBorder (-1), .setMask (some 8), .setBoxSize 0, .makeImage, .setVersion (some 40)]).2 =
      [.err "ValueError", .err "ValueError", .err "ValueError", .unit, .err "ValueError", .unit] ∧
    ∃ g s outs, runSrc exampleEnv ({ blanks := [] }, toOb none exampleState)
      [.setVersion (some 41), .setBorder (-1), .setMask (some 8), .setBoxSize 0, .makeImage, .setVersion (some 40)] =
        ((g, toOb none s), outs) ∧ SettingsOK s := by
  refine ⟨rfl, ?_⟩
  obtain ⟨g, s, outs, h1, _, h2, _⟩ := C18_source_capstone_run exampleEnv (by intro f h; cases h) (none : Option Unit)
    [.setVersion (some 41), .setBorder (-1), .setMask (some 8), .setBoxSize 0, .makeImage, .setVersion (some 40)]
    { blanks := [] } (by intro v b hl; simp at hl) exampleState (Or.inl rfl)
  exact ⟨g, s, outs, h1, h2 ⟨by decide, by intro m hm; cases hm⟩⟩

end CapstoneSeq
end Capstone

/-- the Python functions this property's model mirrors have, in /repo's current working tree, exactly the normalised
    ASTs the model was written and validated against (fingerprints regenerated by T1 on every run) -/
theorem C18_source_fingerprints : QR.Gen.fp_C18 = QR.Pinned.fp_C18 := by decide

end QR.Props
