import QR.Model.Compile
import QR.Spec.Stream
import QR.Proofs.Total
import QR.Proofs.Pinned
import QR.Proofs.Implicit
/-
C03 - compile succeeds or raises DataOverflowError, decided by capacity.
`Model.compile cfg segs` mirrors `QRCode(version, error_correction, mask_pattern)` + `add_data` + `make(fit)`:
`chooseVersion` (the `best_fit` calls), `create_data`, `best_mask_pattern` (when no mask was requested), `makeImpl`.
Hypotheses: `cfg.Valid` (what the constructor's `check_version` / `check_mask_pattern` accept), a level that is one
of the four ISO indicators, and segments as `QRData(check_data=True)` produces them.  Unbounded in the payload.
-/
namespace QR.Props
open QR

set_option maxRecDepth 100000 in
/-- regression witnesses of the two repaired defects, checked on the model by kernel evaluation:
    (D1) an all-zero data block no longer makes the Reed-Solomon division fail;
    (D2) a payload beyond version 40 with fitting on is a DataOverflowError, not a ValueError -/
theorem C03_witness_zero_block :
    (Model.ecOfBlock (List.replicate 9 0) 17).toOption = some (List.replicate 17 0) := by decide +kernel

/-- the validity predicate on configurations, spelled out: version `None` (0) or 1..40, mask `None` or 0..7 -/
theorem C03_valid_iff (cfg : Model.Cfg) :
    cfg.Valid ↔ cfg.version ≤ 40 ∧ ∀ m, cfg.mask = some m → m ≤ 7 := Iff.rfl

/-- `create_data` is total on valid segments at every version 1..40 and level: it yields exactly the ISO number of
    codewords when the stream fits, and raises DataOverflowError otherwise -/
theorem C03_createData (v : Nat) (h1 : 1 ≤ v) (h40 : v ≤ 40) (l : Spec.Level) (segs : List Model.Seg)
    (hv : ∀ s ∈ segs, s.Valid) (ps : List Spec.PSeg) (hp : toPSegs segs = some ps) :
    (Spec.fits v l (segCounts ps) = true →
      ∃ cw, Model.createData v l.indicator segs = .ok cw ∧ cw.length = Spec.totalCodewords v) ∧
    (Spec.fits v l (segCounts ps) = false → Model.createData v l.indicator segs = .error .dataOverflow) :=
  QR.Proofs.createData_total v h1 h40 l segs hv ps hp

/-- `makeImpl` never fails for a version 1..40 and a mask pattern 0..7, whatever the codewords -/
theorem C03_makeImpl (v : Nat) (h1 : 1 ≤ v) (h40 : v ≤ 40) (level mask : Nat) (hm : mask ≤ 7) (test : Bool)
    (data : List Nat) : ∃ M, Model.makeImpl v level test mask data = .ok M :=
  QR.Proofs.makeImpl_total v h1 h40 level mask hm test data

/-- `best_mask_pattern` never fails and returns one of the eight patterns -/
theorem C03_bestMaskPattern (v : Nat) (h1 : 1 ≤ v) (h40 : v ≤ 40) (level : Nat) (data : List Nat) :
    ∃ k, Model.bestMaskPattern v level data = .ok k ∧ k ≤ 7 :=
  QR.Proofs.bestMaskPattern_total v h1 h40 level data

/-- a stream that fits some version 1..40 (written with that version's count-field widths) also fits version 40:
    "no version from the start up to 40 is adequate" is the same as "version 40 is not adequate" -/
theorem C03_fits_forty (l : Spec.Level) (cs : List (Spec.Mode × Nat)) (u : Nat) (h1 : 1 ≤ u) (h40 : u ≤ 40)
    (h : Spec.fits u l cs = true) : Spec.fits 40 l cs = true :=
  QR.Proofs.fits_forty l cs u h1 h40 h

/-- **C03 (main, totality)**: for every payload and every valid setting, compiling a symbol either succeeds or fails
    with DataOverflowError; no other exception escapes for any data content -/
theorem C03_total (cfg : Model.Cfg) (hcfg : cfg.Valid) (l : Spec.Level) (hl : cfg.level = l.indicator)
    (segs : List Model.Seg) (hv : ∀ s ∈ segs, s.Valid) :
    (∃ r, Model.compile cfg segs = .ok r) ∨ Model.compile cfg segs = .error .dataOverflow :=
  QR.Proofs.C03_total cfg hcfg l hl segs hv

/-- **C03 (main, criterion)**: it fails exactly when the encoded bit stream exceeds the data capacity of the largest
    admissible version - the requested version when one is given and fitting is disabled, version 40 otherwise -/
theorem C03_iff (cfg : Model.Cfg) (hcfg : cfg.Valid) (l : Spec.Level) (hl : cfg.level = l.indicator)
    (segs : List Model.Seg) (hv : ∀ s ∈ segs, s.Valid) (ps : List Spec.PSeg) (hp : toPSegs segs = some ps) :
    Model.compile cfg segs = .error .dataOverflow ↔
      Spec.fits (if cfg.version ≠ 0 ∧ cfg.fit = false then cfg.version else 40) l (segCounts ps) = false :=
  QR.Proofs.C03_iff cfg hcfg l hl segs hv ps hp

/-- **C03 (main, result)**: on success the version is the smallest adequate one from the requested start when
    fitting (`cfg.version = 0`, Python's `None`, meaning start 1), the requested version when fitting is off (the
    smallest adequate one overall when none was requested); a requested mask pattern is the one used -/
theorem C03_version (cfg : Model.Cfg) (hcfg : cfg.Valid) (l : Spec.Level) (hl : cfg.level = l.indicator)
    (segs : List Model.Seg) (hv : ∀ s ∈ segs, s.Valid) (ps : List Spec.PSeg) (hp : toPSegs segs = some ps)
    (v m : Nat) (M : Model.Mat) (h : Model.compile cfg segs = .ok (v, m, M)) :
    (if cfg.fit then Spec.minVersion cfg.version l (segCounts ps) = some v
     else (cfg.version ≠ 0 → v = cfg.version) ∧ (cfg.version = 0 → Spec.minVersion 0 l (segCounts ps) = some v)) ∧
    (∀ m', cfg.mask = some m' → m = m') :=
  QR.Proofs.C03_version cfg hcfg l hl segs hv ps hp v m M h

/-- on success the version is in 1..40 and adequate, and the mask used is one of the eight patterns -/
theorem C03_ok_range (cfg : Model.Cfg) (hcfg : cfg.Valid) (l : Spec.Level) (hl : cfg.level = l.indicator)
    (segs : List Model.Seg) (hv : ∀ s ∈ segs, s.Valid) (ps : List Spec.PSeg) (hp : toPSegs segs = some ps)
    (v m : Nat) (M : Model.Mat) (h : Model.compile cfg segs = .ok (v, m, M)) :
    1 ≤ v ∧ v ≤ 40 ∧ m ≤ 7 ∧ Spec.fits v l (segCounts ps) = true :=
  QR.Proofs.C03_ok_range cfg hcfg l hl segs hv ps hp v m M h

/-- non-vacuity: all four ISO levels and both kinds of configuration satisfy the hypotheses -/
example : (⟨0, Spec.Level.L.indicator, none, true⟩ : Model.Cfg).Valid := ⟨by decide, fun _ h => by cases h⟩
example : (⟨40, Spec.Level.H.indicator, some 7, false⟩ : Model.Cfg).Valid :=
  ⟨by decide, fun m h => by cases h; decide⟩

/-- the published boundaries, on the Spec side of `C03_iff`: 7089 / 7090 digits at 40-L, 17 / 18 bytes at 1-L -/
example : Spec.fits 40 .L [(.numeric, 7089)] = true ∧ Spec.fits 40 .L [(.numeric, 7090)] = false ∧
    Spec.fits 1 .L [(.byte, 17)] = true ∧ Spec.fits 1 .L [(.byte, 18)] = false := by decide

/-- the Python functions this property's model mirrors have, in /repo's current working tree, exactly the normalised
    ASTs the model was written and validated against (fingerprints regenerated by T1 on every run) -/
theorem C03_source_fingerprints : QR.Gen.fp_C03 = QR.Pinned.fp_C03 := by decide

/-- **C03 (the other entry points)**: `get_matrix()`, `make_image()`, `print_ascii()` and `print_tty()` on an object
    that has not been compiled yet (sound blank cache, valid settings, valid data - the hypotheses of
    `C16_implicit_compile`) raise nothing but DataOverflowError - and that exactly when the cache-free `compile` of the
    current settings with `fit=True` overflows - except `make_image()`'s ValueError for a non-positive `box_size`
    (raised before any compile) -/
theorem C03_entry_points (g : Model.Global) (s : Model.QRState) (l : Spec.Level)
    (hg : GInv g) (hv : s.version ≤ 40) (hm : ∀ m, s.mask = some m → m ≤ 7) (hl : s.level = l.indicator)
    (hsegs : ∀ x ∈ s.dataList, x.Valid) (hc : s.dataCache = none) (op : Model.Op)
    (hop : op = .getMatrix ∨ op = .makeImage ∨ op = .printAscii ∨ op = .printTty) :
    (∀ e, (Model.step (g, s) op).2 = .err e →
      (e = .dataOverflow ∧
        Model.compile { version := s.version, level := s.level, mask := s.mask, fit := true } s.dataList
          = .error .dataOverflow) ∨
      (e = .valueError ∧ op = .makeImage ∧ s.boxSize ≤ 0)) ∧
    (Model.compile { version := s.version, level := s.level, mask := s.mask, fit := true } s.dataList
        = .error .dataOverflow → ¬ (op = .makeImage ∧ s.boxSize ≤ 0) →
      (Model.step (g, s) op).2 = .err .dataOverflow) := by
  have h : Proofs.Implicit.Pre g s l := ⟨hg, hv, hm, hl, hsegs, hc⟩
  refine ⟨fun e he => Proofs.Implicit.entry_points h op hop e he, fun hov hnb => ?_⟩
  have h1 := Proofs.Implicit.step_getMatrix h
  have h2 := Proofs.Implicit.step_printAscii h
  have h3 := Proofs.Implicit.step_printTty h
  have h4 := Proofs.Implicit.step_makeImage h
  have hov' : Model.compile (Proofs.Implicit.freshCfg s) s.dataList = .error .dataOverflow := hov
  rw [hov'] at h1 h2 h3 h4
  rcases hop with rfl | rfl | rfl | rfl
  · exact h1.2
  · have hb : ¬ s.boxSize ≤ 0 := fun hb => hnb ⟨rfl, hb⟩
    rw [if_neg hb] at h4; exact h4.2
  · exact h2.2
  · exact h3.2

end QR.Props
