import QR.Model.Compile
import QR.Spec.Stream
import QR.Proofs.Total
import QR.Proofs.Pinned
import QR.Proofs.Implicit
import QR.Proofs.CapstoneE4
/-
C03 - compile succeeds or raises DataOverflowError, decided by capacity.
`Model.compile cfg segs` mirrors `QRCode(version, error_correction, mask_pattern)` + `add_data` + `make(fit)`:
`chooseVersion` (the `best_fit` calls), `create_data`, `best_mask_pattern` (when no mask was requested), `makeImpl`.
Hypotheses: `cfg.Valid` (what the constructor's `check_version` / `check_mask_pattern` accept), a level that is one
of the four ISO indicators, and segments as `QRData(check_data=True)` produces them.  Unbounded in the payload.
-/
namespace QR.Props
open QR

set_option maxRecDepth 100000 in
/-- regression witnesses of the two repaired defects, checked on the model by kernel evaluation:
    (D1) an all-zero data block no longer makes the Reed-Solomon division fail;
    (D2) a payload beyond version 40 with fitting on is a DataOverflowError, not a ValueError -/
theorem C03_witness_zero_block :
    (Model.ecOfBlock (List.replicate 9 0) 17).toOption = some (List.replicate 17 0) := by decide +kernel

/-- the validity predicate on configurations, spelled out: version `None` (0) or 1..40, mask `None` or 0..7 -/
theorem C03_valid_iff (cfg : Model.Cfg) :
    cfg.Valid ↔ cfg.version ≤ 40 ∧ ∀ m, cfg.mask = some m → m ≤ 7 := Iff.rfl

/-- `create_data` is total on valid segments at every version 1..40 and level: it yields exactly the ISO number of
    codewords when the stream fits, and raises DataOverflowError otherwise -/
theorem C03_createData (v : Nat) (h1 : 1 ≤ v) (h40 : v ≤ 40) (l : Spec.Level) (segs : List Model.Seg)
    (hv : ∀ s ∈ segs, s.Valid) (ps : List Spec.PSeg) (hp : toPSegs segs = some ps) :
    (Spec.fits v l (segCounts ps) = true →
      ∃ cw, Model.createData v l.indicator segs = .ok cw ∧ cw.length = Spec.totalCodewords v) ∧
    (Spec.fits v l (segCounts ps) = false → Model.createData v l.indicator segs = .error .dataOverflow) :=
  QR.Proofs.createData_total v h1 h40 l segs hv ps hp

/-- `makeImpl` never fails for a version 1..40 and a mask pattern 0..7, whatever the codewords -/
theorem C03_makeImpl (v : Nat) (h1 : 1 ≤ v) (h40 : v ≤ 40) (level mask : Nat) (hm : mask ≤ 7) (test : Bool)
    (data : List Nat) : ∃ M, Model.makeImpl v level test mask data = .ok M :=
  QR.Proofs.makeImpl_total v h1 h40 level mask hm test data

/-- `best_mask_pattern` never fails and returns one of the eight patterns -/
theorem C03_bestMaskPattern (v : Nat) (h1 : 1 ≤ v) (h40 : v ≤ 40) (level : Nat) (data : List Nat) :
    ∃ k, Model.bestMaskPattern v level data = .ok k ∧ k ≤ 7 :=
  QR.Proofs.bestMaskPattern_total v h1 h40 level data

/-- a stream that fits some version 1..40 (written with that version's count-field widths) also fits version 40:
    "no version from the start up to 40 is adequate" is the same as "version 40 is not adequate" -/
theorem C03_fits_forty (l : Spec.Level) (cs : List (Spec.Mode × Nat)) (u : Nat) (h1 : 1 ≤ u) (h40 : u ≤ 40)
    (h : Spec.fits u l cs = true) : Spec.fits 40 l cs = true :=
  QR.Proofs.fits_forty l cs u h1 h40 h

/-- **C03 (main, totality)**: for every payload and every valid setting, compiling a symbol either succeeds or fails
    with DataOverflowError; no other exception escapes for any data content -/
theorem C03_total (cfg : Model.Cfg) (hcfg : cfg.Valid) (l : Spec.Level) (hl : cfg.level = l.indicator)
    (segs : List Model.Seg) (hv : ∀ s ∈ segs, s.Valid) :
    (∃ r, Model.compile cfg segs = .ok r) ∨ Model.compile cfg segs = .error .dataOverflow :=
  QR.Proofs.C03_total cfg hcfg l hl segs hv

/-- **C03 (main, criterion)**: it fails exactly when the encoded bit stream exceeds the data capacity of the largest
    admissible version - the requested version when one is given and fitting is disabled, version 40 otherwise -/
theorem C03_iff (cfg : Model.Cfg) (hcfg : cfg.Valid) (l : Spec.Level) (hl : cfg.level = l.indicator)
    (segs : List Model.Seg) (hv : ∀ s ∈ segs, s.Valid) (ps : List Spec.PSeg) (hp : toPSegs segs = some ps) :
    Model.compile cfg segs = .error .dataOverflow ↔
      Spec.fits (if cfg.version ≠ 0 ∧ cfg.fit = false then cfg.version else 40) l (segCounts ps) = false :=
  QR.Proofs.C03_iff cfg hcfg l hl segs hv ps hp

/-- **C03 (main, result)**: on success the version is the smallest adequate one from the requested start when
    fitting (`cfg.version = 0`, Python's `None`, meaning start 1), the requested version when fitting is off (the
    smallest adequate one overall when none was requested); a requested mask pattern is the one used -/
theorem C03_version (cfg : Model.Cfg) (hcfg : cfg.Valid) (l : Spec.Level) (hl : cfg.level = l.indicator)
    (segs : List Model.Seg) (hv : ∀ s ∈ segs, s.Valid) (ps : List Spec.PSeg) (hp : toPSegs segs = some ps)
    (v m : Nat) (M : Model.Mat) (h : Model.compile cfg segs = .ok (v, m, M)) :
    (if cfg.fit then Spec.minVersion cfg.version l (segCounts ps) = some v
     else (cfg.version ≠ 0 → v = cfg.version) ∧ (cfg.version = 0 → Spec.minVersion 0 l (segCounts ps) = some v)) ∧
    (∀ m', cfg.mask = some m' → m = m') :=
  QR.Proofs.C03_version cfg hcfg l hl segs hv ps hp v m M h

/-- on success the version is in 1..40 and adequate, and the mask used is one of the eight patterns -/
theorem C03_ok_range (cfg : Model.Cfg) (hcfg : cfg.Valid) (l : Spec.Level) (hl : cfg.level = l.indicator)
    (segs : List Model.Seg) (hv : ∀ s ∈ segs, s.Valid) (ps : List Spec.PSeg) (hp : toPSegs segs = some ps)
    (v m : Nat) (M : Model.Mat) (h : Model.compile cfg segs = .ok (v, m, M)) :
    1 ≤ v ∧ v ≤ 40 ∧ m ≤ 7 ∧ Spec.fits v l (segCounts ps) = true :=
  QR.Proofs.C03_ok_range cfg hcfg l hl segs hv ps hp v m M h

/-- non-vacuity: all four ISO levels and both kinds of configuration satisfy the hypotheses -/
example : (⟨0, Spec.Level.L.indicator, none, true⟩ : Model.Cfg).Valid := ⟨by decide, fun _ h => by cases h⟩
example : (⟨40, Spec.Level.H.indicator, some 7, false⟩ : Model.Cfg).Valid :=
  ⟨by decide, fun m h => by cases h; decide⟩

/-- the published boundaries, on the Spec side of `C03_iff`: 7089 / 7090 digits at 40-L, 17 / 18 bytes at 1-L -/
example : Spec.fits 40 .L [(.numeric, 7089)] = true ∧ Spec.fits 40 .L [(.numeric, 7090)] = false ∧
    Spec.fits 1 .L [(.byte, 17)] = true ∧ Spec.fits 1 .L [(.byte, 18)] = false := by decide

/-! ### Capstones: (ii) composed with (i) - THE WHOLE COMPILE ASSEMBLED FROM TRANSLATED PARTS satisfies the Spec-level statements.
    `QR.CapstoneE4.compileSrc` (QR/Proofs/CapstoneE4.lean) is the cache-free compile of a fresh object
    (`QRCode(version, error_correction, mask_pattern)`, `data_list = segs`, `make(fit)`) with the statement order, tests and call
    arguments of main.py:QRCode.make as translated (`Gen.Code.make_*`, regenerated from /repo's current Python AST on every run)
    and its four callees as PARAMETERS, instantiated below, explicitly, by the functions assembled from translated fragments:
      `best_fit`            `CapstoneE1.bestFitSrc` (main.py:QRCode.best_fit, every statement; accumulation loop `segsBitsSrc`) over
                            `modeSizesSrc` (util.py:mode_sizes_for_version), `checkVersionSrc` (util.py:check_version, run by the
                            `version` setter), `writeBufSrc` (util.py:QRData.write on the translated BitBuffer: put, put_bit,
                            __len__, get); `Gen.BIT_LIMIT_TABLE` is the table dumped from the running library; 4 = recursion
                            fuel.  Model callee left: `bisectLeft` (bisect.bisect_left of the standard library)
      `create_data`         `CapstoneE4.createDataSrc` (util.py:create_data, length_in_bits, base.py:rs_blocks, util.py:create_bytes
                            with both interleaving loops and the `current_ec` computation `ecOfBlockSrc`) over `segsBitsBufSrc`
                            (the segment loop on the translated BitBuffer: put, put_bit, QRData.__len__, QRData.write, bits read
                            back by the translated __len__ / get).  Model callees left: `rsPolyFor`, `polyMk`, `polyMod` (generator
                            lookup / fallback loop, `Polynomial.__init__`, `Polynomial.__mod__`; tied to the source under C02),
                            and inside `QRData.write` `intOfDigits` (`int(chars)`)
      `makeImpl`            `CapstoneE2.makeImplSrc` (main.py:QRCode.makeImpl with setup_position_probe_pattern,
                            setup_position_adjust_pattern, setup_timing_pattern, util.py:pattern_position, setup_type_info,
                            setup_type_number, util.py:BCH_type_info, BCH_type_number, map_data, the lambdas of util.py:mask_func)
                            over `bchDigitSrc` (util.py:BCH_digit, translated `while` loop)
      `best_mask_pattern`   `CapstoneE4.bestMaskSrc` (inside `compileSrc`: `range(mask_candidates)`, `makeImpl(True, i)`, the
                            translated update test `pick_update`)
      `lost_point`          `CapstoneE4.lostPointSrc` (util.py:lost_point and its four scanners, all translated)
    `find_bytes` = `ALPHA_NUM.find` on a one-character bytes object, with the hypothesis `hfb` of the bridge kept.
    Hand-assembled, not translated: the `for` / `while` skeletons of the assemblers (fuel where a `while` has no static bound),
    the `if pattern == k` dispatch of `mask_func`, the two caches (`data_cache` = `create_data` run once;
    `precomputed_qr_blanks` = always a miss), the representation functions (`bitsBE`, `packBytes`, `Mat.toBMat`: `BitBuffer.put` as
    a bit list, `buffer.buffer`, `self.modules` read as Booleans).
    `compileCallsSrc` puts the translated main.py:QRCode.add_data (`sg_add_data`, with util.py:optimal_data_chunks,
    _optimal_split, QRData.__init__, optimal_mode, to_bytestring; the `re` engine as `SourceTieD1.pyModel F enc`: `searchModel` /
    `matchModel`, `F d ≥ len(d)` iterations for each `while data:`) in front.  No other Model function occurs in a conclusion.
    All from `QR.CapstoneE4.compileSrc_eq_refined` / `compileCallsSrc_eq_refined` (= `bestFitSrc_eq`, `createDataSrc_eq`,
    `makeImplSrc_eq`, `SourceTie.pick_eq`, `SourceTieD3.lost_point_src`, `segsLoopSrc_eq`, `segWrite_bytes_src`, `bchDigit_src`,
    `addData_src`) and the property theorems above. -/
section Capstone
open QR.Model QR.Gen.Code QR.SourceTieA QR.SourceTieD1 QR.CapstoneE1 QR.CapstoneE2 QR.CapstoneE4

/-- **capstone, main.py:QRCode.make -> best_fit -> util.py:create_data -> best_mask_pattern -> makeImpl (the whole compile, see the
    section comment for what is translated and what is a parameter)**: for every valid configuration, each of the four levels and
    every list of valid segments, the compile assembled from the translated source either succeeds or raises DataOverflowError -
    nothing else, for any data content; from `compileSrc_eq_refined` and `C03_total`. -/
theorem C03_source_capstone_total (find_bytes : List Nat → R Nat) (hfb : ∀ a, find_bytes [a] = alphaFind a)
    (cfg : Model.Cfg) (hcfg : cfg.Valid) (l : Spec.Level) (hl : cfg.level = l.indicator)
    (segs : List Model.Seg) (hv : ∀ s ∈ segs, s.Valid) :
    (∃ r, compileSrc (bestFitSrc modeSizesSrc (segsBitsSrc (writeBufSrc find_bytes)) Gen.BIT_LIMIT_TABLE bisectLeft checkVersionSrc 4)
        (createDataSrc (segsBitsBufSrc find_bytes) (ecOfBlockSrc rsPolyFor polyMk polyMod)) (makeImplSrc bchDigitSrc) lostPointSrc cfg segs = .ok r) ∨
    compileSrc (bestFitSrc modeSizesSrc (segsBitsSrc (writeBufSrc find_bytes)) Gen.BIT_LIMIT_TABLE bisectLeft checkVersionSrc 4)
        (createDataSrc (segsBitsBufSrc find_bytes) (ecOfBlockSrc rsPolyFor polyMk polyMod)) (makeImplSrc bchDigitSrc) lostPointSrc cfg segs
      = .error .dataOverflow := by
  rw [compileSrc_eq_refined find_bytes hfb cfg (hl ▸ Sym.indicator_lt l)]
  exact C03_total cfg hcfg l hl segs hv

/-- **capstone, same chain: the criterion** - the assembled compile raises DataOverflowError exactly when the closed-form ISO
    length of the bit stream (`Spec.fits`: mode indicators, count fields of the version's class, data bits against the Table 7
    capacity) exceeds the capacity of the largest admissible version: the requested one when fitting is off, 40 otherwise; from
    `compileSrc_eq_refined` and `C03_iff`. -/
theorem C03_source_capstone_iff (find_bytes : List Nat → R Nat) (hfb : ∀ a, find_bytes [a] = alphaFind a)
    (cfg : Model.Cfg) (hcfg : cfg.Valid) (l : Spec.Level) (hl : cfg.level = l.indicator)
    (segs : List Model.Seg) (hv : ∀ s ∈ segs, s.Valid) (ps : List Spec.PSeg) (hp : toPSegs segs = some ps) :
    compileSrc (bestFitSrc modeSizesSrc (segsBitsSrc (writeBufSrc find_bytes)) Gen.BIT_LIMIT_TABLE bisectLeft checkVersionSrc 4)
        (createDataSrc (segsBitsBufSrc find_bytes) (ecOfBlockSrc rsPolyFor polyMk polyMod)) (makeImplSrc bchDigitSrc) lostPointSrc cfg segs
      = .error .dataOverflow ↔
      Spec.fits (if cfg.version ≠ 0 ∧ cfg.fit = false then cfg.version else 40) l (segCounts ps) = false := by
  rw [compileSrc_eq_refined find_bytes hfb cfg (hl ▸ Sym.indicator_lt l)]
  exact C03_iff cfg hcfg l hl segs hv ps hp

/-- **capstone, same chain: the result** - when the assembled compile succeeds, the version it reports is in 1..40 and adequate
    (`Spec.fits`), it is the Spec's smallest adequate version from the requested start when fitting (the requested version when
    fitting is off; the smallest adequate one overall when none was requested), the mask is one of the eight patterns, and a
    requested mask is the one used; from `compileSrc_eq_refined`, `C03_version` and `C03_ok_range`. -/
theorem C03_source_capstone_version (find_bytes : List Nat → R Nat) (hfb : ∀ a, find_bytes [a] = alphaFind a)
    (cfg : Model.Cfg) (hcfg : cfg.Valid) (l : Spec.Level) (hl : cfg.level = l.indicator)
    (segs : List Model.Seg) (hv : ∀ s ∈ segs, s.Valid) (ps : List Spec.PSeg) (hp : toPSegs segs = some ps)
    (v m : Nat) (M : Model.Mat)
    (h : compileSrc (bestFitSrc modeSizesSrc (segsBitsSrc (writeBufSrc find_bytes)) Gen.BIT_LIMIT_TABLE bisectLeft checkVersionSrc 4)
        (createDataSrc (segsBitsBufSrc find_bytes) (ecOfBlockSrc rsPolyFor polyMk polyMod)) (makeImplSrc bchDigitSrc) lostPointSrc cfg segs
      = .ok (v, m, M)) :
    (if cfg.fit then Spec.minVersion cfg.version l (segCounts ps) = some v
     else (cfg.version ≠ 0 → v = cfg.version) ∧ (cfg.version = 0 → Spec.minVersion 0 l (segCounts ps) = some v)) ∧
    (∀ m', cfg.mask = some m' → m = m') ∧ 1 ≤ v ∧ v ≤ 40 ∧ m ≤ 7 ∧ Spec.fits v l (segCounts ps) = true := by
  rw [compileSrc_eq_refined find_bytes hfb cfg (hl ▸ Sym.indicator_lt l)] at h
  obtain ⟨a, b⟩ := C03_version cfg hcfg l hl segs hv ps hp v m M h
  exact ⟨a, b, C03_ok_range cfg hcfg l hl segs hv ps hp v m M h⟩

/-- **capstone, main.py:QRCode.add_data (translated, with the segmentation below it) -> the chain above**: byte strings added by
    `add_data(d, optimize=n)` (any thresholds; `re` = `searchModel` / `matchModel`, each `while data:` granted `F d ≥ len(d)`
    iterations), any valid configuration: the translated `add_data` calls followed by the assembled compile either succeed or
    raise DataOverflowError - `add_data` itself raises nothing; from `compileCallsSrc_eq_refined` (`C10_source_addData`),
    `Sym.addData_valid` and `C03_total`. -/
theorem C03_source_capstone_total_calls (find_bytes : List Nat → R Nat) (hfb : ∀ a, find_bytes [a] = alphaFind a)
    (F enc) (hF : ∀ d : List Nat, d.length ≤ F d)
    (cfg : Model.Cfg) (hcfg : cfg.Valid) (l : Spec.Level) (hl : cfg.level = l.indicator)
    (calls : List (List Nat × Nat)) (hb : ∀ p ∈ calls, ∀ c ∈ p.1, c < 256) :
    (∃ r, compileCallsSrc (pyModel F enc)
        (bestFitSrc modeSizesSrc (segsBitsSrc (writeBufSrc find_bytes)) Gen.BIT_LIMIT_TABLE bisectLeft checkVersionSrc 4)
        (createDataSrc (segsBitsBufSrc find_bytes) (ecOfBlockSrc rsPolyFor polyMk polyMod)) (makeImplSrc bchDigitSrc) lostPointSrc cfg calls = .ok r) ∨
    compileCallsSrc (pyModel F enc)
        (bestFitSrc modeSizesSrc (segsBitsSrc (writeBufSrc find_bytes)) Gen.BIT_LIMIT_TABLE bisectLeft checkVersionSrc 4)
        (createDataSrc (segsBitsBufSrc find_bytes) (ecOfBlockSrc rsPolyFor polyMk polyMod)) (makeImplSrc bchDigitSrc) lostPointSrc cfg calls
      = .error .dataOverflow := by
  rw [compileCallsSrc_eq_refined F enc hF find_bytes hfb cfg (hl ▸ Sym.indicator_lt l)]
  refine C03_total cfg hcfg l hl _ (fun s hs => ?_)
  obtain ⟨p, hp, hsp⟩ := List.mem_flatMap.mp hs
  exact Sym.addData_valid p.1 p.2 (hb p hp) s hsp

/-- **capstone, main.py:QRCode.make on the real object, with both caches** (`QR.CapstoneE3.makeSrc`: `make(fit)` assembled from its
    translated pieces `Gen.Code.make_*` - `self.data_cache = None`, the `version` read, `if fit or ...: self.best_fit(start=...)`,
    the `mask_pattern is None` test, the two `makeImpl(False, ...)` calls; PARTLY translated chain: the callees `best_fit`,
    `best_mask_pattern`, `makeImpl` inside `makeSrc` are the Model's state-threading `bestFitS`, `bestMaskS`, `makeImplS`, tied to
    the source by `C11_source_*` / `C07_source_*` / `C05_source_*`): on any object with valid settings, valid data and a sound
    process-wide cache of blanks `g` (`GInv`), the assembled `make(fit)` returns normally or raises DataOverflowError, nothing else;
    from `SourceTieB.makeS_src`, `makeS_error` (History) and `C03_total`. -/
theorem C03_source_capstone_make_total (fit : Bool) (g : Model.Global) (s : Model.QRState) (l : Spec.Level)
    (hg : GInv g) (hver : s.version ≤ 40) (hm : ∀ m, s.mask = some m → m ≤ 7) (hl : s.level = l.indicator)
    (hsegs : ∀ x ∈ s.dataList, x.Valid) :
    (QR.CapstoneE3.makeSrc fit g s).2 = .ok () ∨ (QR.CapstoneE3.makeSrc fit g s).2 = .error .dataOverflow := by
  rw [← QR.CapstoneE3.makeS_eq_makeSrc]
  cases h : makeS fit (g, s) with
  | mk st r =>
    obtain ⟨g', s'⟩ := st
    cases r with
    | ok u => exact Or.inl rfl
    | error e =>
      have hc := (makeS_error hg h).2.2.2.2 hver
      rcases C03_total (cfgOf s fit) ⟨hver, hm⟩ l hl s.dataList hsegs with ⟨r, hr⟩ | hr
      · rw [hc] at hr; cases hr
      · rw [hc] at hr; cases hr; exact Or.inr rfl

set_option maxRecDepth 100000 in
/-- both sides of `C03_source_capstone_iff` at a concrete input, evaluated by the kernel on the assembled translated definitions:
    18 bytes at version 1-L with fitting off - the assembled compile raises DataOverflowError, and `Spec.fits` says `false`
    (17 bytes is the published capacity of 1-L) -/
example : (match compileSrc (bestFitSrc modeSizesSrc (segsBitsSrc (writeBufSrc findBytes1)) Gen.BIT_LIMIT_TABLE bisectLeft checkVersionSrc 4)
        (createDataSrc (segsBitsBufSrc findBytes1) (ecOfBlockSrc rsPolyFor polyMk polyMod)) (makeImplSrc bchDigitSrc) lostPointSrc
        { version := 1, level := Spec.Level.L.indicator, mask := none, fit := false } [⟨4, List.replicate 18 65⟩] with
    | .error .dataOverflow => true
    | _ => false) = true ∧ Spec.fits 1 .L [(.byte, 18)] = false := ⟨by decide +kernel, by decide⟩

end Capstone

/-- the Python functions this property's model mirrors have, in /repo's current working tree, exactly the normalised
    ASTs the model was written and validated against (fingerprints regenerated by T1 on every run) -/
theorem C03_source_fingerprints : QR.Gen.fp_C03 = QR.Pinned.fp_C03 := by decide

/-- **C03 (the other entry points)**: `get_matrix()`, `make_image()`, `print_ascii()` and `print_tty()` on an object
    that has not been compiled yet (sound blank cache, valid settings, valid data - the hypotheses of
    `C16_implicit_compile`) raise nothing but DataOverflowError - and that exactly when the cache-free `compile` of the
    current settings with `fit=True` overflows - except `make_image()`'s ValueError for a non-positive `box_size`
    (raised before any compile) -/
theorem C03_entry_points (g : Model.Global) (s : Model.QRState) (l : Spec.Level)
    (hg : GInv g) (hv : s.version ≤ 40) (hm : ∀ m, s.mask = some m → m ≤ 7) (hl : s.level = l.indicator)
    (hsegs : ∀ x ∈ s.dataList, x.Valid) (hc : s.dataCache = none) (op : Model.Op)
    (hop : op = .getMatrix ∨ op = .makeImage ∨ op = .printAscii ∨ op = .printTty) :
    (∀ e, (Model.step (g, s) op).2 = .err e →
      (e = .dataOverflow ∧
        Model.compile { version := s.version, level := s.level, mask := s.mask, fit := true } s.dataList
          = .error .dataOverflow) ∨
      (e = .valueError ∧ op = .makeImage ∧ s.boxSize ≤ 0)) ∧
    (Model.compile { version := s.version, level := s.level, mask := s.mask, fit := true } s.dataList
        = .error .dataOverflow → ¬ (op = .makeImage ∧ s.boxSize ≤ 0) →
      (Model.step (g, s) op).2 = .err .dataOverflow) := by
  have h : Proofs.Implicit.Pre g s l := ⟨hg, hv, hm, hl, hsegs, hc⟩
  refine ⟨fun e he => Proofs.Implicit.entry_points h op hop e he, fun hov hnb => ?_⟩
  have h1 := Proofs.Implicit.step_getMatrix h
  have h2 := Proofs.Implicit.step_printAscii h
  have h3 := Proofs.Implicit.step_printTty h
  have h4 := Proofs.Implicit.step_makeImage h
  have hov' : Model.compile (Proofs.Implicit.freshCfg s) s.dataList = .error .dataOverflow := hov
  rw [hov'] at h1 h2 h3 h4
  rcases hop with rfl | rfl | rfl | rfl
  · exact h1.2
  · have hb : ¬ s.boxSize ≤ 0 := fun hb => hnb ⟨rfl, hb⟩
    rw [if_neg hb] at h4; exact h4.2
  · exact h2.2
  · exact h3.2

end QR.Props
