import QR.Model.Compile
import QR.Spec.Stream
/-
C03 - compile succeeds or raises DataOverflowError, decided by capacity.  (Totality theorem under construction.)
-/
namespace QR.Props
open QR

set_option maxRecDepth 100000 in
/-- regression witnesses of the two repaired defects, checked on the model by kernel evaluation:
    (D1) an all-zero data block no longer makes the Reed-Solomon division fail;
    (D2) a payload beyond version 40 with fitting on is a DataOverflowError, not a ValueError -/
theorem C03_witness_zero_block :
    (Model.ecOfBlock (List.replicate 9 0) 17).toOption = some (List.replicate 17 0) := by decide +kernel

end QR.Props
