import QR.Model.Compile
import QR.Spec.Reader
import QR.Proofs.ReadBack
import QR.Proofs.Segmentation
import QR.Props.C03
import QR.Props.C09
import QR.Proofs.Pinned
/-
C01 - read (compile cfg payload) = payload.
Every symbol `Model.compile` produces (any valid configuration: version given / fitted, any of the four levels, mask given /
chosen automatically; any list of valid segments, unbounded) is accepted by the strict ISO reader `Spec.read`, which is
composed only of Spec definitions: size -> version, both format copies -> (level, mask), version information, every
function-pattern module, zig-zag read-out and unmasking, zero remainder bits, Table 9 de-interleaving, every block a
Reed-Solomon codeword (all syndromes zero), ISO bit-stream grammar.  The reader returns exactly the segments, hence the
payload.  The proof composes C02 (blocks), C03 (totality, version), C04 (format/version information), C05 (function
patterns, placement), C06 (bit stream), C09 (mask) and C10 (`add_data`).
-/
namespace QR.Props
open QR

/-- the Boolean view of a model matrix handed to the Spec reader -/
def symOf (m : Model.Mat) : Spec.Sym :=
  { n := m.size, get := fun r c => (m.get r c).getD false }

/-- non-vacuity / smoke test of the statement on one concrete symbol: version 1-M, mask 3, payload "hi" -/
theorem C01_example_roundtrip :
    (match Model.compile { version := 1, level := 0, mask := some 3, fit := false } [{ mode := 4, data := [104, 105] }] with
     | .ok (v, m, M) => (match Spec.read (symOf M) with
        | .ok r => r.version == v && r.mask == m && r.payload == [104, 105] && r.level == Spec.Level.M
        | .error _ => false)
     | .error _ => false) = true := by decide +kernel

/-- `compile` = `create_data` followed by the final `makeImpl(False, mask)` (C09, both ways of getting the mask) -/
theorem compile_parts (cfg : Model.Cfg) (segs : List Model.Seg) (v m : Nat) (M : Model.Mat)
    (h : Model.compile cfg segs = .ok (v, m, M)) :
    ∃ data, Model.createData v cfg.level segs = .ok data ∧ Model.makeImpl v cfg.level false m data = .ok M := by
  cases hcm : cfg.mask with
  | some m' =>
    obtain ⟨rfl, data, hd, hM⟩ := C09_explicit cfg segs m' hcm v m M h
    exact ⟨data, hd, hM⟩
  | none =>
    obtain ⟨data, hd, _, hM⟩ := C09_auto_recorded cfg segs hcm v m M h
    exact ⟨data, hd, hM⟩

/-- **C01 (main)**: for every valid configuration, level and list of valid segments, whenever `compile` succeeds the
    strict ISO reader accepts the symbol and returns the version and mask `compile` reports, the requested level, exactly
    the segments (so exactly the payload), with conformant terminator / padding; the version and mask are the requested
    ones where requested -/
theorem C01_read_compile (cfg : Model.Cfg) (hcfg : cfg.Valid) (l : Spec.Level) (hl : cfg.level = l.indicator)
    (segs : List Model.Seg) (hv : ∀ s ∈ segs, s.Valid)
    (ps : List Spec.PSeg) (hp : toPSegs segs = some ps) (v m : Nat) (M : Model.Mat)
    (h : Model.compile cfg segs = .ok (v, m, M)) :
    ∃ r, Spec.read (symOf M) = .ok r ∧ r.version = v ∧ r.level = l ∧ r.mask = m ∧ r.segs = ps ∧
      r.tailConformant = true ∧ r.payload = segs.flatMap (·.data) ∧ (∀ m', cfg.mask = some m' → m = m') ∧
      (cfg.version ≠ 0 → cfg.fit = false → v = cfg.version) ∧ cfg.version ≤ v := by
  obtain ⟨h1, h40, hm7, _⟩ := C03_ok_range cfg hcfg l hl segs hv ps hp v m M h
  obtain ⟨hvs, hmask⟩ := C03_version cfg hcfg l hl segs hv ps hp v m M h
  obtain ⟨data, hd, hM⟩ := compile_parts cfg segs v m M h
  rw [hl] at hd hM
  have hk : m < 8 := by omega
  obtain ⟨hlen, hby, hcode, hstream, _⟩ := Sym.createData_spec v h1 h40 l segs hv ps hp data hd
  obtain ⟨M', hM', hshape, _⟩ := Sym.makeImpl_spec v l.indicator m false data h1 h40 (Sym.indicator_lt l) hk
  rw [hM] at hM'
  injection hM' with hM'
  subst hM'
  have hS : GeoC.Shows (symOf M) (Spec.size v) M := ⟨hshape.1, fun r c _ _ => rfl⟩
  have hread := Sym.read_makeImpl v l m data _ ps true M (symOf M) h1 h40 hk hM hS hlen hby hcode rfl hstream
  refine ⟨_, hread, rfl, rfl, rfl, rfl, rfl, Sym.toPSegs_payload segs ps hp, hmask, ?_, ?_⟩
  · intro h0 hfit
    rw [hfit] at hvs
    exact hvs.1 h0
  · cases hfit : cfg.fit with
    | true =>
      rw [hfit] at hvs
      exact Sym.minVersion_ge _ _ _ _ hvs
    | false =>
      rw [hfit] at hvs
      by_cases h0 : cfg.version = 0
      · omega
      · exact Nat.le_of_eq (hvs.1 h0).symm

/-- the reader also reports the right number of data codewords (ISO Table 7 capacity of (version, level)) -/
theorem C01_data_codewords (cfg : Model.Cfg) (hcfg : cfg.Valid) (l : Spec.Level) (hl : cfg.level = l.indicator)
    (segs : List Model.Seg) (hv : ∀ s ∈ segs, s.Valid)
    (ps : List Spec.PSeg) (hp : toPSegs segs = some ps) (v m : Nat) (M : Model.Mat)
    (h : Model.compile cfg segs = .ok (v, m, M)) :
    ∃ r, Spec.read (symOf M) = .ok r ∧ r.dataCodewords.length = Spec.dataCodewords v l ∧
      Spec.readStream v (Model.writeBytes r.dataCodewords) = some { segs := ps, tailConformant := true } := by
  obtain ⟨h1, h40, hm7, _⟩ := C03_ok_range cfg hcfg l hl segs hv ps hp v m M h
  obtain ⟨data, hd, hM⟩ := compile_parts cfg segs v m M h
  rw [hl] at hd hM
  have hk : m < 8 := by omega
  obtain ⟨hlen, hby, hcode, hstream, hdc⟩ := Sym.createData_spec v h1 h40 l segs hv ps hp data hd
  obtain ⟨M', hM', hshape, _⟩ := Sym.makeImpl_spec v l.indicator m false data h1 h40 (Sym.indicator_lt l) hk
  rw [hM] at hM'
  injection hM' with hM'
  subst hM'
  have hS : GeoC.Shows (symOf M) (Spec.size v) M := ⟨hshape.1, fun r c _ _ => rfl⟩
  exact ⟨_, Sym.read_makeImpl v l m data _ ps true M (symOf M) h1 h40 hk hM hS hlen hby hcode rfl hstream, hdc, hstream⟩

/-- **C01 (`add_data`)**: several `add_data(d, optimize=n)` calls with any byte strings and any thresholds produce valid
    segments that concatenate to exactly the payload - so `C01_read_compile` applies to everything `add_data` produces.
    (`Bytes` is `List Nat` in the model; the hypothesis says the payload consists of bytes.) -/
theorem C01_add_data (calls : List (List Nat × Nat)) (hb : ∀ p ∈ calls, ∀ c ∈ p.1, c < 256) :
    let segs := calls.flatMap fun p => Model.addData p.1 p.2
    (∀ s ∈ segs, s.Valid) ∧ segs.flatMap (·.data) = calls.flatMap (·.1) := by
  intro segs
  constructor
  · intro s hs
    obtain ⟨p, hp, hsp⟩ := List.mem_flatMap.mp hs
    exact Sym.addData_valid p.1 p.2 (hb p hp) s hsp
  · show (calls.flatMap fun p => Model.addData p.1 p.2).flatMap (·.data) = calls.flatMap (·.1)
    clear hb segs
    induction calls with
    | nil => rfl
    | cons p calls ih =>
      rw [List.flatMap_cons, List.flatMap_append, ih, addData_flatMap_data, List.flatMap_cons]

/-- **C01 (end to end)**: payload byte strings added by `add_data` (any thresholds), any valid configuration: whenever
    `make` succeeds, the strict ISO reader returns the concatenated payload, byte for byte -/
theorem C01_roundtrip (cfg : Model.Cfg) (hcfg : cfg.Valid) (l : Spec.Level) (hl : cfg.level = l.indicator)
    (calls : List (List Nat × Nat)) (hb : ∀ p ∈ calls, ∀ c ∈ p.1, c < 256) (v m : Nat) (M : Model.Mat)
    (h : Model.compile cfg (calls.flatMap fun p => Model.addData p.1 p.2) = .ok (v, m, M)) :
    ∃ r, Spec.read (symOf M) = .ok r ∧ r.version = v ∧ r.level = l ∧ r.mask = m ∧ r.tailConformant = true ∧
      r.payload = calls.flatMap (·.1) := by
  obtain ⟨hvalid, hcat⟩ := C01_add_data calls hb
  obtain ⟨ps, hp⟩ := toPSegs_of_valid hvalid
  obtain ⟨r, hr, a1, a2, a3, _, a5, a6, _⟩ := C01_read_compile cfg hcfg l hl _ hvalid ps hp v m M h
  exact ⟨r, hr, a1, a2, a3, a5, a6.trans hcat⟩

/-- the Python functions this property's model mirrors have, in /repo's current working tree, exactly the normalised
    ASTs the model was written and validated against (fingerprints regenerated by T1 on every run) -/
theorem C01_source_fingerprints : QR.Gen.fp_C01 = QR.Pinned.fp_C01 := by decide

end QR.Props
