import QR.Model.Compile
import QR.Spec.Reader
/-
C01 - read (compile cfg payload) = payload.  (Composition theorem under construction; see DESIGN.md 6/C01.)
-/
namespace QR.Props
open QR

/-- the Boolean view of a model matrix handed to the Spec reader -/
def symOf (m : Model.Mat) : Spec.Sym :=
  { n := m.size, get := fun r c => (m.get r c).getD false }

/-- non-vacuity / smoke test of the statement on one concrete symbol: version 1-M, mask 3, payload "hi" -/
theorem C01_example_roundtrip :
    (match Model.compile { version := 1, level := 0, mask := some 3, fit := false } [{ mode := 4, data := [104, 105] }] with
     | .ok (v, m, M) => (match Spec.read (symOf M) with
        | .ok r => r.version == v && r.mask == m && r.payload == [104, 105] && r.level == Spec.Level.M
        | .error _ => false)
     | .error _ => false) = true := by decide +kernel

end QR.Props
