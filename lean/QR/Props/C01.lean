import QR.Model.Compile
import QR.Spec.Reader
import QR.Proofs.ReadBack
import QR.Proofs.Segmentation
import QR.Props.C03
import QR.Props.C09
import QR.Proofs.Pinned
import QR.Proofs.CapstoneE4
/-
C01 - read (compile cfg payload) = payload.
Every symbol `Model.compile` produces (any valid configuration: version given / fitted, any of the four levels, mask given /
chosen automatically; any list of valid segments, unbounded) is accepted by the strict ISO reader `Spec.read`, which is
composed only of Spec definitions: size -> version, both format copies -> (level, mask), version information, every
function-pattern module, zig-zag read-out and unmasking, zero remainder bits, Table 9 de-interleaving, every block a
Reed-Solomon codeword (all syndromes zero), ISO bit-stream grammar.  The reader returns exactly the segments, hence the
payload.  The proof composes C02 (blocks), C03 (totality, version), C04 (format/version information), C05 (function
patterns, placement), C06 (bit stream), C09 (mask) and C10 (`add_data`).
-/
namespace QR.Props
open QR

/-- the Boolean view of a model matrix handed to the Spec reader -/
def symOf (m : Model.Mat) : Spec.Sym :=
  { n := m.size, get := fun r c => (m.get r c).getD false }

/-- non-vacuity / smoke test of the statement on one concrete symbol: version 1-M, mask 3, payload "hi" -/
theorem C01_example_roundtrip :
    (match Model.compile { version := 1, level := 0, mask := some 3, fit := false } [{ mode := 4, data := [104, 105] }] with
     | .ok (v, m, M) => (match Spec.read (symOf M) with
        | .ok r => r.version == v && r.mask == m && r.payload == [104, 105] && r.level == Spec.Level.M
        | .error _ => false)
     | .error _ => false) = true := by decide +kernel

/-- `compile` = `create_data` followed by the final `makeImpl(False, mask)` (C09, both ways of getting the mask) -/
theorem compile_parts (cfg : Model.Cfg) (segs : List Model.Seg) (v m : Nat) (M : Model.Mat)
    (h : Model.compile cfg segs = .ok (v, m, M)) :
    ∃ data, Model.createData v cfg.level segs = .ok data ∧ Model.makeImpl v cfg.level false m data = .ok M := by
  cases hcm : cfg.mask with
  | some m' =>
    obtain ⟨rfl, data, hd, hM⟩ := C09_explicit cfg segs m' hcm v m M h
    exact ⟨data, hd, hM⟩
  | none =>
    obtain ⟨data, hd, _, hM⟩ := C09_auto_recorded cfg segs hcm v m M h
    exact ⟨data, hd, hM⟩

/-- **C01 (main)**: for every valid configuration, level and list of valid segments, whenever `compile` succeeds the
    strict ISO reader accepts the symbol and returns the version and mask `compile` reports, the requested level, exactly
    the segments (so exactly the payload), with conformant terminator / padding; the version and mask are the requested
    ones where requested -/
theorem C01_read_compile (cfg : Model.Cfg) (hcfg : cfg.Valid) (l : Spec.Level) (hl : cfg.level = l.indicator)
    (segs : List Model.Seg) (hv : ∀ s ∈ segs, s.Valid)
    (ps : List Spec.PSeg) (hp : toPSegs segs = some ps) (v m : Nat) (M : Model.Mat)
    (h : Model.compile cfg segs = .ok (v, m, M)) :
    ∃ r, Spec.read (symOf M) = .ok r ∧ r.version = v ∧ r.level = l ∧ r.mask = m ∧ r.segs = ps ∧
      r.tailConformant = true ∧ r.payload = segs.flatMap (·.data) ∧ (∀ m', cfg.mask = some m' → m = m') ∧
      (cfg.version ≠ 0 → cfg.fit = false → v = cfg.version) ∧ cfg.version ≤ v := by
  obtain ⟨h1, h40, hm7, _⟩ := C03_ok_range cfg hcfg l hl segs hv ps hp v m M h
  obtain ⟨hvs, hmask⟩ := C03_version cfg hcfg l hl segs hv ps hp v m M h
  obtain ⟨data, hd, hM⟩ := compile_parts cfg segs v m M h
  rw [hl] at hd hM
  have hk : m < 8 := by omega
  obtain ⟨hlen, hby, hcode, hstream, _⟩ := Sym.createData_spec v h1 h40 l segs hv ps hp data hd
  obtain ⟨M', hM', hshape, _⟩ := Sym.makeImpl_spec v l.indicator m false data h1 h40 (Sym.indicator_lt l) hk
  rw [hM] at hM'
  injection hM' with hM'
  subst hM'
  have hS : GeoC.Shows (symOf M) (Spec.size v) M := ⟨hshape.1, fun r c _ _ => rfl⟩
  have hread := Sym.read_makeImpl v l m data _ ps true M (symOf M) h1 h40 hk hM hS hlen hby hcode rfl hstream
  refine ⟨_, hread, rfl, rfl, rfl, rfl, rfl, Sym.toPSegs_payload segs ps hp, hmask, ?_, ?_⟩
  · intro h0 hfit
    rw [hfit] at hvs
    exact hvs.1 h0
  · cases hfit : cfg.fit with
    | true =>
      rw [hfit] at hvs
      exact Sym.minVersion_ge _ _ _ _ hvs
    | false =>
      rw [hfit] at hvs
      by_cases h0 : cfg.version = 0
      · omega
      · exact Nat.le_of_eq (hvs.1 h0).symm

/-- the reader also reports the right number of data codewords (ISO Table 7 capacity of (version, level)) -/
theorem C01_data_codewords (cfg : Model.Cfg) (hcfg : cfg.Valid) (l : Spec.Level) (hl : cfg.level = l.indicator)
    (segs : List Model.Seg) (hv : ∀ s ∈ segs, s.Valid)
    (ps : List Spec.PSeg) (hp : toPSegs segs = some ps) (v m : Nat) (M : Model.Mat)
    (h : Model.compile cfg segs = .ok (v, m, M)) :
    ∃ r, Spec.read (symOf M) = .ok r ∧ r.dataCodewords.length = Spec.dataCodewords v l ∧
      Spec.readStream v (Model.writeBytes r.dataCodewords) = some { segs := ps, tailConformant := true } := by
  obtain ⟨h1, h40, hm7, _⟩ := C03_ok_range cfg hcfg l hl segs hv ps hp v m M h
  obtain ⟨data, hd, hM⟩ := compile_parts cfg segs v m M h
  rw [hl] at hd hM
  have hk : m < 8 := by omega
  obtain ⟨hlen, hby, hcode, hstream, hdc⟩ := Sym.createData_spec v h1 h40 l segs hv ps hp data hd
  obtain ⟨M', hM', hshape, _⟩ := Sym.makeImpl_spec v l.indicator m false data h1 h40 (Sym.indicator_lt l) hk
  rw [hM] at hM'
  injection hM' with hM'
  subst hM'
  have hS : GeoC.Shows (symOf M) (Spec.size v) M := ⟨hshape.1, fun r c _ _ => rfl⟩
  exact ⟨_, Sym.read_makeImpl v l m data _ ps true M (symOf M) h1 h40 hk hM hS hlen hby hcode rfl hstream, hdc, hstream⟩

/-- **C01 (`add_data`)**: several `add_data(d, optimize=n)` calls with any byte strings and any thresholds produce valid
    segments that concatenate to exactly the payload - so `C01_read_compile` applies to everything `add_data` produces.
    (`Bytes` is `List Nat` in the model; the hypothesis says the payload consists of bytes.) -/
theorem C01_add_data (calls : List (List Nat × Nat)) (hb : ∀ p ∈ calls, ∀ c ∈ p.1, c < 256) :
    let segs := calls.flatMap fun p => Model.addData p.1 p.2
    (∀ s ∈ segs, s.Valid) ∧ segs.flatMap (·.data) = calls.flatMap (·.1) := by
  intro segs
  constructor
  · intro s hs
    obtain ⟨p, hp, hsp⟩ := List.mem_flatMap.mp hs
    exact Sym.addData_valid p.1 p.2 (hb p hp) s hsp
  · show (calls.flatMap fun p => Model.addData p.1 p.2).flatMap (·.data) = calls.flatMap (·.1)
    clear hb segs
    induction calls with
    | nil => rfl
    | cons p calls ih =>
      rw [List.flatMap_cons, List.flatMap_append, ih, addData_flatMap_data, List.flatMap_cons]

/-- **C01 (end to end)**: payload byte strings added by `add_data` (any thresholds), any valid configuration: whenever
    `make` succeeds, the strict ISO reader returns the concatenated payload, byte for byte -/
theorem C01_roundtrip (cfg : Model.Cfg) (hcfg : cfg.Valid) (l : Spec.Level) (hl : cfg.level = l.indicator)
    (calls : List (List Nat × Nat)) (hb : ∀ p ∈ calls, ∀ c ∈ p.1, c < 256) (v m : Nat) (M : Model.Mat)
    (h : Model.compile cfg (calls.flatMap fun p => Model.addData p.1 p.2) = .ok (v, m, M)) :
    ∃ r, Spec.read (symOf M) = .ok r ∧ r.version = v ∧ r.level = l ∧ r.mask = m ∧ r.tailConformant = true ∧
      r.payload = calls.flatMap (·.1) := by
  obtain ⟨hvalid, hcat⟩ := C01_add_data calls hb
  obtain ⟨ps, hp⟩ := toPSegs_of_valid hvalid
  obtain ⟨r, hr, a1, a2, a3, _, a5, a6, _⟩ := C01_read_compile cfg hcfg l hl _ hvalid ps hp v m M h
  exact ⟨r, hr, a1, a2, a3, a5, a6.trans hcat⟩

/-! ### Capstones: (ii) composed with (i) - THE WHOLE COMPILE ASSEMBLED FROM TRANSLATED PARTS satisfies the Spec-level statements.
    `QR.CapstoneE4.compileSrc` (QR/Proofs/CapstoneE4.lean) is the cache-free compile of a fresh object
    (`QRCode(version, error_correction, mask_pattern)`, `data_list = segs`, `make(fit)`) with the statement order, tests and call
    arguments of main.py:QRCode.make as translated (`Gen.Code.make_*`, regenerated from /repo's current Python AST on every run)
    and its four callees as PARAMETERS, instantiated below, explicitly, by the functions assembled from translated fragments:
      `best_fit`            `CapstoneE1.bestFitSrc` (main.py:QRCode.best_fit, every statement; accumulation loop `segsBitsSrc`) over
                            `modeSizesSrc` (util.py:mode_sizes_for_version), `checkVersionSrc` (util.py:check_version, run by the
                            `version` setter), `writeBufSrc` (util.py:QRData.write on the translated BitBuffer: put, put_bit,
                            __len__, get); `Gen.BIT_LIMIT_TABLE` is the table dumped from the running library; 4 = recursion
                            fuel.  Model callee left: `bisectLeft` (bisect.bisect_left of the standard library)
      `create_data`         `CapstoneE4.createDataSrc` (util.py:create_data, length_in_bits, base.py:rs_blocks, util.py:create_bytes
                            with both interleaving loops and the `current_ec` computation `ecOfBlockSrc`) over `segsBitsBufSrc`
                            (the segment loop on the translated BitBuffer: put, put_bit, QRData.__len__, QRData.write, bits read
                            back by the translated __len__ / get).  Model callees left: `rsPolyFor`, `polyMk`, `polyMod` (generator
                            lookup / fallback loop, `Polynomial.__init__`, `Polynomial.__mod__`; tied to the source under C02),
                            and inside `QRData.write` `intOfDigits` (`int(chars)`)
      `makeImpl`            `CapstoneE2.makeImplSrc` (main.py:QRCode.makeImpl with setup_position_probe_pattern,
                            setup_position_adjust_pattern, setup_timing_pattern, util.py:pattern_position, setup_type_info,
                            setup_type_number, util.py:BCH_type_info, BCH_type_number, map_data, the lambdas of util.py:mask_func)
                            over `bchDigitSrc` (util.py:BCH_digit, translated `while` loop)
      `best_mask_pattern`   `CapstoneE4.bestMaskSrc` (inside `compileSrc`: `range(mask_candidates)`, `makeImpl(True, i)`, the
                            translated update test `pick_update`)
      `lost_point`          `CapstoneE4.lostPointSrc` (util.py:lost_point and its four scanners, all translated)
    `find_bytes` = `ALPHA_NUM.find` on a one-character bytes object, with the hypothesis `hfb` of the bridge kept.
    Hand-assembled, not translated: the `for` / `while` skeletons of the assemblers (fuel where a `while` has no static bound),
    the `if pattern == k` dispatch of `mask_func`, the two caches (`data_cache` = `create_data` run once;
    `precomputed_qr_blanks` = always a miss), the representation functions (`bitsBE`, `packBytes`, `Mat.toBMat`: `BitBuffer.put` as
    a bit list, `buffer.buffer`, `self.modules` read as Booleans).
    `compileCallsSrc` puts the translated main.py:QRCode.add_data (`sg_add_data`, with util.py:optimal_data_chunks,
    _optimal_split, QRData.__init__, optimal_mode, to_bytestring; the `re` engine as `SourceTieD1.pyModel F enc`: `searchModel` /
    `matchModel`, `F d ≥ len(d)` iterations for each `while data:`) in front; `qSeg` reads a translated `QRData` object as a
    segment.  `symOf` is the Boolean view of the matrix handed to the reader.  No other Model function occurs in a conclusion.
    All from `QR.CapstoneE4.compileSrc_eq_refined` / `compileCallsSrc_eq_refined` (= `bestFitSrc_eq`, `createDataSrc_eq`,
    `makeImplSrc_eq`, `SourceTie.pick_eq`, `SourceTieD3.lost_point_src`, `segsLoopSrc_eq`, `segWrite_bytes_src`, `bchDigit_src`,
    `addData_src`) and the property theorems above. -/
section Capstone
open QR.Model QR.Gen.Code QR.SourceTieA QR.SourceTieD1 QR.CapstoneE1 QR.CapstoneE2 QR.CapstoneE4

/-- **capstone, main.py:QRCode.make -> best_fit -> util.py:create_data (-> rs_blocks -> create_bytes) -> best_mask_pattern
    (-> makeImpl(True, i) -> util.py:lost_point) -> makeImpl(False, ·) (the whole compile)**: for every valid configuration, each of
    the four levels and every list of valid segments, whenever the compile assembled from the translated source succeeds, the
    strict ISO reader `Spec.read` accepts the symbol and returns the version and mask the compile reports, the requested level,
    exactly the segments - hence exactly the payload bytes -, conformant terminator / padding; the mask and version are the
    requested ones where requested.  From `compileSrc_eq_refined` and `C01_read_compile`. -/
theorem C01_source_capstone_read_compile (find_bytes : List Nat → R Nat) (hfb : ∀ a, find_bytes [a] = alphaFind a)
    (cfg : Model.Cfg) (hcfg : cfg.Valid) (l : Spec.Level) (hl : cfg.level = l.indicator)
    (segs : List Model.Seg) (hv : ∀ s ∈ segs, s.Valid)
    (ps : List Spec.PSeg) (hp : toPSegs segs = some ps) (v m : Nat) (M : Model.Mat)
    (h : compileSrc (bestFitSrc modeSizesSrc (segsBitsSrc (writeBufSrc find_bytes)) Gen.BIT_LIMIT_TABLE bisectLeft checkVersionSrc 4)
        (createDataSrc (segsBitsBufSrc find_bytes) (ecOfBlockSrc rsPolyFor polyMk polyMod)) (makeImplSrc bchDigitSrc) lostPointSrc cfg segs
      = .ok (v, m, M)) :
    ∃ r, Spec.read (symOf M) = .ok r ∧ r.version = v ∧ r.level = l ∧ r.mask = m ∧ r.segs = ps ∧
      r.tailConformant = true ∧ r.payload = segs.flatMap (·.data) ∧ (∀ m', cfg.mask = some m' → m = m') ∧
      (cfg.version ≠ 0 → cfg.fit = false → v = cfg.version) ∧ cfg.version ≤ v := by
  rw [compileSrc_eq_refined find_bytes hfb cfg (hl ▸ Sym.indicator_lt l)] at h
  exact C01_read_compile cfg hcfg l hl segs hv ps hp v m M h

/-- **capstone, main.py:QRCode.add_data (translated, with the segmentation below it) -> the whole compile, end to end**: payload
    byte strings added by `add_data(d, optimize=n)` (any thresholds), any valid configuration: whenever the translated `add_data`
    calls followed by the assembled compile succeed, the strict ISO reader returns the concatenated payload, byte for byte, with
    the version, level and mask of the compile.  From `compileCallsSrc_eq_refined` (`C10_source_addData`) and `C01_roundtrip`. -/
theorem C01_source_capstone_roundtrip (find_bytes : List Nat → R Nat) (hfb : ∀ a, find_bytes [a] = alphaFind a)
    (F enc) (hF : ∀ d : List Nat, d.length ≤ F d)
    (cfg : Model.Cfg) (hcfg : cfg.Valid) (l : Spec.Level) (hl : cfg.level = l.indicator)
    (calls : List (List Nat × Nat)) (hb : ∀ p ∈ calls, ∀ c ∈ p.1, c < 256) (v m : Nat) (M : Model.Mat)
    (h : compileCallsSrc (pyModel F enc)
        (bestFitSrc modeSizesSrc (segsBitsSrc (writeBufSrc find_bytes)) Gen.BIT_LIMIT_TABLE bisectLeft checkVersionSrc 4)
        (createDataSrc (segsBitsBufSrc find_bytes) (ecOfBlockSrc rsPolyFor polyMk polyMod)) (makeImplSrc bchDigitSrc) lostPointSrc cfg calls
      = .ok (v, m, M)) :
    ∃ r, Spec.read (symOf M) = .ok r ∧ r.version = v ∧ r.level = l ∧ r.mask = m ∧ r.tailConformant = true ∧
      r.payload = calls.flatMap (·.1) := by
  rw [compileCallsSrc_eq_refined F enc hF find_bytes hfb cfg (hl ▸ Sym.indicator_lt l)] at h
  exact C01_roundtrip cfg hcfg l hl calls hb v m M h

/-- **capstone, same chain as `C01_source_capstone_read_compile`: the codewords the reader finds** - it reports exactly the ISO
    Table 7 number of data codewords of (version, level), and these, read as a bit stream by the ISO recogniser, are the
    segments with a conformant tail.  From `compileSrc_eq_refined` and `C01_data_codewords`. -/
theorem C01_source_capstone_data_codewords (find_bytes : List Nat → R Nat) (hfb : ∀ a, find_bytes [a] = alphaFind a)
    (cfg : Model.Cfg) (hcfg : cfg.Valid) (l : Spec.Level) (hl : cfg.level = l.indicator)
    (segs : List Model.Seg) (hv : ∀ s ∈ segs, s.Valid)
    (ps : List Spec.PSeg) (hp : toPSegs segs = some ps) (v m : Nat) (M : Model.Mat)
    (h : compileSrc (bestFitSrc modeSizesSrc (segsBitsSrc (writeBufSrc find_bytes)) Gen.BIT_LIMIT_TABLE bisectLeft checkVersionSrc 4)
        (createDataSrc (segsBitsBufSrc find_bytes) (ecOfBlockSrc rsPolyFor polyMk polyMod)) (makeImplSrc bchDigitSrc) lostPointSrc cfg segs
      = .ok (v, m, M)) :
    ∃ r, Spec.read (symOf M) = .ok r ∧ r.dataCodewords.length = Spec.dataCodewords v l ∧
      Spec.readStream v (Model.writeBytes r.dataCodewords) = some { segs := ps, tailConformant := true } := by
  rw [compileSrc_eq_refined find_bytes hfb cfg (hl ▸ Sym.indicator_lt l)] at h
  exact C01_data_codewords cfg hcfg l hl segs hv ps hp v m M h

/-- **capstone, main.py:QRCode.make on the real object, with both caches** (`QR.CapstoneE3.makeSrc`: `make(fit)` assembled from its
    translated pieces `Gen.Code.make_*`; PARTLY translated chain: the callees `best_fit`, `best_mask_pattern`, `makeImpl` inside
    `makeSrc` are the Model's state-threading `bestFitS`, `bestMaskS`, `makeImplS`, tied to the source by `C11_source_*` /
    `C07_source_*` / `C05_source_*`): on any object with valid settings, valid data and a sound process-wide cache of blanks `g`
    (`GInv`), whenever the assembled `make(fit)` returns normally, the strict ISO reader accepts `self.modules` and returns the
    version left in the object, the level, exactly the segments of `data_list` - hence the payload -, conformant tail, and the
    requested mask when one was set; from `SourceTieB.makeS_src`, `makeS_ok` (History) and `C01_read_compile`. -/
theorem C01_source_capstone_make_read (fit : Bool) (g : Model.Global) (s : Model.QRState) (l : Spec.Level)
    (hg : GInv g) (hver : s.version ≤ 40) (hm : ∀ m, s.mask = some m → m ≤ 7) (hl : s.level = l.indicator)
    (hsegs : ∀ x ∈ s.dataList, x.Valid) (ps : List Spec.PSeg) (hp : toPSegs s.dataList = some ps)
    (g' : Model.Global) (s' : Model.QRState) (h : QR.CapstoneE3.makeSrc fit g s = ((g', s'), .ok ())) :
    ∃ r, Spec.read (symOf s'.modules) = .ok r ∧ r.version = s'.version ∧ r.level = l ∧ r.segs = ps ∧
      r.tailConformant = true ∧ r.payload = s.dataList.flatMap (·.data) ∧ (∀ m', s.mask = some m' → r.mask = m') := by
  rw [← QR.CapstoneE3.makeS_eq_makeSrc] at h
  obtain ⟨_, _, _, _, _, _, m, hc⟩ := makeS_ok hg h
  obtain ⟨r, hr, a1, a2, a3, a4, a5, a6, a7, _⟩ :=
    C01_read_compile (cfgOf s fit) ⟨hver, hm⟩ l hl s.dataList hsegs ps hp s'.version m s'.modules hc
  exact ⟨r, hr, a1, a2, a4, a5, a6, fun m' hm' => a3.trans (a7 m' hm')⟩

set_option maxRecDepth 100000 in
/-- `C01_source_capstone_roundtrip` at a concrete input, evaluated by the kernel on the assembled translated definitions:
    `add_data(b"hi")` (default threshold 20), version 1-M, mask 3 - the strict ISO reader returns "hi", version 1, level M, mask 3 -/
example : (match compileCallsSrc (pyModel (fun d => d.length) id)
        (bestFitSrc modeSizesSrc (segsBitsSrc (writeBufSrc findBytes1)) Gen.BIT_LIMIT_TABLE bisectLeft checkVersionSrc 4)
        (createDataSrc (segsBitsBufSrc findBytes1) (ecOfBlockSrc rsPolyFor polyMk polyMod)) (makeImplSrc bchDigitSrc) lostPointSrc
        { version := 1, level := 0, mask := some 3, fit := false } [([104, 105], 20)] with
    | .ok (v, m, M) => (match Spec.read (symOf M) with
        | .ok r => r.version == v && r.mask == m && r.payload == [104, 105] && r.level == Spec.Level.M
        | .error _ => false)
    | _ => false) = true := by decide +kernel

end Capstone

/-- the Python functions this property's model mirrors have, in /repo's current working tree, exactly the normalised
    ASTs the model was written and validated against (fingerprints regenerated by T1 on every run) -/
theorem C01_source_fingerprints : QR.Gen.fp_C01 = QR.Pinned.fp_C01 := by decide

end QR.Props
