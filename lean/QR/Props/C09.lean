import QR.Model.Compile
import QR.Spec.Penalty
import QR.Proofs.Except
import QR.Proofs.SourceTie
import QR.Proofs.Pinned
/-
C09 - automatic mask = first minimiser of the penalty over the eight trial symbols; explicit mask used as given.
-/
namespace QR.Props
open QR QR.Model

/-- the `(min_lost_point, pattern)` loop of `best_mask_pattern` computes the first arg-min, for any scores
    and any number of candidates -/
theorem pick_fold_eq_argmin (f : Nat → Nat) (n : Nat) :
    (List.range (n + 1)).foldl (fun st i => pickMask st i (f i)) (0, 0)
      = (f (Spec.argminFirst (n + 1) f), Spec.argminFirst (n + 1) f) := by
  induction n with
  | zero => simp [pickMask, Spec.argminFirst]
  | succ n ih =>
    rw [List.range_succ, List.foldl_append, ih]
    unfold Spec.argminFirst
    rw [List.range_succ (n := n + 1), List.foldl_append]
    simp only [List.foldl_cons, List.foldl_nil, pickMask]
    have hne : ¬ (n + 1 = 0) := by omega
    by_cases h : f (n + 1) < f (Spec.argminFirst (n + 1) f)
    · unfold Spec.argminFirst at h
      simp [hne, h]
    · unfold Spec.argminFirst at h
      simp [hne, h]

/-- scripted-monad form of the loop: when the eight trial symbols build, the result is the fold above -/
theorem foldlM_pick (v l : Nat) (data : List Nat) (Ms : Nat → Mat) (is : List Nat) (st : Nat × Nat)
    (h : ∀ i ∈ is, makeImpl v l true i data = .ok (Ms i)) :
    is.foldlM (fun (st : Nat × Nat) i => do
        let m ← makeImpl v l true i data
        pure (pickMask st i (lostPoint m.toBMat))) st
      = (.ok (is.foldl (fun st i => pickMask st i (lostPoint (Ms i).toBMat)) st) : R (Nat × Nat)) := by
  induction is generalizing st with
  | nil => rfl
  | cons i is ih =>
    rw [List.foldlM_cons, h i (List.mem_cons_self ..)]
    simp only [List.foldl_cons]
    exact ih _ (fun j hj => h j (List.mem_cons_of_mem _ hj))

/-- **automatic choice**: `best_mask_pattern()` returns the lowest-numbered mask whose trial symbol
    (built with `test = True`, i.e. format/version areas and dark module light) has the least `lost_point` -/
theorem C09_auto (v l : Nat) (data : List Nat) (Ms : Nat → Mat)
    (h : ∀ i, i < 8 → makeImpl v l true i data = .ok (Ms i)) :
    bestMaskPattern v l data = .ok (Spec.argminFirst 8 fun i => lostPoint (Ms i).toBMat) := by
  unfold bestMaskPattern
  rw [foldlM_pick v l data Ms (List.range 8) (0, 0) (fun i hi => h i (List.mem_range.mp hi))]
  rw [pick_fold_eq_argmin (fun i => lostPoint (Ms i).toBMat) 7]
  rfl

/-- **explicit choice**: with `mask_pattern = m` the compile builds the final symbol with exactly `m`
    (the same argument goes to the format information and to `map_data`) and reports it -/
theorem C09_explicit (cfg : Cfg) (segs : List Seg) (m : Nat) (hm : cfg.mask = some m)
    (v k : Nat) (M : Mat) (h : compile cfg segs = .ok (v, k, M)) :
    k = m ∧ ∃ data, createData v cfg.level segs = .ok data ∧ makeImpl v cfg.level false m data = .ok M := by
  unfold compile at h
  rw [hm] at h
  obtain ⟨v', _, h⟩ := R.bind_eq_ok.mp h
  obtain ⟨data, hd, h⟩ := R.bind_eq_ok.mp h
  simp only [R.pure_eq, R.bind_ok] at h
  obtain ⟨M', hM, h⟩ := R.bind_eq_ok.mp h
  injection h with h
  injection h with h1 h2
  injection h2 with h2 h3
  subst h1; subst h2; subst h3
  exact ⟨rfl, data, hd, hM⟩

/-- **automatic choice is recorded and applied**: with no mask given, the final symbol is built with the mask
    `best_mask_pattern` returned -/
theorem C09_auto_recorded (cfg : Cfg) (segs : List Seg) (hm : cfg.mask = none)
    (v k : Nat) (M : Mat) (h : compile cfg segs = .ok (v, k, M)) :
    ∃ data, createData v cfg.level segs = .ok data ∧ bestMaskPattern v cfg.level data = .ok k ∧
      makeImpl v cfg.level false k data = .ok M := by
  unfold compile at h
  rw [hm] at h
  obtain ⟨v', _, h⟩ := R.bind_eq_ok.mp h
  obtain ⟨data, hd, h⟩ := R.bind_eq_ok.mp h
  obtain ⟨k', hb, h⟩ := R.bind_eq_ok.mp h
  obtain ⟨M', hM, h⟩ := R.bind_eq_ok.mp h
  injection h with h
  injection h with h1 h2
  injection h2 with h2 h3
  subst h1; subst h2; subst h3
  exact ⟨data, hd, hb, hM⟩

/-- non-vacuity: a tie between masks 1 and 2 keeps the lower number; a later strict minimum wins -/
example : Spec.argminFirst 8 (fun i => [9, 4, 4, 7, 4, 8, 9, 9].getD i 0) = 1 := by decide
example : Spec.argminFirst 8 (fun i => [9, 4, 4, 7, 3, 8, 3, 9].getD i 0) = 4 := by decide

/-! ### tie to the source: the model's expressions are the ones translated from the current Python AST (T2) -/

/-- the loop of `best_mask_pattern` as it stands in the source: eight candidates built by `makeImpl(True, i)`, running
    minimum updated by the translated test -/
theorem C09_source_loop (st : Nat × Nat) (i lost : Nat) :
    pickMask st i lost = (if Gen.Code.pick_update i st.1 lost then (lost, i) else st) ∧
    Gen.Code.mask_candidates = 8 ∧ Gen.Code.mask_trial_call = "self.makeImpl(True, i)" :=
  ⟨QR.SourceTie.pick_eq st i lost, QR.SourceTie.candidates⟩

/-- the Python functions this property's model mirrors have, in /repo's current working tree, exactly the normalised
    ASTs the model was written and validated against (fingerprints regenerated by T1 on every run) -/
theorem C09_source_fingerprints : QR.Gen.fp_C09 = QR.Pinned.fp_C09 := by decide

end QR.Props
