import QR.Model.Compile
import QR.Spec.Penalty
import QR.Spec.MaskChoice
import QR.Proofs.Except
import QR.Proofs.MaskChoice
import QR.Proofs.SourceTieC09
import QR.Proofs.Pinned
import QR.Proofs.SourceTieD6a
import QR.Proofs.CapstoneE4
/-
C09 - automatic mask = first minimiser of the penalty over the eight trial symbols; explicit mask used as given.
Against the Spec (`C09_chooseMask`): the mask recorded in and applied to a compiled symbol is `Spec.chooseMask` of that
symbol - the ISO minimiser (lowest penalty over the eight candidate symbols, format / version information areas and
dark module light, lowest number on ties) computed from the finished symbol alone.
-/
namespace QR.Props
open QR QR.Model

/-- the `(min_lost_point, pattern)` loop of `best_mask_pattern` computes the first arg-min, for any scores
    and any number of candidates -/
theorem pick_fold_eq_argmin (f : Nat → Nat) (n : Nat) :
    (List.range (n + 1)).foldl (fun st i => pickMask st i (f i)) (0, 0)
      = (f (Spec.argminFirst (n + 1) f), Spec.argminFirst (n + 1) f) := by
  induction n with
  | zero => simp [pickMask, Spec.argminFirst]
  | succ n ih =>
    rw [List.range_succ, List.foldl_append, ih]
    unfold Spec.argminFirst
    rw [List.range_succ (n := n + 1), List.foldl_append]
    simp only [List.foldl_cons, List.foldl_nil, pickMask]
    have hne : ¬ (n + 1 = 0) := by omega
    by_cases h : f (n + 1) < f (Spec.argminFirst (n + 1) f)
    · unfold Spec.argminFirst at h
      simp [hne, h]
    · unfold Spec.argminFirst at h
      simp [hne, h]

/-- scripted-monad form of the loop: when the eight trial symbols build, the result is the fold above -/
theorem foldlM_pick (v l : Nat) (data : List Nat) (Ms : Nat → Mat) (is : List Nat) (st : Nat × Nat)
    (h : ∀ i ∈ is, makeImpl v l true i data = .ok (Ms i)) :
    is.foldlM (fun (st : Nat × Nat) i => do
        let m ← makeImpl v l true i data
        pure (pickMask st i (lostPoint m.toBMat))) st
      = (.ok (is.foldl (fun st i => pickMask st i (lostPoint (Ms i).toBMat)) st) : R (Nat × Nat)) := by
  induction is generalizing st with
  | nil => rfl
  | cons i is ih =>
    rw [List.foldlM_cons, h i (List.mem_cons_self ..)]
    simp only [List.foldl_cons]
    exact ih _ (fun j hj => h j (List.mem_cons_of_mem _ hj))

/-- **automatic choice**: `best_mask_pattern()` returns the lowest-numbered mask whose trial symbol
    (built with `test = True`, i.e. format/version areas and dark module light) has the least `lost_point` -/
theorem C09_auto (v l : Nat) (data : List Nat) (Ms : Nat → Mat)
    (h : ∀ i, i < 8 → makeImpl v l true i data = .ok (Ms i)) :
    bestMaskPattern v l data = .ok (Spec.argminFirst 8 fun i => lostPoint (Ms i).toBMat) := by
  unfold bestMaskPattern
  rw [foldlM_pick v l data Ms (List.range 8) (0, 0) (fun i hi => h i (List.mem_range.mp hi))]
  rw [pick_fold_eq_argmin (fun i => lostPoint (Ms i).toBMat) 7]
  rfl

/-- **explicit choice**: with `mask_pattern = m` the compile builds the final symbol with exactly `m`
    (the same argument goes to the format information and to `map_data`) and reports it -/
theorem C09_explicit (cfg : Cfg) (segs : List Seg) (m : Nat) (hm : cfg.mask = some m)
    (v k : Nat) (M : Mat) (h : compile cfg segs = .ok (v, k, M)) :
    k = m ∧ ∃ data, createData v cfg.level segs = .ok data ∧ makeImpl v cfg.level false m data = .ok M := by
  unfold compile at h
  rw [hm] at h
  obtain ⟨v', _, h⟩ := R.bind_eq_ok.mp h
  obtain ⟨data, hd, h⟩ := R.bind_eq_ok.mp h
  simp only [R.pure_eq, R.bind_ok] at h
  obtain ⟨M', hM, h⟩ := R.bind_eq_ok.mp h
  injection h with h
  injection h with h1 h2
  injection h2 with h2 h3
  subst h1; subst h2; subst h3
  exact ⟨rfl, data, hd, hM⟩

/-- **automatic choice is recorded and applied**: with no mask given, the final symbol is built with the mask
    `best_mask_pattern` returned -/
theorem C09_auto_recorded (cfg : Cfg) (segs : List Seg) (hm : cfg.mask = none)
    (v k : Nat) (M : Mat) (h : compile cfg segs = .ok (v, k, M)) :
    ∃ data, createData v cfg.level segs = .ok data ∧ bestMaskPattern v cfg.level data = .ok k ∧
      makeImpl v cfg.level false k data = .ok M := by
  unfold compile at h
  rw [hm] at h
  obtain ⟨v', _, h⟩ := R.bind_eq_ok.mp h
  obtain ⟨data, hd, h⟩ := R.bind_eq_ok.mp h
  obtain ⟨k', hb, h⟩ := R.bind_eq_ok.mp h
  obtain ⟨M', hM, h⟩ := R.bind_eq_ok.mp h
  injection h with h
  injection h with h1 h2
  injection h2 with h2 h3
  subst h1; subst h2; subst h3
  exact ⟨data, hd, hb, hM⟩

/-! ### the automatic choice against the ISO definition -/

/-- **trial symbols**: in the symbol `best_mask_pattern` builds for a mask (`test = True`) every format cell, every
    version cell (v ≥ 7) and the dark module is light -/
theorem C09_trial_blank (v level mask : Nat) (data : List Nat)
    (h1 : 1 ≤ v) (h40 : v ≤ 40) (hl : level < 4) (hk : mask < 8)
    (M : Mat) (h : makeImpl v level true mask data = .ok M) :
    ∀ r c, r < 4 * v + 17 → c < 4 * v + 17 →
      (Spec.inFormat (4 * v + 17) r c = true ∨ Spec.inVersion v (4 * v + 17) r c = true ∨
        Spec.isDarkModule (4 * v + 17) r c = true) → M.get r c = some false :=
  fun r c hr hc ha => MaskChoice.trial_blank v level mask data h1 h40 hl hk M h r c hr hc ha

/-- **trial symbol = ISO candidate**: the trial symbol for mask `i` is, cell for cell, the candidate symbol the Spec
    derives from the final symbol (built with mask `m`) alone: information areas light, function modules unchanged, data
    modules re-masked from `m` to `i`.  `S` is any Boolean view of the final matrix (`symOf M` of C01 is one). -/
theorem C09_trial_candidate (v level m i : Nat) (data : List Nat)
    (h1 : 1 ≤ v) (h40 : v ≤ 40) (hl : level < 4) (hm : m < 8) (hi : i < 8)
    (M Mi : Mat) (hM : makeImpl v level false m data = .ok M) (hMi : makeImpl v level true i data = .ok Mi)
    (S : Spec.Sym) (hn : S.n = 4 * v + 17)
    (hS : ∀ r c, r < 4 * v + 17 → c < 4 * v + 17 → S.get r c = (M.get r c).getD false) :
    Mi.toBMat = Spec.candidate S v m i :=
  MaskChoice.trial_candidate v level m i data h1 h40 hl hm hi M Mi hM hMi S ⟨hn, hS⟩

/-- the score the code gives a trial symbol is the ISO penalty of the corresponding candidate (C08 on the trial matrix) -/
theorem C09_trial_score (v level m i : Nat) (data : List Nat)
    (h1 : 1 ≤ v) (h40 : v ≤ 40) (hl : level < 4) (hm : m < 8) (hi : i < 8)
    (M Mi : Mat) (hM : makeImpl v level false m data = .ok M) (hMi : makeImpl v level true i data = .ok Mi)
    (S : Spec.Sym) (hn : S.n = 4 * v + 17)
    (hS : ∀ r c, r < 4 * v + 17 → c < 4 * v + 17 → S.get r c = (M.get r c).getD false) :
    lostPoint Mi.toBMat = Spec.penalty (Spec.candidate S v m i) :=
  MaskChoice.trial_score v level m i data h1 h40 hl hm hi M Mi hM hMi S ⟨hn, hS⟩

/-- `makeImpl` level: if `best_mask_pattern` returned `m` for the codewords and the final symbol was built with `m`, then
    `m` is the ISO choice computed from the final symbol -/
theorem C09_chooseMask_makeImpl (v level m : Nat) (data : List Nat)
    (h1 : 1 ≤ v) (h40 : v ≤ 40) (hl : level < 4)
    (hb : bestMaskPattern v level data = .ok m) (M : Mat) (hM : makeImpl v level false m data = .ok M)
    (S : Spec.Sym) (hn : S.n = 4 * v + 17)
    (hS : ∀ r c, r < 4 * v + 17 → c < 4 * v + 17 → S.get r c = (M.get r c).getD false) :
    Spec.chooseMask S v m = m := by
  obtain ⟨Ms, hMs⟩ := MaskChoice.trials_exist v level data h1 h40
  have hauto := C09_auto v level data Ms hMs
  rw [hb] at hauto
  have hm' : m = Spec.argminFirst 8 fun i => lostPoint (Ms i).toBMat := Except.ok.inj hauto
  have hm : m < 8 := MaskChoice.mask_lt_of_makeImpl v level m false data M hM
  rw [MaskChoice.chooseMask_of_trials v level m data h1 h40 hl hm M hM Ms hMs S ⟨hn, hS⟩]
  exact hm'.symm

/-- **C09 (main, against the Spec)**: with no mask requested, the mask recorded in and applied to the compiled symbol is
    exactly the mask ISO 7.8.3 selects, computed by the Spec from that symbol alone: re-mask the data region with each of
    the eight patterns, leave format / version information and dark module light, score with the four penalty rules, take
    the lowest score, lowest number on ties.  `S` is any Boolean view of the compiled matrix (`symOf M` of C01 is one). -/
theorem C09_chooseMask (cfg : Cfg) (hcfg : cfg.Valid) (l : Spec.Level) (hl : cfg.level = l.indicator)
    (segs : List Seg) (hv : ∀ s ∈ segs, s.Valid) (hm : cfg.mask = none)
    (v m : Nat) (M : Mat) (h : compile cfg segs = .ok (v, m, M))
    (S : Spec.Sym) (hn : S.n = M.size) (hS : ∀ r c, S.get r c = (M.get r c).getD false) :
    Spec.chooseMask S v m = m := by
  obtain ⟨ps, hp⟩ := toPSegs_of_valid hv
  obtain ⟨h1, h40, _, _⟩ := QR.Proofs.C03_ok_range cfg hcfg l hl segs hv ps hp v m M h
  obtain ⟨data, _, hb, hM⟩ := C09_auto_recorded cfg segs hm v m M h
  have hli : cfg.level < 4 := hl ▸ Sym.indicator_lt l
  have hsize : M.size = 4 * v + 17 := by
    obtain ⟨M', hM', hshape, _⟩ := Sym.makeImpl_spec v cfg.level m false data h1 h40 hli
      (MaskChoice.mask_lt_of_makeImpl v cfg.level m false data M hM)
    rw [hM] at hM'
    rw [Except.ok.inj hM']
    exact hshape.1
  exact C09_chooseMask_makeImpl v cfg.level m data h1 h40 hli hb M hM S (hn.trans hsize) (fun r c _ _ => hS r c)

/-- non-vacuity / smoke test (`C09_trial_blank`, `C09_trial_candidate`): version 1-M, final symbol with mask 3, trial symbol
    for mask 5: the trial matrix is the Spec candidate; its dark module and a format cell are light, the final dark module
    is dark.  (The whole of `C09_chooseMask` on `compile` with `mask = none`, v = 1, 2 and 7, was checked by `#eval`; in the
    kernel the eight `lost_point` evaluations alone take about a minute, so it is not repeated here; the hypotheses of
    `C09_chooseMask` are satisfiable by `C03_total` / `C03_iff`.) -/
example : (match makeImpl 1 0 false 3 [64, 38, 134, 144, 236, 17], makeImpl 1 0 true 5 [64, 38, 134, 144, 236, 17] with
    | .ok M, .ok Mi => Mi.toBMat == Spec.candidate { n := M.size, get := fun r c => (M.get r c).getD false } 1 3 5
        && Mi.get 13 8 == some false && M.get 13 8 == some true && Mi.get 8 2 == some false
    | _, _ => false) = true := by decide +kernel

/-- non-vacuity: a tie between masks 1 and 2 keeps the lower number; a later strict minimum wins -/
example : Spec.argminFirst 8 (fun i => [9, 4, 4, 7, 4, 8, 9, 9].getD i 0) = 1 := by decide
example : Spec.argminFirst 8 (fun i => [9, 4, 4, 7, 3, 8, 3, 9].getD i 0) = 4 := by decide

/-! ### tie to the source: the model's expressions are the ones translated from the current Python AST (T2) -/

/-- the loop of `best_mask_pattern` as it stands in the source: eight candidates built by `makeImpl(True, i)`, running
    minimum updated by the translated test -/
theorem C09_source_loop (st : Nat × Nat) (i lost : Nat) :
    pickMask st i lost = (if Gen.Code.pick_update i st.1 lost then (lost, i) else st) ∧
    Gen.Code.mask_candidates = 8 ∧ Gen.Code.mask_trial_call = "self.makeImpl(True, i)" :=
  ⟨QR.SourceTie.pick_eq st i lost, QR.SourceTie.candidates⟩

/-! ### Source tie, part 4 (T2 plugin `tools/t2_fragments/frag_d6.py`): small leftovers, translated whole from /repo's current
    Python AST (`QR.Gen.Code.lo_*`, regenerated on every run). Restated verbatim from `QR/Proofs/SourceTieD6*.lean`. -/
section SourceTieD6
open QR.Model QR.Gen.Code QR.SourceTieD6

/-- the callees of the module-level `qrcode.make(data=None, **kwargs)` (qrcode/main.py), in statement order -/
theorem C09_source_make_literals : lo_make_callees = ("QRCode", "add_data", "make_image") ∧ lo_make_data_default = "None" :=
  QR.SourceTieD6.make_literals

/-- `qrcode.make()`: the Model's shortcut (`construct`, then `Op.addData`, then `Op.makeImage`) is the translated statement
    sequence - the constructor gets `**kwargs` and nothing else, `add_data` gets `data` only, `make_image()` no arguments -/
theorem C09_source_makeShortcut_src (g : Global) (kw : MakeKw) (data : Bytes) :
    makeShortcut g kw data =
      lo_make (fun kw : MakeKw => (construct kw.version kw.level kw.boxSize kw.border kw.mask).map (fun s => (g, s)))
        (fun st d => .ok (step st (.addData d 20)).1) (fun st => .ok (step st .makeImage)) kw data :=
  QR.SourceTieD6.makeShortcut_src g kw data

/-- `qrcode.make()` keeps the settings: the object `make_image()` compiles carries the mask, version, level, border and box
    size of the keyword arguments (`Model.construct`) and exactly the segments of `data` -/
theorem C09_source_makeShortcut_settings (g : Global) (kw : MakeKw) (data : Bytes) (s : QRState)
    (h : construct kw.version kw.level kw.boxSize kw.border kw.mask = .ok s) :
    makeShortcut g kw data = .ok (step (g, { s with dataList := addData data 20 }) .makeImage) ∧
    s.mask = kw.mask.map Int.toNat ∧ s.version = (kw.version.getD 0).toNat ∧ s.level = kw.level ∧
    s.border = kw.border.toNat ∧ s.boxSize = kw.boxSize :=
  QR.SourceTieD6.makeShortcut_settings g kw data s h

end SourceTieD6

/-! ### Capstones: (ii) composed with (i) - THE WHOLE COMPILE ASSEMBLED FROM TRANSLATED PARTS satisfies the Spec-level statements.
    `QR.CapstoneE4.compileSrc` (QR/Proofs/CapstoneE4.lean) is the cache-free compile of a fresh object
    (`QRCode(version, error_correction, mask_pattern)`, `data_list = segs`, `make(fit)`) with the statement order, tests and call
    arguments of main.py:QRCode.make as translated (`Gen.Code.make_*`, regenerated from /repo's current Python AST on every run)
    and its four callees as PARAMETERS, instantiated below, explicitly, by the functions assembled from translated fragments:
      `best_fit`            `CapstoneE1.bestFitSrc` (main.py:QRCode.best_fit, every statement; accumulation loop `segsBitsSrc`) over
                            `modeSizesSrc` (util.py:mode_sizes_for_version), `checkVersionSrc` (util.py:check_version, run by the
                            `version` setter), `writeBufSrc` (util.py:QRData.write on the translated BitBuffer: put, put_bit,
                            __len__, get); `Gen.BIT_LIMIT_TABLE` is the table dumped from the running library; 4 = recursion
                            fuel.  Model callee left: `bisectLeft` (bisect.bisect_left of the standard library)
      `create_data`         `CapstoneE4.createDataSrc` (util.py:create_data, length_in_bits, base.py:rs_blocks, util.py:create_bytes
                            with both interleaving loops and the `current_ec` computation `ecOfBlockSrc`) over `segsBitsBufSrc`
                            (the segment loop on the translated BitBuffer: put, put_bit, QRData.__len__, QRData.write, bits read
                            back by the translated __len__ / get).  Model callees left: `rsPolyFor`, `polyMk`, `polyMod` (generator
                            lookup / fallback loop, `Polynomial.__init__`, `Polynomial.__mod__`; tied to the source under C02),
                            and inside `QRData.write` `intOfDigits` (`int(chars)`)
      `makeImpl`            `CapstoneE2.makeImplSrc` (main.py:QRCode.makeImpl with setup_position_probe_pattern,
                            setup_position_adjust_pattern, setup_timing_pattern, util.py:pattern_position, setup_type_info,
                            setup_type_number, util.py:BCH_type_info, BCH_type_number, map_data, the lambdas of util.py:mask_func)
                            over `bchDigitSrc` (util.py:BCH_digit, translated `while` loop)
      `best_mask_pattern`   `CapstoneE4.bestMaskSrc` (inside `compileSrc`: `range(mask_candidates)`, `makeImpl(True, i)`, the
                            translated update test `pick_update`)
      `lost_point`          `CapstoneE4.lostPointSrc` (util.py:lost_point and its four scanners, all translated)
    `find_bytes` = `ALPHA_NUM.find` on a one-character bytes object, with the hypothesis `hfb` of the bridge kept.
    Hand-assembled, not translated: the `for` / `while` skeletons of the assemblers (fuel where a `while` has no static bound),
    the `if pattern == k` dispatch of `mask_func`, the two caches (`data_cache` = `create_data` run once;
    `precomputed_qr_blanks` = always a miss), the representation functions (`bitsBE`, `packBytes`, `Mat.toBMat`: `BitBuffer.put` as
    a bit list, `buffer.buffer`, `self.modules` read as Booleans).
    No other Model function occurs in a conclusion.  All from `QR.CapstoneE4.compileSrc_eq_refined` (= `bestFitSrc_eq`,
    `createDataSrc_eq`, `makeImplSrc_eq`, `SourceTie.pick_eq`, `SourceTieD3.lost_point_src`, `segsLoopSrc_eq`,
    `segWrite_bytes_src`, `bchDigit_src`) and the property theorems above. -/
section Capstone
open QR.Gen.Code QR.SourceTieA QR.CapstoneE1 QR.CapstoneE2 QR.CapstoneE4

/-- **capstone, main.py:QRCode.make -> best_fit -> util.py:create_data -> best_mask_pattern (-> makeImpl(True, i) ->
    util.py:lost_point, eight times) -> makeImpl(False, ·)**: with no mask requested, the mask recorded in and applied to the symbol
    built by the compile assembled from the translated source is exactly the mask ISO 7.8.3 selects, computed by the Spec from
    that symbol alone (`Spec.chooseMask`: re-mask the data region with each of the eight patterns, format / version information
    and dark module light, four penalty rules, lowest score, lowest number on ties).  `S` is any Boolean view of the matrix.
    From `compileSrc_eq_refined` and `C09_chooseMask`. -/
theorem C09_source_capstone_chooseMask (find_bytes : List Nat → R Nat) (hfb : ∀ a, find_bytes [a] = alphaFind a)
    (cfg : Cfg) (hcfg : cfg.Valid) (l : Spec.Level) (hl : cfg.level = l.indicator)
    (segs : List Seg) (hv : ∀ s ∈ segs, s.Valid) (hm : cfg.mask = none) (v m : Nat) (M : Mat)
    (h : compileSrc (bestFitSrc modeSizesSrc (segsBitsSrc (writeBufSrc find_bytes)) Gen.BIT_LIMIT_TABLE bisectLeft checkVersionSrc 4)
        (createDataSrc (segsBitsBufSrc find_bytes) (ecOfBlockSrc rsPolyFor polyMk polyMod)) (makeImplSrc bchDigitSrc) lostPointSrc cfg segs
      = .ok (v, m, M))
    (S : Spec.Sym) (hn : S.n = M.size) (hS : ∀ r c, S.get r c = (M.get r c).getD false) :
    Spec.chooseMask S v m = m := by
  rw [compileSrc_eq_refined find_bytes hfb cfg (hl ▸ Sym.indicator_lt l)] at h
  exact C09_chooseMask cfg hcfg l hl segs hv hm v m M h S hn hS

/-- **capstone, same chain without best_mask_pattern: explicit choice** - with `mask_pattern = m` the assembled compile reports
    `m` and its symbol is the one the source-assembled `makeImpl(False, m)` builds from the codewords of the source-assembled
    `create_data` (the same `m` goes to the format information and to `map_data`, by `C05_source_capstone_info` /
    `C05_source_capstone_map_data`); no hypothesis on the configuration beyond the level being one of the four indicators.
    From `compileSrc_eq_refined`, `C09_explicit`, `createDataSrc_eq_refined`, `makeImplSrc_eq_refined`. -/
theorem C09_source_capstone_explicit (find_bytes : List Nat → R Nat) (hfb : ∀ a, find_bytes [a] = alphaFind a)
    (cfg : Cfg) (hl : cfg.level < 4) (segs : List Seg) (m : Nat) (hm : cfg.mask = some m)
    (v k : Nat) (M : Mat)
    (h : compileSrc (bestFitSrc modeSizesSrc (segsBitsSrc (writeBufSrc find_bytes)) Gen.BIT_LIMIT_TABLE bisectLeft checkVersionSrc 4)
        (createDataSrc (segsBitsBufSrc find_bytes) (ecOfBlockSrc rsPolyFor polyMk polyMod)) (makeImplSrc bchDigitSrc) lostPointSrc cfg segs
      = .ok (v, k, M)) :
    k = m ∧ ∃ data, createDataSrc (segsBitsBufSrc find_bytes) (ecOfBlockSrc rsPolyFor polyMk polyMod) v cfg.level segs = .ok data ∧
      makeImplSrc bchDigitSrc v cfg.level false m data = .ok M := by
  rw [compileSrc_eq_refined find_bytes hfb cfg hl] at h
  have h1 : 1 ≤ v := compile_ok_version_pos h
  obtain ⟨hk, data, hd, hM⟩ := C09_explicit cfg segs m hm v k M h
  exact ⟨hk, data, (createDataSrc_eq_refined find_bytes hfb v cfg.level segs h1).trans hd, (makeImplSrc_eq_refined v cfg.level false m data h1).trans hM⟩

/-- **capstone, main.py:QRCode.best_mask_pattern over makeImpl(True, i) and util.py:lost_point (all source-assembled)**: when the
    eight trial symbols build (`Ms i`, by the source-assembled `makeImpl(True, i)`), the assembled loop returns the
    lowest-numbered mask whose trial symbol has the least ISO penalty (`Spec.penalty`, the four rules of ISO 7.8.3.1, on the
    Boolean reading of the trial matrix).  From `bestMaskSrc_eq` (`C09_source_loop`), `makeImplSrc_eq_refined`,
    `SourceTieD3.lost_point_src`, `C09_auto` and `C08_lost_point`. -/
theorem C09_source_capstone_auto (v l : Nat) (h1 : 1 ≤ v) (hl : l < 4) (data : List Nat) (Ms : Nat → Mat)
    (h : ∀ i, i < 8 → makeImplSrc bchDigitSrc v l true i data = .ok (Ms i)) :
    bestMaskSrc (fun t i => makeImplSrc bchDigitSrc v l t i data) lostPointSrc
      = .ok (Spec.argminFirst 8 fun i => Spec.penalty (Ms i).toBMat) := by
  have h' : ∀ i, i < 8 → makeImpl v l true i data = .ok (Ms i) := fun i hi => by
    rw [← makeImplSrc_eq_refined v l true i data h1]; exact h i hi
  rw [bestMaskSrc_congr _ (fun t i => makeImpl v l t i data) _ (fun m => lostPoint m.toBMat)
    (fun i _ => makeImplSrc_eq_refined v l true i data h1)
    (fun i m hi hm => lostPointSrc_eq m _ (makeImpl_shape h1 hl hi hm)), bestMaskSrc_eq, C09_auto v l data Ms h']
  congr 1
  apply MaskChoice.argminFirst_congr
  intro i hi
  have hs := makeImpl_shape h1 hl hi (h' i hi)
  rw [← lostPointSrc_eq (Ms i) _ hs]
  exact lostPointSrc_eq_penalty (Ms i) _ hs (by unfold Spec.size; omega)

set_option maxRecDepth 100000 in
/-- `C09_source_capstone_explicit` at a concrete input, evaluated by the kernel on the assembled translated definitions: "hi" at
    version 1-M with `mask_pattern = 3` - the assembled compile reports mask 3, version 1, a 21 x 21 symbol with the dark
    module set.  (The automatic choice needs eight `lost_point` evaluations, about a minute in the kernel: not repeated here.) -/
example : (match compileSrc (bestFitSrc modeSizesSrc (segsBitsSrc (writeBufSrc findBytes1)) Gen.BIT_LIMIT_TABLE bisectLeft checkVersionSrc 4)
        (createDataSrc (segsBitsBufSrc findBytes1) (ecOfBlockSrc rsPolyFor polyMk polyMod)) (makeImplSrc bchDigitSrc) lostPointSrc
        { version := 1, level := 0, mask := some 3, fit := false } [{ mode := 4, data := [104, 105] }] with
    | .ok (v, k, M) => v == 1 && k == 3 && M.get 13 8 == some true && M.size == 21
    | _ => false) = true := by decide +kernel

end Capstone

/-- the Python functions this property's model mirrors have, in /repo's current working tree, exactly the normalised
    ASTs the model was written and validated against (fingerprints regenerated by T1 on every run) -/
theorem C09_source_fingerprints : QR.Gen.fp_C09 = QR.Pinned.fp_C09 := by decide

end QR.Props
