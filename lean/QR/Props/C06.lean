import QR.Proofs.Stream
import QR.Proofs.SourceTieC06
import QR.Proofs.Pinned
import QR.Proofs.SourceTieC06w
import QR.Proofs.SourceTieA5
import QR.Proofs.SourceTieT2
import QR.Props.C02
import QR.Proofs.CapstoneE2C06
/-
C06 - the data codewords of every symbol form a conformant ISO bit stream.
Model side: `Model.dataBits` mirrors util.create_data (headers through BitBuffer.put, QRData.write, terminator, bit padding,
alternating pad codewords).  Spec side: `Spec.readStream` is a *parser/recogniser* of the ISO grammar (mode indicator,
count width by version class, group bounds 999/99/9 and 45^2, terminator <= 4 zero bits, zero bits to the codeword
boundary, 0xEC/0x11 alternation up to the capacity).  All statements are for every segment list, every version 1..40,
every level - unbounded in the number and length of segments.
-/
namespace QR.Props
open QR QR.Model

/-- **C06 (main)**: whenever `create_data` does not overflow, the ISO recogniser accepts the produced bit stream,
    returns exactly the segments, and finds terminator / bit padding / pad codewords conformant -/
theorem C06_stream {v : Nat} (h1 : 1 ≤ v) (h40 : v ≤ 40) (l : Spec.Level) {segs : List Seg}
    (hvalid : ∀ s ∈ segs, s.Valid) {ps : List Spec.PSeg} (hps : toPSegs segs = some ps) {all : List Bool}
    (h : dataBits v l.indicator segs = .ok all) :
    Spec.readStream v all = some { segs := ps, tailConformant := true } :=
  _root_.QR.C06_stream h1 h40 l hvalid hps h

/-- the same for the data *codewords* (the packed bytes handed to `create_bytes`): they number exactly the ISO data
    capacity of (v, l), are bytes, and read back to the segments -/
theorem C06_codewords {v : Nat} (h1 : 1 ≤ v) (h40 : v ≤ 40) (l : Spec.Level) {segs : List Seg}
    (hvalid : ∀ s ∈ segs, s.Valid) {ps : List Spec.PSeg} (hps : toPSegs segs = some ps) {all : List Bool}
    (h : dataBits v l.indicator segs = .ok all) :
    Spec.readStream v (writeBytes (packBytes all)) = some { segs := ps, tailConformant := true } ∧
    (packBytes all).length = Spec.dataCodewords v l ∧ ∀ b ∈ packBytes all, b < 256 :=
  _root_.QR.C06_codewords h1 h40 l hvalid hps h

/-- overflow is decided exactly by the closed-form stream length against the capacity (shared with C03) -/
theorem C06_overflow_iff {v : Nat} (h1 : 1 ≤ v) (h40 : v ≤ 40) (l : Spec.Level) {segs : List Seg}
    (hvalid : ∀ s ∈ segs, s.Valid) {ps : List Spec.PSeg} (hps : toPSegs segs = some ps) :
    dataBits v l.indicator segs = .error .dataOverflow ↔ Spec.streamBits v (segCounts ps) > Spec.capacityBits v l :=
  _root_.QR.C06_overflow_iff h1 h40 l hvalid hps

/-- and otherwise `create_data` (up to `create_bytes`) succeeds: no other error for valid segments -/
theorem C06_ok_of_fits {v : Nat} (h1 : 1 ≤ v) (h40 : v ≤ 40) (l : Spec.Level) {segs : List Seg}
    (hvalid : ∀ s ∈ segs, s.Valid) {ps : List Spec.PSeg} (hps : toPSegs segs = some ps)
    (hfit : Spec.streamBits v (segCounts ps) ≤ Spec.capacityBits v l) :
    ∃ all, dataBits v l.indicator segs = .ok all :=
  _root_.QR.C06_ok_of_fits h1 h40 l hvalid hps hfit

/-- a character count never overflows its count field in a stream that fits (so `put(len, width)` loses nothing) -/
theorem C06_count_fits {v : Nat} (h1 : 1 ≤ v) (h40 : v ≤ 40) (l : Spec.Level) {ps : List Spec.PSeg}
    (hfit : Spec.streamBits v (segCounts ps) ≤ Spec.capacityBits v l) :
    ∀ p ∈ ps, p.data.length < 2 ^ Spec.countWidth v p.mode :=
  _root_.QR.count_fits_of_fits h1 h40 l hfit

/-- count widths = ISO Table 3 for all 40 versions x 3 modes (class boundaries 9|10 and 26|27); tables from the source -/
theorem C06_count_widths : ∀ v, v < 40 → ∀ m ∈ allModes,
    Model.lengthInBits m.indicator (v + 1) = .ok (Spec.countWidth (v + 1) m) := C06_widths

/-- mode indicators, pad codewords, numeric group widths, alphanumeric table = ISO -/
theorem C06_iso_constants :
    Gen.MODE_NUMBER = Spec.Mode.numeric.indicator ∧ Gen.MODE_ALPHA_NUM = Spec.Mode.alnum.indicator ∧
    Gen.MODE_8BIT_BYTE = Spec.Mode.byte.indicator ∧ Gen.PAD0 = 0xEC ∧ Gen.PAD1 = 0x11 ∧
    Gen.NUMBER_LENGTH = [(1, 4), (2, 7), (3, 10)] ∧ Gen.ALPHA_NUM = Spec.alnumTable := C06_constants

/-- non-vacuity: a mixed three-segment list at version 2-L satisfies the hypotheses -/
example : (∀ s ∈ ([⟨1, [49, 50, 51, 52]⟩, ⟨2, [65, 32, 66]⟩, ⟨4, [0, 255, 104]⟩] : List Seg), s.Valid) := by
  intro s hs
  simp only [List.mem_cons, List.mem_nil_iff, or_false] at hs
  rcases hs with rfl | rfl | rfl
  · left; exact ⟨rfl, by decide⟩
  · right; left; exact ⟨rfl, by decide⟩
  · right; right; exact ⟨rfl, by decide⟩

/-! ### tie to the source: the model's expressions are the ones translated from the current Python AST (T2) -/

/-- version-class boundaries of `mode_sizes_for_version` as they stand in the source -/
theorem C06_source_class (v : Nat) : Gen.Code.mode_size_class v = Model.sizeClass v := QR.SourceTie.sizeClass_eq v

/-- `create_data` with the overflow test, terminator length and pad alternation translated from the source -/
theorem C06_source_create_data (version level : Nat) (segs : List Seg) :
    dataBits version level segs = (do
      let buffer ← segsBits (fun m => lengthInBits m version) segs
      let blocks ← rsBlocks version level
      let bitLimit := (blocks.map fun b => b.2 * 8).sum
      if Gen.Code.overflow_test buffer.length bitLimit then .error .dataOverflow
      else
        let buffer := buffer ++ List.replicate (Gen.Code.terminator_len buffer.length bitLimit) false
        let delimit := buffer.length % 8
        let buffer := if delimit ≠ 0 then buffer ++ List.replicate (8 - delimit) false else buffer
        let bytesToFill := (bitLimit - buffer.length) / 8
        pure (buffer ++ padBytes bytesToFill)) ∧
    (∀ n, padBytes n = (List.range n).flatMap fun i => bitsBE (if Gen.Code.pad_first i then Gen.PAD0 else Gen.PAD1) 8) ∧
    Gen.Code.pad_names = ("PAD0", "PAD1") :=
  ⟨QR.SourceTie.dataBits_eq version level segs, QR.SourceTie.padBytes_eq, QR.SourceTie.createData_pieces.2.2.2⟩


/-! ### Source tie, part 2 (T2 plugins `tools/t2_fragments/`): the hand-written Model equals the definitions translated from
    /repo's current Python AST (`QR.Gen.Code`, regenerated on every run). Restated verbatim from `QR/Proofs/SourceTie*.lean`. -/
section SourceTieT2
open QR.Model QR.Gen.Code QR.SourceTieA

theorem C06_source_mode_consts_src : const_MODE_NUMBER = Gen.MODE_NUMBER ∧ const_MODE_ALPHA_NUM = Gen.MODE_ALPHA_NUM ∧
    const_MODE_8BIT_BYTE = Gen.MODE_8BIT_BYTE ∧ const_MODE_KANJI = Gen.MODE_KANJI :=
  QR.SourceTieA.mode_consts_src

theorem C06_source_length_in_bits_literals : length_in_bits_exception = "TypeError" ∧
    length_in_bits_check = "check_version(version)" ∧ length_in_bits_table = "mode_sizes_for_version(version)" :=
  QR.SourceTieA.length_in_bits_literals

/-- **length_in_bits**: the translated mode test (`mode not in (MODE_NUMBER, MODE_ALPHA_NUM, MODE_8BIT_BYTE,
    MODE_KANJI)` → TypeError), then `check_version(version)` (translated by T2 as `check_version_bad`), then the lookup
    `mode_sizes_for_version(version)[mode]` with T2's `mode_size_class` choosing the dictionary. -/
theorem C06_source_lengthInBits_src (mode version : Nat) :
    lengthInBits mode version =
      if length_in_bits_bad_mode mode then .error .typeError
      else if check_version_bad (version : Int) then .error .valueError
      else dictGet (match mode_size_class version with
                    | 0 => Gen.MODE_SIZE_SMALL
                    | 1 => Gen.MODE_SIZE_MEDIUM
                    | _ => Gen.MODE_SIZE_LARGE) (length_in_bits_key mode) :=
  QR.SourceTieA.lengthInBits_src mode version

/-- `QRData.__len__` returns `len(self.data)` (the Model uses `s.data.length` for the character count) -/
theorem C06_source_qrdata_len_src (n : Nat) : qrdata_len n = n :=
  QR.SourceTieA.qrdata_len_src n

end SourceTieT2


/-! ### Source tie, part 2 (T2 plugins `tools/t2_fragments/`): (second plugin round, `frag_c.py`) the hand-written Model equals the definitions translated from
    /repo's current Python AST (`QR.Gen.Code`, regenerated on every run). Restated verbatim from `QR/Proofs/SourceTie*.lean`. -/
section SourceTieT2b
open QR.Model QR.Gen QR.Gen.Code QR.SourceTieT

theorem C06_source_bbInit_src : bb_init = bbRep [] :=
  QR.SourceTieT.bbInit_src

theorem C06_source_bbLen_src (bits : List Bool) : bb_len (bbRep bits).1 (bbRep bits).2 = bits.length :=
  QR.SourceTieT.bbLen_src bits

/-- **BitBuffer.put_bit**: on the object that represents the bit list `bits`, `put_bit(b)` never raises and yields the object
    that represents `bits ++ [b]` (`buffer` = the Model's `packBytes`, `length` = the number of bits). -/
theorem C06_source_put_bit_src {ε : Type} (e : ε) (bits : List Bool) (b : Bool) :
    bb_put_bit e (bbRep bits).1 (bbRep bits).2 b = .ok (bbRep (bits ++ [b])) :=
  QR.SourceTieT.put_bit_src e bits b

/-- **BitBuffer.put** on the translated `put_bit`: the byte list / length pair after `put(num, length)` is the Model's
    packing of `bits ++ bitsBE num length`; no exception. -/
theorem C06_source_put_src (bits : List Bool) (num length : Nat) :
    bb_put (fun (s : List Nat × Nat) b => bb_put_bit Err.indexError s.1 s.2 b) (bbRep bits) num length
      = .ok (bbRep (bits ++ bitsBE num length)) :=
  QR.SourceTieT.put_src bits num length

/-- **BitBuffer.get**: on the object representing `bits`, `get(index)` returns `bits[index]` for every index below the length
    (the Model has no `get`: it keeps the bit list itself). `math.floor(index / 8)` is read as floor division. -/
theorem C06_source_get_src {ε : Type} (e : ε) (bits : List Bool) (index : Nat) (h : index < bits.length) :
    bb_get e (bbRep bits).1 (bbRep bits).2 index = .ok bits[index] :=
  QR.SourceTieT.get_src e bits index h

/-- the module-level constants read by `write` -/
theorem C06_source_write_consts_src : qw_MODE_NUMBER = Gen.MODE_NUMBER ∧ qw_MODE_ALPHA_NUM = Gen.MODE_ALPHA_NUM ∧
    qw_MODE_8BIT_BYTE = Gen.MODE_8BIT_BYTE ∧ qw_ALPHA_NUM = Gen.ALPHA_NUM :=
  QR.SourceTieT.write_consts_src

/-- `NUMBER_LENGTH[k]` on the dict literal of the source = the Model's lookup in the (sorted) generated table, KeyError included -/
theorem C06_source_number_length_src (k : Nat) : qw_lookup Err.keyError qw_NUMBER_LENGTH k = dictGet Gen.NUMBER_LENGTH k :=
  QR.SourceTieT.number_length_src k

/-- `ALPHA_NUM.find(c)` for an int `c`, "not found" (-1 in Python) being the Model's rejection -/
theorem C06_source_alphaFind_src (c : Nat) : qw_find_in Err.other qw_ALPHA_NUM c = alphaFind c :=
  QR.SourceTieT.alphaFind_src c

/-- **QRData.write** on the Model's own buffer (the bit list): `write` appends `segWrite s` -/
theorem C06_source_segWrite_src (find_bytes : List Nat → R Nat) (hfb : ∀ a, find_bytes [a] = alphaFind a) (s : Seg) (pre : List Bool) :
    qw_write Err.keyError Err.indexError Err.other intOfDigits find_bytes (fun bits n l => .ok (bits ++ bitsBE n l))
        s.mode s.data pre
      = (segWrite s).map fun bits => pre ++ bits :=
  QR.SourceTieT.segWrite_src find_bytes hfb s pre

/-- **QRData.write over the translated BitBuffer**: with `buffer.put` = the translated `put` over the translated `put_bit`,
    the Python object `(buffer.buffer, buffer.length)` after `write` is the Model's packing of `pre ++ segWrite s`. -/
theorem C06_source_segWrite_bytes_src (find_bytes : List Nat → R Nat) (hfb : ∀ a, find_bytes [a] = alphaFind a) (s : Seg) (pre : List Bool) :
    qw_write Err.keyError Err.indexError Err.other intOfDigits find_bytes
        (fun self n l => bb_put (fun (st : List Nat × Nat) b => bb_put_bit Err.indexError st.1 st.2 b) self n l)
        s.mode s.data (bbRep pre)
      = (segWrite s).map fun bits => bbRep (pre ++ bits) :=
  QR.SourceTieT.segWrite_bytes_src find_bytes hfb s pre

end SourceTieT2b

/-! ### Capstones: (ii) composed with (i) - the TRANSLATED SOURCE satisfies the Spec-level statements.
    The `…Src` functions (`QR/Proofs/CapstoneE2.lean`) are the right-hand sides of the bridge theorems above: the Python function
    assembled from the `QR.Gen.Code` fragments, with each callee that is not translated in place as an explicit parameter. -/
section Capstone
open QR.Model QR.Gen QR.Gen.Code QR.SourceTieA QR.SourceTieT QR.CapstoneE2

/-- the source-assembled `create_data` (up to `create_bytes`) with the source-assembled `length_in_bits` and `rs_blocks` is
    `Model.dataBits`, for every version ≥ 1; from `C06_source_create_data`, `C06_source_lengthInBits_src`, `C02_source_rsBlocks_src` -/
theorem C06_source_dataBitsSrc_eq (v level : Nat) (segs : List Seg) (hv : 1 ≤ v) :
    dataBitsSrc segsBits lengthInBitsSrc rsBlocksSrc v level segs = dataBits v level segs := by
  rw [(C06_source_create_data v level segs).1]
  unfold dataBitsSrc
  have e1 : (fun m => lengthInBitsSrc m v) = (fun m => lengthInBits m v) := by
    funext m; exact (C06_source_lengthInBits_src m v).symm
  rw [e1, C02_source_rsBlocksSrc_eq v level hv]
  simp only [(C06_source_create_data v level segs).2.1]

/-- **capstone, util.py:create_data up to the call of create_bytes** (translated: overflow test, terminator length, pad
    alternation; `util.py:length_in_bits` and `base.py:rs_blocks` source-assembled; partly translated chain: the segment loop
    writing the headers and calling `QRData.write` is the parameter `segs_bits`, instantiated by `Model.segsBits` - tied to the
    translated `BitBuffer.put` / `QRData.write` by `C06_source_put_src`, `C06_source_segWrite_src`, and used in its translated
    form in `C06_source_capstone_bitbuffer` below): whenever the source-assembled `create_data` does not raise, the ISO recogniser
    `Spec.readStream` accepts the produced bit stream, returns exactly the segments, and finds terminator / bit padding / pad
    codewords conformant; from `C06_source_dataBitsSrc_eq` and `C06_stream`. -/
theorem C06_source_capstone_stream {v : Nat} (h1 : 1 ≤ v) (h40 : v ≤ 40) (l : Spec.Level) {segs : List Seg}
    (hvalid : ∀ s ∈ segs, s.Valid) {ps : List Spec.PSeg} (hps : toPSegs segs = some ps) {all : List Bool}
    (h : dataBitsSrc segsBits lengthInBitsSrc rsBlocksSrc v l.indicator segs = .ok all) :
    Spec.readStream v all = some { segs := ps, tailConformant := true } := by
  rw [C06_source_dataBitsSrc_eq v l.indicator segs h1] at h
  exact C06_stream h1 h40 l hvalid hps h

/-- **capstone, util.py:create_data → base.py:rs_blocks → util.py:create_bytes (the whole of create_data)**: same coverage as
    `C06_source_capstone_stream` for the stream and as `C02_source_capstone_blocks` for the blocks (parameters instantiated by Model
    functions: `Model.segsBits`, and inside `current_ec` `Model.polyMk`, `Model.polyMod`, `Model.rsPolyFor`).  For every
    version 1..40, level and list of valid segments that fits: packing the source-assembled bit stream into bytes and passing it
    through the translated `rs_blocks` and `create_bytes` succeeds and yields exactly the ISO total number of codewords; the
    reader's de-interleaving (ISO Table 9) returns blocks whose data parts, concatenated and read as a bit stream by the ISO
    recogniser, give back exactly the segments with a conformant tail; and every block is a codeword of the ISO Reed-Solomon
    code; from `C06_codewords` (via `C06_source_dataBitsSrc_eq`) and `C02_source_capstone_blocks`. -/
theorem C06_source_capstone_create_data {v : Nat} (h1 : 1 ≤ v) (h40 : v ≤ 40) (l : Spec.Level) {segs : List Seg}
    (hvalid : ∀ s ∈ segs, s.Valid) {ps : List Spec.PSeg} (hps : toPSegs segs = some ps) {all : List Bool}
    (h : dataBitsSrc segsBits lengthInBitsSrc rsBlocksSrc v l.indicator segs = .ok all) :
    ∃ cw, (rsBlocksSrc v l.indicator >>= fun blocks =>
            createBytesSrc (ecOfBlockSrc rsPolyFor polyMk polyMod) (packBytes all) blocks) = .ok cw ∧
      cw.length = Spec.totalCodewords v ∧
      Spec.readStream v (writeBytes ((Spec.blocksOf v l cw).flatMap (·.data))) =
        some { segs := ps, tailConformant := true } ∧
      ∀ b ∈ Spec.blocksOf v l cw, Spec.isCodeword (Spec.eccLen v l) (b.data ++ b.ec) = true := by
  have h' := h
  rw [C06_source_dataBitsSrc_eq v l.indicator segs h1] at h'
  obtain ⟨hr, hlen, hb⟩ := C06_codewords h1 h40 l hvalid hps h'
  obtain ⟨v', rfl⟩ : ∃ v', v = v' + 1 := ⟨v - 1, by omega⟩
  obtain ⟨cw, hc1, hc2, hc3, hc4⟩ := C02_source_capstone_blocks v' (by omega) l (packBytes all) hlen hb
  exact ⟨cw, hc1, hc2, by rw [hc3]; exact hr, hc4⟩

/-- **capstone, util.py:QRData.write / QRData.__len__ / BitBuffer.put / put_bit / get / __len__ inside util.py:create_data**: the
    segment loop of `create_data` run on the Python object `(buffer.buffer, buffer.length)` with the translated `put` over the
    translated `put_bit`, the translated `QRData.write` and the source-assembled `length_in_bits` (`segsLoopSrc`; the `for`
    skeleton is hand-assembled; `find_bytes` = `ALPHA_NUM.find` on a one-character bytes object, hypothesis `hfb` of the bridge
    kept; `int(chars)` = `Model.intOfDigits`), started on the translated `BitBuffer()`.  If that loop returns the object `o`, and
    `bits` is the content of `o` as the translated `BitBuffer.__len__` / `BitBuffer.get` report it, and the rest of the
    source-assembled `create_data` (overflow test, terminator, padding - on the bit list) turns `bits` into `all`, then the ISO
    recogniser accepts `all`, returns exactly the segments, tail conformant; from `C06_source_put_src`,
    `C06_source_segWrite_bytes_src` (through `QR.CapstoneE2.segsLoopSrc_eq`), `C06_source_bbInit_src`, `C06_source_bbLen_src`,
    `C06_source_get_src` and `C06_source_capstone_stream`. -/
theorem C06_source_capstone_bitbuffer {v : Nat} (h1 : 1 ≤ v) (h40 : v ≤ 40) (l : Spec.Level) {segs : List Seg}
    (hvalid : ∀ s ∈ segs, s.Valid) {ps : List Spec.PSeg} (hps : toPSegs segs = some ps)
    (find_bytes : List Nat → R Nat) (hfb : ∀ a, find_bytes [a] = alphaFind a)
    {o : List Nat × Nat} (ho : segsLoopSrc (fun m => lengthInBitsSrc m v) find_bytes segs bb_init = .ok o)
    {bits : List Bool} (hlen : bits.length = bb_len o.1 o.2)
    (hget : ∀ i (hi : i < bits.length), bb_get Err.indexError o.1 o.2 i = .ok bits[i])
    {all : List Bool}
    (h : dataBitsSrc (fun _ _ => .ok bits) lengthInBitsSrc rsBlocksSrc v l.indicator segs = .ok all) :
    Spec.readStream v all = some { segs := ps, tailConformant := true } := by
  rw [C06_source_bbInit_src, segsLoopSrc_eq _ find_bytes hfb segs []] at ho
  cases hsb : segsBits (fun m => lengthInBitsSrc m v) segs with
  | error e => rw [hsb] at ho; cases ho
  | ok bits' =>
    rw [hsb] at ho
    have ho' : bbRep ([] ++ bits') = o := Except.ok.inj ho
    rw [List.nil_append] at ho'
    subst ho'
    rw [C06_source_bbLen_src] at hlen
    have hbits : bits = bits' := by
      apply List.ext_getElem hlen
      intro i hi hi'
      have := hget i hi
      rw [C06_source_get_src Err.indexError bits' i hi'] at this
      exact (Except.ok.inj this).symm
    apply C06_source_capstone_stream h1 h40 l hvalid hps (all := all)
    rw [← h]
    unfold dataBitsSrc
    rw [hsb, hbits]

/-- **capstone, same chain as `C06_source_capstone_stream`, for the data codewords** (the packed bytes handed to `create_bytes`):
    they number exactly the ISO data capacity of (v, l), are bytes, and read back to the segments; from
    `C06_source_dataBitsSrc_eq` and `C06_codewords`. -/
theorem C06_source_capstone_codewords {v : Nat} (h1 : 1 ≤ v) (h40 : v ≤ 40) (l : Spec.Level) {segs : List Seg}
    (hvalid : ∀ s ∈ segs, s.Valid) {ps : List Spec.PSeg} (hps : toPSegs segs = some ps) {all : List Bool}
    (h : dataBitsSrc segsBits lengthInBitsSrc rsBlocksSrc v l.indicator segs = .ok all) :
    Spec.readStream v (writeBytes (packBytes all)) = some { segs := ps, tailConformant := true } ∧
    (packBytes all).length = Spec.dataCodewords v l ∧ ∀ b ∈ packBytes all, b < 256 := by
  rw [C06_source_dataBitsSrc_eq v l.indicator segs h1] at h
  exact C06_codewords h1 h40 l hvalid hps h

/-- the capstones at a concrete input, the ISO Annex I example: "01234567" in numeric mode at version 1-M.  The source-assembled
    `create_data` yields the 16 published data codewords and the ISO recogniser accepts the stream; the segment loop on the
    translated BitBuffer leaves the object (6 bytes, 41 bits) -/
example : (match dataBitsSrc segsBits lengthInBitsSrc rsBlocksSrc 1 Spec.Level.M.indicator
        [{ mode := 1, data := [48, 49, 50, 51, 52, 53, 54, 55] }] with
    | .ok all =>
        packBytes all == [0x10, 0x20, 0x0C, 0x56, 0x61, 0x80, 0xEC, 0x11, 0xEC, 0x11, 0xEC, 0x11, 0xEC, 0x11, 0xEC, 0x11] &&
        (Spec.readStream 1 all).isSome
    | .error _ => false) = true := by decide +kernel

example : segsLoopSrc (fun m => lengthInBitsSrc m 1) (fun l => match l with | [a] => alphaFind a | _ => .error .other)
      [{ mode := 1, data := [48, 49, 50, 51, 52, 53, 54, 55] }] bb_init = .ok ([0x10, 0x20, 0x0C, 0x56, 0x61, 0x80], 41) := by
  decide +kernel

end Capstone

/-- the Python functions this property's model mirrors have, in /repo's current working tree, exactly the normalised
    ASTs the model was written and validated against (fingerprints regenerated by T1 on every run) -/
theorem C06_source_fingerprints : QR.Gen.fp_C06 = QR.Pinned.fp_C06 := by decide

/-- `QRData.write` as it stands in the source: digit groups of 3, alphanumeric pairs 45·a+b in 11 bits, singles in 6, bytes in 8 -/
theorem C06_source_write :
    Gen.Code.write_steps = [3, 2] ∧
    Gen.Code.write_puts = ["buffer.put(int(chars), bit_length)", "buffer.put(c, 8)",
      "buffer.put(ALPHA_NUM.find(chars[0]) * 45 + ALPHA_NUM.find(chars[1]), 11)", "buffer.put(ALPHA_NUM.find(chars), 6)"] :=
  QR.SourceTie.write_literals

end QR.Props
