import QR.Proofs.C02Tables
import QR.Proofs.Interleave
import QR.Proofs.RSDiv
import QR.Proofs.Distance
import QR.Proofs.Pinned
import QR.Proofs.SourceTieA3
import QR.Proofs.SourceTieA4
import QR.Proofs.SourceTieA5b
import QR.Proofs.SourceTieD6a
import QR.Proofs.CapstoneE2C02
/-
C02 - every error-correction block is a codeword of the ISO Reed-Solomon code; block structure = ISO Table 9.
-/
namespace QR.Props
open QR QR.Model

/-- `EXP_TABLE[i] = α^i` in GF(2)[x]/(x^8+x^4+x^3+x^2+1) for all 255 exponents (tables regenerated from the source) -/
theorem C02_field : ∀ i, i < 255 → Gen.EXP_TABLE[i]? = some (Spec.gfpow Spec.alpha i) := C02_field_exp

/-- `LOG_TABLE` inverts `EXP_TABLE` on the 255 non-zero field elements -/
theorem C02_log : ∀ a, a < 255 →
    (Gen.LOG_TABLE[a + 1]?).bind (fun k => if k < 255 then Gen.EXP_TABLE[k]? else none) = some (a + 1) := C02_field_log

/-- the generator look-up table holds the ISO generator ∏_{i<e}(x − α^i) for each of the 13 block shapes ... -/
theorem C02_generators : ∀ e ∈ eccLengths, Gen.rsPoly_LUT.lookup e = some (Spec.generator e) := C02_genpoly

/-- ... which is monic of degree e, has no zero coefficient and vanishes at α^0 .. α^(e-1) -/
theorem C02_roots : ∀ e ∈ eccLengths,
    (Spec.generator e).length = e + 1 ∧ (Spec.generator e).head? = some 1 ∧ (∀ c ∈ Spec.generator e, c ≠ 0 ∧ c < 256) ∧
    ∀ i, i < e → Spec.peval (Spec.gfpow Spec.alpha i) (Spec.generator e) = 0 := C02_generator_roots

/-- `rs_blocks(v, level)` = ISO Table 9 (number of blocks, total and data codewords, short blocks first), 160 pairs -/
theorem C02_table9 : ∀ v, v < 40 → ∀ l ∈ allLevels,
    Model.rsBlocks (v + 1) l.indicator = .ok (Spec.isoBlocks (v + 1) l) := C02_table

/-- interleaving is exactly undone by the reader's de-interleaving, for ANY list of blocks -/
theorem C02_interleave (blocks : List (List Nat)) :
    Spec.deinterleave (blocks.map List.length) (Model.interleave blocks) = blocks :=
  QR.Interleave.deinterleave_interleave blocks

/-- block structure of `create_bytes` for every (version, level) and every data content: the reader's view of the
    codeword sequence is the consecutive slices of the data (Table 9 lengths) each followed by its own EC codewords,
    nothing lost or reordered (hypothesis: per-block EC computation is total with the right length - discharged by the
    Reed-Solomon division theorem) -/
theorem C02_block_structure (v : Nat) (hv : v < 40) (l : Spec.Level) (buf : List Nat)
    (hlen : buf.length = Spec.dataCodewords (v + 1) l) (hbytes : ∀ x ∈ buf, x < 256)
    (hec : ∀ (dc : List Nat) (e : Nat), dc ≠ [] → (∀ x ∈ dc, x < 256) →
      e ∈ [7, 10, 13, 15, 16, 17, 18, 20, 22, 24, 26, 28, 30] →
      ∃ ec, Model.ecOfBlock dc e = .ok ec ∧ ec.length = e) :
    ∃ (bs : List (List Nat × List Nat)) (cw : List Nat), Model.createBytes buf (Spec.isoBlocks (v + 1) l) = .ok cw ∧
      cw.length = Spec.totalCodewords (v + 1) ∧
      Spec.blocksOf (v + 1) l cw = bs.map QR.Interleave.toBlock ∧
      (Spec.blocksOf (v + 1) l cw).flatMap (·.data) = buf ∧
      (∀ p ∈ bs, p.1 ≠ [] ∧ Model.ecOfBlock p.1 (Spec.eccLen (v + 1) l) = .ok p.2 ∧ p.2.length = Spec.eccLen (v + 1) l) := by
  obtain ⟨bs, cw, _, h2, _, h4, _, _, _, h8, h9, h10⟩ := QR.Interleave.createBytes_blocksOf' v hv l buf hlen hbytes hec
  exact ⟨bs, cw, h2, h4, h9, h10, fun p hp => ⟨(h8 p hp).1, (h8 p hp).2.2.1, (h8 p hp).2.2.2⟩⟩

/-- **C02 (per block)**: for every block shape of Table 9 and EVERY data content (non-empty list of bytes - including
    all-zero and leading-zero blocks, where `Polynomial.__mod__` used to fail before the D1 repair) the error-correction
    codewords are computed, have the right length, and data ++ ec is a codeword of the ISO Reed-Solomon code: all e
    syndromes S_i = c(α^i) vanish in GF(256) -/
theorem C02_codeword (e : Nat) (he : e ∈ eccLengths) (dc : List Nat) (hne : dc ≠ []) (hb : ∀ c ∈ dc, c < 256) :
    ∃ ec, Model.ecOfBlock dc e = .ok ec ∧ ec.length = e ∧ (∀ c ∈ ec, c < 256) ∧ Spec.isCodeword e (dc ++ ec) = true :=
  QR.Proofs.ecOfBlock_codeword e he dc hne hb

/-- **C02 (per symbol)**: for all 160 (version, level) pairs and every content of the data codewords, `create_bytes`
    succeeds, yields exactly the ISO total number of codewords, and the reader's de-interleaving (ISO Table 9) returns
    blocks whose data parts concatenate to the input and each of which is a codeword of the ISO code for that pair -/
theorem C02_blocks (v : Nat) (hv : v < 40) (l : Spec.Level) (buf : List Nat)
    (hlen : buf.length = Spec.dataCodewords (v + 1) l) (hbytes : ∀ x ∈ buf, x < 256) :
    ∃ cw, Model.createBytes buf (Spec.isoBlocks (v + 1) l) = .ok cw ∧
      cw.length = Spec.totalCodewords (v + 1) ∧
      (Spec.blocksOf (v + 1) l cw).flatMap (·.data) = buf ∧
      ∀ b ∈ Spec.blocksOf (v + 1) l cw, Spec.isCodeword (Spec.eccLen (v + 1) l) (b.data ++ b.ec) = true := by
  have hec : ∀ (dc : List Nat) (e : Nat), dc ≠ [] → (∀ x ∈ dc, x < 256) →
      e ∈ [7, 10, 13, 15, 16, 17, 18, 20, 22, 24, 26, 28, 30] → ∃ ec, Model.ecOfBlock dc e = .ok ec ∧ ec.length = e := by
    intro dc e hne hb he
    obtain ⟨ec, h1, h2, _, _⟩ := QR.Proofs.ecOfBlock_codeword e he dc hne hb
    exact ⟨ec, h1, h2⟩
  obtain ⟨bs, cw, _, h2, _, h4, _, _, _, h8, h9, h10⟩ := QR.Interleave.createBytes_blocksOf' v hv l buf hlen hbytes hec
  refine ⟨cw, h2, h4, h10, ?_⟩
  intro b hb
  rw [h9] at hb
  obtain ⟨p, hp, rfl⟩ := List.mem_map.mp hb
  obtain ⟨hne, hpb, hecp, _⟩ := h8 p hp
  have hmem : Spec.eccLen (v + 1) l ∈ eccLengths := eccLengths_complete v hv l (by cases l <;> simp [allLevels])
  obtain ⟨ec, h1, _, _, hcw⟩ := QR.Proofs.ecOfBlock_codeword _ hmem p.1 hne hpb
  rw [hecp] at h1
  injection h1 with h1
  subst h1
  exact hcw

/-- **C02 (minimum distance)**: a non-zero codeword of length ≤ 255 of the code with e check symbols has at least e + 1
    non-zero symbols (BCH bound, by elimination on the syndromes as power sums; GF(256) with xor/gfmul is a field) -/
theorem C02_distance (e : Nat) (cw : List Nat) (hlen : cw.length ≤ 255) (hb : ∀ c ∈ cw, c < 256)
    (hcw : Spec.isCodeword e cw = true) (hnz : ∃ c ∈ cw, c ≠ 0) : e + 1 ≤ (cw.filter (· ≠ 0)).length :=
  QR.Proofs.codeword_weight e cw hlen hb hcw hnz

/-- **C02 (correctability)**: for every block shape of ISO Table 9 (all 160 pairs; every block has at most 153 codewords), a
    received word within ⌊e/2⌋ damaged codewords of a codeword determines that codeword uniquely - so any ≤ ⌊e/2⌋ damaged
    codewords per block are correctable -/
theorem C02_unique_decoding (v : Nat) (hv : v < 40) (l : Spec.Level) (b : Nat × Nat) (hbl : b ∈ Spec.isoBlocks (v + 1) l)
    (r c1 c2 : List Nat) (hr : r.length = b.1) (hc1 : c1.length = b.1) (hc2 : c2.length = b.1)
    (hb1 : ∀ c ∈ c1, c < 256) (hb2 : ∀ c ∈ c2, c < 256)
    (h1 : Spec.isCodeword (Spec.eccLen (v + 1) l) c1 = true) (h2 : Spec.isCodeword (Spec.eccLen (v + 1) l) c2 = true)
    (hd1 : QR.Proofs.hdist r c1 ≤ Spec.eccLen (v + 1) l / 2) (hd2 : QR.Proofs.hdist r c2 ≤ Spec.eccLen (v + 1) l / 2) : c1 = c2 :=
  QR.Proofs.C02_unique_decoding v hv l b hbl r c1 c2 hr hc1 hc2 hb1 hb2 h1 h2 hd1 hd2


/-! ### Source tie, part 2 (T2 plugins `tools/t2_fragments/`): the hand-written Model equals the definitions translated from
    /repo's current Python AST (`QR.Gen.Code`, regenerated on every run). Restated verbatim from `QR/Proofs/SourceTie*.lean`. -/
section SourceTieT2
open QR.Model QR.Gen.Code QR.SourceTieA

/-- **gexp**: `return EXP_TABLE[n % 255]` for every Python int `n`; the index is never negative -/
theorem C02_source_gexp_src (n : Int) :
    gexp_table = "EXP_TABLE" ∧ gexp n = idx Gen.EXP_TABLE (gexp_index n).toNat ∧ 0 ≤ gexp_index n :=
  QR.SourceTieA.gexp_src n

/-- **glog**: `if n < 1: raise ValueError` / `return LOG_TABLE[n]` -/
theorem C02_source_glog_src (n : Nat) :
    glog_exception = "ValueError" ∧ glog_table = "LOG_TABLE" ∧
    glog n = if glog_raises n then .error .valueError else idx Gen.LOG_TABLE (glog_index n).toNat :=
  QR.SourceTieA.glog_src n

/-- for a negative Python int the translated guard raises as well (the Model's argument type is `Nat`) -/
theorem C02_source_glog_raises_neg (n : Int) (h : n < 0) : glog_raises n = true :=
  QR.SourceTieA.glog_raises_neg n h

/-- the row loop: `Model.rsRow` equals the loop assembled from the translated range `(0, len(rs_block), 3)`, slice
    `rs_block[i : i + 3]`, unpacking order and `RSBlock(total_count, data_count)` argument order -/
theorem C02_source_rsRow_src (row : List Nat) : rsRow row.length row = rsLoop row :=
  QR.SourceTieA.rsRow_src row

theorem C02_source_rs_blocks_literals : rs_blocks_guard = ("error_correction not in RS_BLOCK_OFFSET", "Exception") ∧
    rs_blocks_offset_lookup = "RS_BLOCK_OFFSET[error_correction]" ∧ rs_blocks_table = "RS_BLOCK_TABLE" ∧
    rs_blocks_block_fields = ["total_count", "data_count"] :=
  QR.SourceTieA.rs_blocks_literals

/-- **rs_blocks**: for every level and every `version ≥ 1` (`check_version` guarantees it; for `version = 0` Python's
    negative index would wrap around) the Model is: dictionary lookup, row `RS_BLOCK_TABLE[(version - 1) * 4 + offset]`
    with the translated (Int) index expression, then the translated row loop. -/
theorem C02_source_rsBlocks_src (version level : Nat) (hv : 1 ≤ version) :
    rsBlocks version level =
      match Gen.RS_BLOCK_OFFSET.lookup level with
      | none => .error .other
      | some offset => idx Gen.RS_BLOCK_TABLE (rs_blocks_row_index version offset).toNat >>= rsLoop :=
  QR.SourceTieA.rsBlocks_src version level hv

/-- **Polynomial.__init__**: `Model.polyMk num shift` is: the translated emptiness guard (`if not num: raise Exception`),
    then `num[offset:] + [0] * shift` where `offset` is the value left by the translated scan loop
    `offset = 0; for offset in range(len(num)): if num[offset] != 0: break`. -/
theorem C02_source_polyMk_src (num : List Nat) (shift : Nat) :
    poly_init_exception = "Exception" ∧
    polyMk num shift =
      if poly_init_raises num.length then .error .other
      else
        let rng := poly_init_range num.length
        let offset := forBreak (fun o => poly_init_break (num.getD o 0)) (List.range' rng.1 (rng.2 - rng.1)) poly_init_offset0
        .ok (num.drop (poly_init_drop offset) ++ List.replicate (poly_init_pad shift).2 (poly_init_pad shift).1) :=
  QR.SourceTieA.polyMk_src num shift

/-- **Polynomial.__mul__**: allocation `[0] * (len(self) + len(other) - 1)` (a negative count gives the empty list, hence
    `Int.toNat`), the double `enumerate` loop with the translated index `i + j`, exponent `glog(item) + glog(other_item)`,
    update `^=`, and `Polynomial(num, 0)`. -/
theorem C02_source_polyMul_src (self other : List Nat) :
    poly_mul_glog_args = ["self", "other"] ∧
    polyMul self other =
      ((List.range self.length).foldlM (fun num i =>
          (List.range other.length).foldlM (fun num j =>
            glog (self.getD i 0) >>= fun l0 =>
            glog (other.getD j 0) >>= fun l1 =>
            gexp (poly_mul_exponent l0 l1) >>= fun e =>
            pure (num.set (poly_mul_index i j) (poly_mul_update (num.getD (poly_mul_index i j) 0) e))) num)
        (List.replicate (poly_mul_alloc_len self.length other.length).toNat poly_mul_alloc_elem)
        >>= fun num => polyMk num poly_mul_result_shift) :=
  QR.SourceTieA.polyMul_src self other

/-- **Polynomial.__mod__** (one unfolding of the recursion, `fuel` bounding Python's recursion depth):
    `difference = len(self) - len(other)`; `if difference < 0 or self[0] == 0: return self` (short-circuit: the second
    disjunct reads `self[0]`); `ratio = glog(self[0]) - glog(other[0])`; the zip comprehension; `if difference:
    num.extend(self[-difference:])`; `return Polynomial(num, 0) % other`. -/
theorem C02_source_polyMod_src (fuel : Nat) (self other : List Nat) :
    polyMod (fuel + 1) self other =
      let difference := poly_mod_difference self.length other.length
      if poly_mod_done_0 difference then .ok self
      else
        idx self 0 >>= fun s0 =>
        if poly_mod_done_1 difference s0 then .ok self
        else
          glog s0 >>= fun ls0 =>
          idx other 0 >>= fun o0 =>
          glog o0 >>= fun lo0 =>
          modComp (poly_mod_ratio ls0 lo0) self other >>= fun num =>
          polyMk (if poly_mod_tail_test difference then num ++ pySliceFrom self (poly_mod_tail_lower difference) else num)
              poly_mod_rec_shift >>= fun p =>
          polyMod fuel p other :=
  QR.SourceTieA.polyMod_src fuel self other

/-- the first disjunct of the early return does not read `self[0]`, so the short-circuit `or` cannot raise there -/
theorem C02_source_poly_mod_done_0_iff (ls lo : Nat) : poly_mod_done_0 (poly_mod_difference ls lo) = decide (ls < lo) :=
  QR.SourceTieA.poly_mod_done_0_iff ls lo

theorem C02_source_cb_literals :
    cb_lut = ("ecCount in LUT.rsPoly_LUT", "base.Polynomial(LUT.rsPoly_LUT[ecCount], 0)") ∧
    cb_fallback = ("base.Polynomial([1], 0)", "rsPoly * base.Polynomial([1, base.gexp(i)], 0)") ∧
    cb_ec_then = "modPoly[modIndex]" :=
  QR.SourceTieA.cb_literals

/-- the fallback loop `for i in range(ecCount): rsPoly = rsPoly * Polynomial([1, gexp(i)], 0)` over the translated range -/
theorem C02_source_rsPolyFallback_src (ecCount : Nat) :
    rsPolyFallback ecCount =
      (rangeI (cb_fallback_range ecCount)).foldlM (fun p (i : Nat) =>
        gexp (Int.ofNat i) >>= fun e => polyMk [1, e] 0 >>= fun q => polyMul p q) [1] :=
  QR.SourceTieA.rsPolyFallback_src ecCount

/-- **current_ec**: `rawPoly = Polynomial(current_dc, len(rsPoly) - 1)` (a negative count pads nothing, hence `toNat`),
    `modPoly = rawPoly % rsPoly`, `mod_offset = len(modPoly) - ecCount`, and for `i in range(ecCount)`:
    `modIndex = i + mod_offset`, `modPoly[modIndex] if modIndex >= 0 else 0`. -/
theorem C02_source_ecOfBlock_src (dc : List Nat) (ecCount : Nat) :
    ecOfBlock dc ecCount =
      rsPolyFor ecCount >>= fun rsPoly =>
      polyMk dc (cb_raw_shift rsPoly.length).toNat >>= fun rawPoly =>
      polyMod (rawPoly.length + 1) rawPoly rsPoly >>= fun modPoly =>
      pure ((rangeI (cb_ec_range ecCount)).map fun i =>
        if cb_ec_guard (cb_mod_index i (cb_mod_offset modPoly.length ecCount))
        then modPoly.getD (cb_mod_index i (cb_mod_offset modPoly.length ecCount)).toNat 0
        else cb_ec_else) :=
  QR.SourceTieA.ecOfBlock_src dc ecCount

theorem C02_source_cb_dc_elt_src (b : Nat) : cb_dc_elt b = b % 256 :=
  QR.SourceTieA.cb_dc_elt_src b

theorem C02_source_dcRead_src (buf : List Nat) (offset dcCount : Nat) :
    dcRead buf offset dcCount =
      if (buf.drop offset).length < dcCount then .error .indexError
      else .ok (((buf.drop offset).take dcCount).map (· % 256)) :=
  QR.SourceTieA.dcRead_src buf offset dcCount

/-- **main loop**: `Model.splitBlocks` on the buffer suffix starting at `offset` is the loop over `rs_blocks` with the
    translated `dcCount = rs_block.data_count`, `ecCount = rs_block.total_count - dcCount`, the comprehension
    `0xFF & buffer.buffer[i + offset] for i in range(dcCount)` and `offset += dcCount`. -/
theorem C02_source_splitBlocks_src (buf : List Nat) : ∀ (blocks : List (Nat × Nat)) (offset : Nat),
    splitBlocks (buf.drop offset) blocks = cbLoop buf offset blocks :=
  QR.SourceTieA.splitBlocks_src buf

/-- **create_bytes**: the Model is the translated main loop started at `offset = 0`, followed by the two interleaving
    loops over `range(maxDcCount)` / `range(maxEcCount)` with the translated guards `i < len(dc)` / `i < len(ec)`,
    where `maxDcCount`, `maxEcCount` are accumulated with the translated `max(…)` updates. -/
theorem C02_source_createBytes_src (buf : List Nat) (blocks : List (Nat × Nat)) :
    createBytes buf blocks =
      cbLoop buf cb_offset0 blocks >>= fun bs =>
      pure (ilLoop (rangeN (cb_il_dc_range (cbMaxDc blocks))) cb_il_dc_guard (bs.map (·.1)) ++
            ilLoop (rangeI (cb_il_ec_range (cbMaxEc blocks))) cb_il_ec_guard (bs.map (·.2))) :=
  QR.SourceTieA.createBytes_src buf blocks

end SourceTieT2

/-! ### Source tie, part 4 (T2 plugin `tools/t2_fragments/frag_d6.py`): small leftovers, translated whole from /repo's current
    Python AST (`QR.Gen.Code.lo_*`, regenerated on every run). Restated verbatim from `QR/Proofs/SourceTieD6*.lean`. -/
section SourceTieD6
open QR.Model QR.Gen.Code QR.SourceTieD6

/-- `Polynomial.__getitem__`, `__iter__`, `__len__` (qrcode/base.py) all read the attribute `Polynomial.__init__` stores -/
theorem C02_source_poly_accessors_literals :
    lo_poly_init_stores = [lo_poly_getitem_attr] ∧ lo_poly_iter_attr = lo_poly_getitem_attr ∧
    lo_poly_len_attr = lo_poly_getitem_attr :=
  QR.SourceTieD6.poly_accessors_literals

/-- `Polynomial.__getitem__`: the `idx self i` / `self.getD i 0` by which `Model.polyMod` / `Model.polyMul` read `self[i]`
    are the translated `return self.num[index]` -/
theorem C02_source_poly_getitem_src (num : List Nat) (i : Nat) :
    idx num i = (match lo_poly_getitem num (i : Int) with | some a => .ok a | none => .error .indexError) ∧
    num.getD i 0 = (lo_poly_getitem num (i : Int)).getD 0 :=
  QR.SourceTieD6.poly_getitem_src num i

/-- `Polynomial.__len__` / `__iter__`: the Model's `self.length` and its iteration of the coefficient list are the translated
    `len(self.num)` / `iter(self.num)` -/
theorem C02_source_poly_len_iter_src (num : List Nat) : lo_poly_len num = (num.length : Int) ∧ lo_poly_iter num = num :=
  QR.SourceTieD6.poly_len_iter_src num

end SourceTieD6

/-! ### Capstones: (ii) composed with (i) - the TRANSLATED SOURCE satisfies the Spec-level statements.
    The `…Src` functions (`QR/Proofs/CapstoneE2.lean`) are the right-hand sides of the bridge theorems above: the Python function
    assembled from the `QR.Gen.Code` fragments, with each callee that is not translated in place as an explicit parameter. -/
section Capstone
open QR.Model QR.Gen.Code QR.SourceTieA QR.CapstoneE2

theorem C02_source_ecOfBlockSrc_eq (dc : List Nat) (ecCount : Nat) :
    ecOfBlockSrc rsPolyFor polyMk polyMod dc ecCount = ecOfBlock dc ecCount :=
  (C02_source_ecOfBlock_src dc ecCount).symm

theorem C02_source_createBytesSrc_eq (buf : List Nat) (blocks : List (Nat × Nat)) :
    createBytesSrc (ecOfBlockSrc rsPolyFor polyMk polyMod) buf blocks = createBytes buf blocks := by
  have e : ecOfBlockSrc rsPolyFor polyMk polyMod = ecOfBlock := by
    funext dc ecCount; exact C02_source_ecOfBlockSrc_eq dc ecCount
  rw [C02_source_createBytes_src, e]
  unfold createBytesSrc
  rw [cbLoopP_ecOfBlock]

theorem C02_source_rsBlocksSrc_eq (version level : Nat) (hv : 1 ≤ version) : rsBlocksSrc version level = rsBlocks version level :=
  (C02_source_rsBlocks_src version level hv).symm

/-- **capstone, base.py:rs_blocks → util.py:create_bytes (main loop, `current_ec` computation, both interleaving loops)**:
    for all 160 (version, level) pairs and every content of the data codewords, the translated `rs_blocks` (dictionary
    lookup, row index, row loop) followed by the translated `create_bytes` succeeds, yields exactly the ISO total number of
    codewords, and the reader's de-interleaving (ISO Table 9) returns blocks whose data parts concatenate to the input and
    each of which is a codeword of the ISO Reed-Solomon code (all syndromes vanish).  Partly translated chain: inside
    `current_ec` the callees `Polynomial.__init__` (`Model.polyMk`), `Polynomial.__mod__` (`Model.polyMod`) and the generator
    lookup / fallback loop (`Model.rsPolyFor`) are parameters instantiated by the Model functions; they are tied to the source
    separately by `C02_source_polyMk_src`, `C02_source_polyMod_src` (one unfolding of the recursion),
    `C02_source_rsPolyFallback_src`.  From `C02_source_rsBlocks_src`, `C02_source_createBytes_src`,
    `C02_source_ecOfBlock_src`, `C02_table9` and `C02_blocks`. -/
theorem C02_source_capstone_blocks (v : Nat) (hv : v < 40) (l : Spec.Level) (buf : List Nat)
    (hlen : buf.length = Spec.dataCodewords (v + 1) l) (hbytes : ∀ x ∈ buf, x < 256) :
    ∃ cw, (rsBlocksSrc (v + 1) l.indicator >>= fun blocks =>
            createBytesSrc (ecOfBlockSrc rsPolyFor polyMk polyMod) buf blocks) = .ok cw ∧
      cw.length = Spec.totalCodewords (v + 1) ∧
      (Spec.blocksOf (v + 1) l cw).flatMap (·.data) = buf ∧
      ∀ b ∈ Spec.blocksOf (v + 1) l cw, Spec.isCodeword (Spec.eccLen (v + 1) l) (b.data ++ b.ec) = true := by
  obtain ⟨cw, h1, h2, h3, h4⟩ := C02_blocks v hv l buf hlen hbytes
  refine ⟨cw, ?_, h2, h3, h4⟩
  rw [C02_source_rsBlocksSrc_eq (v + 1) l.indicator (by omega),
    C02_table9 v hv l (by cases l <;> simp [allLevels])]
  show createBytesSrc (ecOfBlockSrc rsPolyFor polyMk polyMod) buf (Spec.isoBlocks (v + 1) l) = .ok cw
  rw [C02_source_createBytesSrc_eq]
  exact h1

/-- **capstone, util.py:create_bytes, the `current_ec` computation of one block** (translated: the shift
    `len(rsPoly) - 1`, `mod_offset`, the range, `modIndex`, the guard `modIndex >= 0` and the else-value; parameters
    instantiated by Model functions: `Polynomial.__init__`, `Polynomial.__mod__`, generator lookup - see above): for every
    block shape of ISO Table 9 and EVERY non-empty list of data bytes the EC codewords are computed, have the right length,
    are bytes, and data ++ ec is a codeword of the ISO Reed-Solomon code; from `C02_source_ecOfBlock_src` and `C02_codeword`. -/
theorem C02_source_capstone_codeword (e : Nat) (he : e ∈ eccLengths) (dc : List Nat) (hne : dc ≠ []) (hb : ∀ c ∈ dc, c < 256) :
    ∃ ec, ecOfBlockSrc rsPolyFor polyMk polyMod dc e = .ok ec ∧ ec.length = e ∧ (∀ c ∈ ec, c < 256) ∧
      Spec.isCodeword e (dc ++ ec) = true := by
  rw [C02_source_ecOfBlockSrc_eq]
  exact C02_codeword e he dc hne hb

/-- **capstone, base.py:rs_blocks** (translated whole: `RS_BLOCK_OFFSET[error_correction]`, the row index
    `(version - 1) * 4 + offset`, the loop over `range(0, len(rs_block), 3)` with slice, unpacking and `RSBlock` argument
    order; tables regenerated from the source): the result is ISO Table 9 for all 160 pairs; from `C02_source_rsBlocks_src`
    and `C02_table9`. -/
theorem C02_source_capstone_table9 (v : Nat) (hv : v < 40) (l : Spec.Level) (hl : l ∈ allLevels) :
    rsBlocksSrc (v + 1) l.indicator = .ok (Spec.isoBlocks (v + 1) l) := by
  rw [C02_source_rsBlocksSrc_eq (v + 1) l.indicator (by omega)]
  exact C02_table9 v hv l hl

/-- **capstone, util.py:create_bytes (block structure)**: the translated main loop and interleaving loops, for any block
    list given by ISO Table 9: the reader's view of the codeword sequence is the consecutive data slices each followed by
    the EC codewords the (parameter) per-block computation returns for it; from `C02_source_createBytes_src` and
    `C02_block_structure` (hypothesis `hec` of the ingredient kept: the per-block computation is total with the right length) -/
theorem C02_source_capstone_block_structure (v : Nat) (hv : v < 40) (l : Spec.Level) (buf : List Nat)
    (hlen : buf.length = Spec.dataCodewords (v + 1) l) (hbytes : ∀ x ∈ buf, x < 256)
    (hec : ∀ (dc : List Nat) (e : Nat), dc ≠ [] → (∀ x ∈ dc, x < 256) →
      e ∈ [7, 10, 13, 15, 16, 17, 18, 20, 22, 24, 26, 28, 30] →
      ∃ ec, ecOfBlockSrc rsPolyFor polyMk polyMod dc e = .ok ec ∧ ec.length = e) :
    ∃ (bs : List (List Nat × List Nat)) (cw : List Nat),
      createBytesSrc (ecOfBlockSrc rsPolyFor polyMk polyMod) buf (Spec.isoBlocks (v + 1) l) = .ok cw ∧
      cw.length = Spec.totalCodewords (v + 1) ∧
      Spec.blocksOf (v + 1) l cw = bs.map QR.Interleave.toBlock ∧
      (Spec.blocksOf (v + 1) l cw).flatMap (·.data) = buf ∧
      (∀ p ∈ bs, p.1 ≠ [] ∧ ecOfBlockSrc rsPolyFor polyMk polyMod p.1 (Spec.eccLen (v + 1) l) = .ok p.2 ∧
        p.2.length = Spec.eccLen (v + 1) l) := by
  simp only [C02_source_ecOfBlockSrc_eq, C02_source_createBytesSrc_eq] at hec ⊢
  exact C02_block_structure v hv l buf hlen hbytes hec

/-- the capstone chain at a concrete input: version 1-M (one block, 16 data + 10 EC codewords), the data codewords of the
    ISO Annex I example "01234567": the translated `rs_blocks` + `create_bytes` return the published final codeword sequence -/
example : (rsBlocksSrc 1 Spec.Level.M.indicator >>= fun blocks =>
      createBytesSrc (ecOfBlockSrc rsPolyFor polyMk polyMod)
        [0x10, 0x20, 0x0C, 0x56, 0x61, 0x80, 0xEC, 0x11, 0xEC, 0x11, 0xEC, 0x11, 0xEC, 0x11, 0xEC, 0x11] blocks) =
    .ok [0x10, 0x20, 0x0C, 0x56, 0x61, 0x80, 0xEC, 0x11, 0xEC, 0x11, 0xEC, 0x11, 0xEC, 0x11, 0xEC, 0x11,
         0xA5, 0x24, 0xD4, 0xC1, 0xED, 0x36, 0xC7, 0x87, 0x2C, 0x55] := by decide +kernel

end Capstone

/-- the Python functions this property's model mirrors have, in /repo's current working tree, exactly the normalised
    ASTs the model was written and validated against (fingerprints regenerated by T1 on every run) -/
theorem C02_source_fingerprints : QR.Gen.fp_C02 = QR.Pinned.fp_C02 := by decide

end QR.Props
