import QR.Proofs.C02Tables
import QR.Proofs.Interleave
import QR.Proofs.RSDiv
import QR.Proofs.Distance
import QR.Proofs.Pinned
/-
C02 - every error-correction block is a codeword of the ISO Reed-Solomon code; block structure = ISO Table 9.
-/
namespace QR.Props
open QR QR.Model

/-- `EXP_TABLE[i] = α^i` in GF(2)[x]/(x^8+x^4+x^3+x^2+1) for all 255 exponents (tables regenerated from the source) -/
theorem C02_field : ∀ i, i < 255 → Gen.EXP_TABLE[i]? = some (Spec.gfpow Spec.alpha i) := C02_field_exp

/-- `LOG_TABLE` inverts `EXP_TABLE` on the 255 non-zero field elements -/
theorem C02_log : ∀ a, a < 255 →
    (Gen.LOG_TABLE[a + 1]?).bind (fun k => if k < 255 then Gen.EXP_TABLE[k]? else none) = some (a + 1) := C02_field_log

/-- the generator look-up table holds the ISO generator ∏_{i<e}(x − α^i) for each of the 13 block shapes ... -/
theorem C02_generators : ∀ e ∈ eccLengths, Gen.rsPoly_LUT.lookup e = some (Spec.generator e) := C02_genpoly

/-- ... which is monic of degree e, has no zero coefficient and vanishes at α^0 .. α^(e-1) -/
theorem C02_roots : ∀ e ∈ eccLengths,
    (Spec.generator e).length = e + 1 ∧ (Spec.generator e).head? = some 1 ∧ (∀ c ∈ Spec.generator e, c ≠ 0 ∧ c < 256) ∧
    ∀ i, i < e → Spec.peval (Spec.gfpow Spec.alpha i) (Spec.generator e) = 0 := C02_generator_roots

/-- `rs_blocks(v, level)` = ISO Table 9 (number of blocks, total and data codewords, short blocks first), 160 pairs -/
theorem C02_table9 : ∀ v, v < 40 → ∀ l ∈ allLevels,
    Model.rsBlocks (v + 1) l.indicator = .ok (Spec.isoBlocks (v + 1) l) := C02_table

/-- interleaving is exactly undone by the reader's de-interleaving, for ANY list of blocks -/
theorem C02_interleave (blocks : List (List Nat)) :
    Spec.deinterleave (blocks.map List.length) (Model.interleave blocks) = blocks :=
  QR.Interleave.deinterleave_interleave blocks

/-- block structure of `create_bytes` for every (version, level) and every data content: the reader's view of the
    codeword sequence is the consecutive slices of the data (Table 9 lengths) each followed by its own EC codewords,
    nothing lost or reordered (hypothesis: per-block EC computation is total with the right length - discharged by the
    Reed-Solomon division theorem) -/
theorem C02_block_structure (v : Nat) (hv : v < 40) (l : Spec.Level) (buf : List Nat)
    (hlen : buf.length = Spec.dataCodewords (v + 1) l) (hbytes : ∀ x ∈ buf, x < 256)
    (hec : ∀ (dc : List Nat) (e : Nat), dc ≠ [] → (∀ x ∈ dc, x < 256) →
      e ∈ [7, 10, 13, 15, 16, 17, 18, 20, 22, 24, 26, 28, 30] →
      ∃ ec, Model.ecOfBlock dc e = .ok ec ∧ ec.length = e) :
    ∃ (bs : List (List Nat × List Nat)) (cw : List Nat), Model.createBytes buf (Spec.isoBlocks (v + 1) l) = .ok cw ∧
      cw.length = Spec.totalCodewords (v + 1) ∧
      Spec.blocksOf (v + 1) l cw = bs.map QR.Interleave.toBlock ∧
      (Spec.blocksOf (v + 1) l cw).flatMap (·.data) = buf ∧
      (∀ p ∈ bs, p.1 ≠ [] ∧ Model.ecOfBlock p.1 (Spec.eccLen (v + 1) l) = .ok p.2 ∧ p.2.length = Spec.eccLen (v + 1) l) := by
  obtain ⟨bs, cw, _, h2, _, h4, _, _, _, h8, h9, h10⟩ := QR.Interleave.createBytes_blocksOf' v hv l buf hlen hbytes hec
  exact ⟨bs, cw, h2, h4, h9, h10, fun p hp => ⟨(h8 p hp).1, (h8 p hp).2.2.1, (h8 p hp).2.2.2⟩⟩

/-- **C02 (per block)**: for every block shape of Table 9 and EVERY data content (non-empty list of bytes - including
    all-zero and leading-zero blocks, where `Polynomial.__mod__` used to fail before the D1 repair) the error-correction
    codewords are computed, have the right length, and data ++ ec is a codeword of the ISO Reed-Solomon code: all e
    syndromes S_i = c(α^i) vanish in GF(256) -/
theorem C02_codeword (e : Nat) (he : e ∈ eccLengths) (dc : List Nat) (hne : dc ≠ []) (hb : ∀ c ∈ dc, c < 256) :
    ∃ ec, Model.ecOfBlock dc e = .ok ec ∧ ec.length = e ∧ (∀ c ∈ ec, c < 256) ∧ Spec.isCodeword e (dc ++ ec) = true :=
  QR.Proofs.ecOfBlock_codeword e he dc hne hb

/-- **C02 (per symbol)**: for all 160 (version, level) pairs and every content of the data codewords, `create_bytes`
    succeeds, yields exactly the ISO total number of codewords, and the reader's de-interleaving (ISO Table 9) returns
    blocks whose data parts concatenate to the input and each of which is a codeword of the ISO code for that pair -/
theorem C02_blocks (v : Nat) (hv : v < 40) (l : Spec.Level) (buf : List Nat)
    (hlen : buf.length = Spec.dataCodewords (v + 1) l) (hbytes : ∀ x ∈ buf, x < 256) :
    ∃ cw, Model.createBytes buf (Spec.isoBlocks (v + 1) l) = .ok cw ∧
      cw.length = Spec.totalCodewords (v + 1) ∧
      (Spec.blocksOf (v + 1) l cw).flatMap (·.data) = buf ∧
      ∀ b ∈ Spec.blocksOf (v + 1) l cw, Spec.isCodeword (Spec.eccLen (v + 1) l) (b.data ++ b.ec) = true := by
  have hec : ∀ (dc : List Nat) (e : Nat), dc ≠ [] → (∀ x ∈ dc, x < 256) →
      e ∈ [7, 10, 13, 15, 16, 17, 18, 20, 22, 24, 26, 28, 30] → ∃ ec, Model.ecOfBlock dc e = .ok ec ∧ ec.length = e := by
    intro dc e hne hb he
    obtain ⟨ec, h1, h2, _, _⟩ := QR.Proofs.ecOfBlock_codeword e he dc hne hb
    exact ⟨ec, h1, h2⟩
  obtain ⟨bs, cw, _, h2, _, h4, _, _, _, h8, h9, h10⟩ := QR.Interleave.createBytes_blocksOf' v hv l buf hlen hbytes hec
  refine ⟨cw, h2, h4, h10, ?_⟩
  intro b hb
  rw [h9] at hb
  obtain ⟨p, hp, rfl⟩ := List.mem_map.mp hb
  obtain ⟨hne, hpb, hecp, _⟩ := h8 p hp
  have hmem : Spec.eccLen (v + 1) l ∈ eccLengths := eccLengths_complete v hv l (by cases l <;> simp [allLevels])
  obtain ⟨ec, h1, _, _, hcw⟩ := QR.Proofs.ecOfBlock_codeword _ hmem p.1 hne hpb
  rw [hecp] at h1
  injection h1 with h1
  subst h1
  exact hcw

/-- **C02 (minimum distance)**: a non-zero codeword of length ≤ 255 of the code with e check symbols has at least e + 1
    non-zero symbols (BCH bound, by elimination on the syndromes as power sums; GF(256) with xor/gfmul is a field) -/
theorem C02_distance (e : Nat) (cw : List Nat) (hlen : cw.length ≤ 255) (hb : ∀ c ∈ cw, c < 256)
    (hcw : Spec.isCodeword e cw = true) (hnz : ∃ c ∈ cw, c ≠ 0) : e + 1 ≤ (cw.filter (· ≠ 0)).length :=
  QR.Proofs.codeword_weight e cw hlen hb hcw hnz

/-- **C02 (correctability)**: for every block shape of ISO Table 9 (all 160 pairs; every block has at most 153 codewords), a
    received word within ⌊e/2⌋ damaged codewords of a codeword determines that codeword uniquely - so any ≤ ⌊e/2⌋ damaged
    codewords per block are correctable -/
theorem C02_unique_decoding (v : Nat) (hv : v < 40) (l : Spec.Level) (b : Nat × Nat) (hbl : b ∈ Spec.isoBlocks (v + 1) l)
    (r c1 c2 : List Nat) (hr : r.length = b.1) (hc1 : c1.length = b.1) (hc2 : c2.length = b.1)
    (hb1 : ∀ c ∈ c1, c < 256) (hb2 : ∀ c ∈ c2, c < 256)
    (h1 : Spec.isCodeword (Spec.eccLen (v + 1) l) c1 = true) (h2 : Spec.isCodeword (Spec.eccLen (v + 1) l) c2 = true)
    (hd1 : QR.Proofs.hdist r c1 ≤ Spec.eccLen (v + 1) l / 2) (hd2 : QR.Proofs.hdist r c2 ≤ Spec.eccLen (v + 1) l / 2) : c1 = c2 :=
  QR.Proofs.C02_unique_decoding v hv l b hbl r c1 c2 hr hc1 hc2 hb1 hb2 h1 h2 hd1 hd2

/-- the Python functions this property's model mirrors have, in /repo's current working tree, exactly the normalised
    ASTs the model was written and validated against (fingerprints regenerated by T1 on every run) -/
theorem C02_source_fingerprints : QR.Gen.fp_C02 = QR.Pinned.fp_C02 := by decide

end QR.Props
