import QR.Proofs.Fit
/-
C07 - automatic fitting picks the smallest adequate version; capacities match ISO.
`Model.bestFit` mirrors QRCode.best_fit: stream length with the count widths of the class of `start`, `bisect_left` on
BIT_LIMIT_TABLE from `start`, re-fit recursion when the version class changes.  `Spec.fits v l cs` is the closed-form
stream length with version v's own widths against 8 x ISO data codewords.  Unbounded in the segment list.
-/
namespace QR.Props
open QR QR.Model

/-- **C07 (main)**: the fitted version is adequate, not below the start, at most 40, and every smaller admissible
    version is inadequate -/
theorem C07_minimal (start : Nat) (hs : start ≤ 40) (l : Spec.Level) (segs : List Seg) (ps : List Spec.PSeg)
    (hv : ∀ s ∈ segs, s.Valid) (hp : toPSegs segs = some ps) (v : Nat)
    (h : bestFit 4 start l.indicator segs = .ok v) :
    max start 1 ≤ v ∧ v ≤ 40 ∧ Spec.fits v l (segCounts ps) = true ∧
      ∀ u, max start 1 ≤ u → u < v → Spec.fits u l (segCounts ps) = false :=
  QR.Proofs.bestFit_minimal start hs l segs ps hv hp v h

/-- `best_fit` = the Spec's minimal-version function, including the overflow case -/
theorem C07_eq_minVersion (start : Nat) (hs : start ≤ 40) (l : Spec.Level) (segs : List Seg) (ps : List Spec.PSeg)
    (hv : ∀ s ∈ segs, s.Valid) (hp : toPSegs segs = some ps) :
    bestFit 4 start l.indicator segs =
      (match Spec.minVersion start l (segCounts ps) with
       | some v => .ok v
       | none => .error .dataOverflow) :=
  QR.Proofs.bestFit_eq_minVersion start hs l segs ps hv hp

/-- DataOverflowError exactly when no version from the start up to 40 holds the stream; no other error (shared with C03) -/
theorem C07_overflow_iff (start : Nat) (hs : start ≤ 40) (l : Spec.Level) (segs : List Seg) (ps : List Spec.PSeg)
    (hv : ∀ s ∈ segs, s.Valid) (hp : toPSegs segs = some ps) :
    bestFit 4 start l.indicator segs = .error .dataOverflow ↔
      ∀ u, max start 1 ≤ u → u ≤ 40 → Spec.fits u l (segCounts ps) = false :=
  QR.Proofs.bestFit_overflow_iff start hs l segs ps hv hp

theorem C07_error_only_overflow (start : Nat) (hs : start ≤ 40) (l : Spec.Level) (segs : List Seg) (ps : List Spec.PSeg)
    (hv : ∀ s ∈ segs, s.Valid) (hp : toPSegs segs = some ps) (e : Err)
    (h : bestFit 4 start l.indicator segs = .error e) : e = .dataOverflow :=
  QR.Proofs.bestFit_error_only_overflow start hs l segs ps hv hp e h

/-- `bisect_left(a, x, lo)` on a sorted list returns the least index ≥ lo whose entry is ≥ x -/
theorem C07_bisect (a : List Nat) (x : Nat) (hs : ∀ i j, i ≤ j → j < a.length → a.getD i 0 ≤ a.getD j 0)
    (fuel lo hi : Nat) (h1 : lo ≤ hi) (h2 : hi ≤ a.length) (h3 : hi - lo ≤ fuel) :
    lo ≤ bisectLeft a x fuel lo hi ∧ bisectLeft a x fuel lo hi ≤ hi ∧
      (∀ i, lo ≤ i → i < bisectLeft a x fuel lo hi → a.getD i 0 < x) ∧
      (∀ i, bisectLeft a x fuel lo hi ≤ i → i < hi → x ≤ a.getD i 0) :=
  QR.Proofs.bisectLeft_spec a x hs fuel lo hi h1 h2 h3

/-- the table the bisect runs on is 8 x ISO data codewords for all 160 pairs (regenerated from the source each run) -/
theorem C07_capacity_rows : ∀ l ∈ allLevels,
    ∃ row, Gen.BIT_LIMIT_TABLE[l.indicator]? = some row ∧ row.length = 41 ∧ row[0]? = some 0 ∧
      ∀ v, v < 40 → row[v + 1]? = some (Spec.capacityBits (v + 1) l) := C07_capacity_table

theorem C07_capacity_increasing : ∀ l ∈ allLevels, ∀ v, v < 39 →
    Spec.capacityBits (v + 1) l < Spec.capacityBits (v + 2) l := C07_capacity_monotone

end QR.Props
