import QR.Proofs.Fit
import QR.Proofs.Pinned
import QR.Proofs.SourceTieA5
import QR.Proofs.SourceTieB1
import QR.Proofs.CapstoneE1
/-
C07 - automatic fitting picks the smallest adequate version; capacities match ISO.
`Model.bestFit` mirrors QRCode.best_fit: stream length with the count widths of the class of `start`, `bisect_left` on
BIT_LIMIT_TABLE from `start`, re-fit recursion when the version class changes.  `Spec.fits v l cs` is the closed-form
stream length with version v's own widths against 8 x ISO data codewords.  Unbounded in the segment list.
-/
namespace QR.Props
open QR QR.Model

/-- **C07 (main)**: the fitted version is adequate, not below the start, at most 40, and every smaller admissible
    version is inadequate -/
theorem C07_minimal (start : Nat) (hs : start ≤ 40) (l : Spec.Level) (segs : List Seg) (ps : List Spec.PSeg)
    (hv : ∀ s ∈ segs, s.Valid) (hp : toPSegs segs = some ps) (v : Nat)
    (h : bestFit 4 start l.indicator segs = .ok v) :
    max start 1 ≤ v ∧ v ≤ 40 ∧ Spec.fits v l (segCounts ps) = true ∧
      ∀ u, max start 1 ≤ u → u < v → Spec.fits u l (segCounts ps) = false :=
  QR.Proofs.bestFit_minimal start hs l segs ps hv hp v h

/-- `best_fit` = the Spec's minimal-version function, including the overflow case -/
theorem C07_eq_minVersion (start : Nat) (hs : start ≤ 40) (l : Spec.Level) (segs : List Seg) (ps : List Spec.PSeg)
    (hv : ∀ s ∈ segs, s.Valid) (hp : toPSegs segs = some ps) :
    bestFit 4 start l.indicator segs =
      (match Spec.minVersion start l (segCounts ps) with
       | some v => .ok v
       | none => .error .dataOverflow) :=
  QR.Proofs.bestFit_eq_minVersion start hs l segs ps hv hp

/-- DataOverflowError exactly when no version from the start up to 40 holds the stream; no other error (shared with C03) -/
theorem C07_overflow_iff (start : Nat) (hs : start ≤ 40) (l : Spec.Level) (segs : List Seg) (ps : List Spec.PSeg)
    (hv : ∀ s ∈ segs, s.Valid) (hp : toPSegs segs = some ps) :
    bestFit 4 start l.indicator segs = .error .dataOverflow ↔
      ∀ u, max start 1 ≤ u → u ≤ 40 → Spec.fits u l (segCounts ps) = false :=
  QR.Proofs.bestFit_overflow_iff start hs l segs ps hv hp

theorem C07_error_only_overflow (start : Nat) (hs : start ≤ 40) (l : Spec.Level) (segs : List Seg) (ps : List Spec.PSeg)
    (hv : ∀ s ∈ segs, s.Valid) (hp : toPSegs segs = some ps) (e : Err)
    (h : bestFit 4 start l.indicator segs = .error e) : e = .dataOverflow :=
  QR.Proofs.bestFit_error_only_overflow start hs l segs ps hv hp e h

/-- `bisect_left(a, x, lo)` on a sorted list returns the least index ≥ lo whose entry is ≥ x -/
theorem C07_bisect (a : List Nat) (x : Nat) (hs : ∀ i j, i ≤ j → j < a.length → a.getD i 0 ≤ a.getD j 0)
    (fuel lo hi : Nat) (h1 : lo ≤ hi) (h2 : hi ≤ a.length) (h3 : hi - lo ≤ fuel) :
    lo ≤ bisectLeft a x fuel lo hi ∧ bisectLeft a x fuel lo hi ≤ hi ∧
      (∀ i, lo ≤ i → i < bisectLeft a x fuel lo hi → a.getD i 0 < x) ∧
      (∀ i, bisectLeft a x fuel lo hi ≤ i → i < hi → x ≤ a.getD i 0) :=
  QR.Proofs.bisectLeft_spec a x hs fuel lo hi h1 h2 h3

/-- the table the bisect runs on is 8 x ISO data codewords for all 160 pairs (regenerated from the source each run) -/
theorem C07_capacity_rows : ∀ l ∈ allLevels,
    ∃ row, Gen.BIT_LIMIT_TABLE[l.indicator]? = some row ∧ row.length = 41 ∧ row[0]? = some 0 ∧
      ∀ v, v < 40 → row[v + 1]? = some (Spec.capacityBits (v + 1) l) := C07_capacity_table

theorem C07_capacity_increasing : ∀ l ∈ allLevels, ∀ v, v < 39 →
    Spec.capacityBits (v + 1) l < Spec.capacityBits (v + 2) l := C07_capacity_monotone


/-! ### Source tie, part 2 (T2 plugins `tools/t2_fragments/`): the hand-written Model equals the definitions translated from
    /repo's current Python AST (`QR.Gen.Code`, regenerated on every run). Restated verbatim from `QR/Proofs/SourceTie*.lean`. -/
section SourceTieT2
open QR.Model QR.Gen.Code QR.SourceTieA QR.SourceTieB

/-- `_data_count(block) = block.data_count`: the second field of `RSBlock(total_count, data_count)` -/
theorem C07_source_data_count_src (total data : Nat) : data_count_proj total data = data :=
  QR.SourceTieA.data_count_src total data

theorem C07_source_bit_limit_literals : bit_limit_summand = "_data_count" ∧
    bit_limit_blocks = ("base.rs_blocks", ["version", "level"]) :=
  QR.SourceTieA.bit_limit_literals

/-- **BIT_LIMIT_TABLE**: the table dumped from the running library (`Gen.BIT_LIMIT_TABLE`, the one `Model.bestFit`
    bisects) is exactly the translated comprehension evaluated with `Model.rsBlocks`:
    `[row(ec) for ec in range(4)]`. -/
theorem C07_source_bitLimitTable_src :
    (List.range' bit_limit_level_range.1 (bit_limit_level_range.2 - bit_limit_level_range.1)).mapM bitLimitRow
      = .ok Gen.BIT_LIMIT_TABLE :=
  QR.SourceTieA.bitLimitTable_src

/-- `Model.dataBits` computes `bit_limit` as `sum(block.data_count * 8)`; the table entry is `8 * sum(data_count)` -/
theorem C07_source_bit_limit_entry_src (bs : List (Nat × Nat)) :
    (bs.map fun b => b.2 * 8).sum = bit_limit_entry ((bs.map fun b => data_count_proj b.1 b.2).sum) :=
  QR.SourceTieA.bit_limit_entry_src bs

/-- the literals the model relies on: which functions are called, on what -/
theorem C07_source_bestFit_literals :
    best_fit_check_func = "util.check_version" ∧ best_fit_sizes_func = "util.mode_sizes_for_version" ∧
    best_fit_buffer_init = "util.BitBuffer()" ∧ best_fit_loop_iter = "self.data_list" ∧
    best_fit_write_call = "data.write(buffer)" ∧ best_fit_bisect_func = "bisect.bisect_left" ∧
    best_fit_bisect_table = "util.BIT_LIMIT_TABLE" ∧ best_fit_overflow_exc = "exceptions.DataOverflowError()" ∧
    best_fit_return = "self.version" :=
  QR.SourceTieB.bestFit_literals

/-- the accumulation loop `buffer.put(data.mode, 4); buffer.put(len(data), mode_sizes[data.mode]); data.write(buffer)`:
    one step of `segsBits`, with both `put`s (value, width) and the looked-up key taken from the source -/
theorem C07_source_segsBits_src (width : Nat → R Nat) (s : Seg) (rest : List Seg) :
    segsBits width (s :: rest) = (do
      let w ← width (best_fit_put_len_key s.mode s.data.length)
      let d ← segWrite s
      let tl ← segsBits width rest
      pure (bitsBE (best_fit_put_mode s.mode s.data.length).1 (best_fit_put_mode s.mode s.data.length).2
            ++ bitsBE (best_fit_put_len s.mode s.data.length w).1 (best_fit_put_len s.mode s.data.length w).2
            ++ d ++ tl)) :=
  QR.SourceTieB.segsBits_src width s rest

/-- `best_fit(start)`: every statement of the source, in order -/
theorem C07_source_bestFit_src (fuel start level : Nat) (segs : List Seg) :
    bestFit (fuel + 1) start level segs = (do
      let start := best_fit_start (optStart start)
      if check_version_bad (best_fit_check_arg start) then .error .valueError
      else do
        let sizes := modeSizes (best_fit_sizes_arg start)
        let buffer ← segsBits (fun m => dictGet sizes m) segs
        let row ← idx Gen.BIT_LIMIT_TABLE (best_fit_bisect_row level)
        let version := bisectLeft row (best_fit_bisect_x start buffer.length) (row.length + 1)
                          (best_fit_bisect_lo start buffer.length) row.length
        if best_fit_overflow version then .error .dataOverflow
        else do
          let stored := best_fit_store version
          checkVersion stored          -- the `version` setter
          if best_fit_refit mode_size_class start stored then bestFit fuel (best_fit_recurse_start stored) level segs
          else pure stored) :=
  QR.SourceTieB.bestFit_src fuel start level segs

/-- the stateful variant used by the object model performs the same steps -/
theorem C07_source_bestFitS_src (fuel start : Nat) (s : QRState) :
    bestFitS (fuel + 1) start s =
      (let start := best_fit_start (optStart start)
       if check_version_bad (best_fit_check_arg start) then (s, .error .valueError)
       else
        let sizes := modeSizes (best_fit_sizes_arg start)
        match segsBits (fun m => dictGet sizes m) s.dataList with
        | .error e => (s, .error e)
        | .ok buffer =>
          match idx Gen.BIT_LIMIT_TABLE (best_fit_bisect_row s.level) with
          | .error e => (s, .error e)
          | .ok row =>
            let version := bisectLeft row (best_fit_bisect_x start buffer.length) (row.length + 1)
                              (best_fit_bisect_lo start buffer.length) row.length
            if best_fit_overflow version then (s, .error .dataOverflow)
            else
              let stored := best_fit_store version
              match checkVersion stored with
              | .error e => (s, .error e)
              | .ok _ =>
                let s := { s with version := stored }
                if best_fit_refit mode_size_class start stored then bestFitS fuel (best_fit_recurse_start stored) s
                else (s, .ok stored)) :=
  QR.SourceTieB.bestFitS_src fuel start s

end SourceTieT2

/-! ### Capstones: the property composed with the source tie. `qrcode/main.py:QRCode.best_fit` is translated statement by
    statement (`Gen.Code.best_fit_*`, `check_version_bad`, `mode_size_class`, regenerated from /repo's current Python AST
    on every run), not as one function; `QR.CapstoneE1.bestFitSrc` / `segsBitsSrc` (QR/Proofs/CapstoneE1.lean) assemble
    those fragments exactly as the right-hand sides of `C07_source_bestFit_src` / `C07_source_segsBits_src` do, the
    recursive call going to the assembled function itself. The chain is only PARTLY translated: the callees
    `util.mode_sizes_for_version`, `data.write(buffer)`, `bisect.bisect_left` and the `version` setter are parameters,
    instantiated below by the Model functions `modeSizes`, `segWrite`, `bisectLeft`, `checkVersion` (those are tied to
    the source by the bridge theorems of other properties); `util.BIT_LIMIT_TABLE` is the table dumped from the running
    library (`Gen.BIT_LIMIT_TABLE`). No other Model function occurs in a conclusion. The first argument `4` is the
    recursion fuel (at most 3 levels are ever needed: one per version class), `start = 0` encodes `start=None`,
    `l.indicator` is the integer the library uses for the level, `toPSegs segs = some ps` reads the segments as Spec
    segments and `segCounts ps` are their (mode, character count) pairs. -/
section Capstone
open QR.Model QR.Gen.Code QR.SourceTieA QR.SourceTieB QR.CapstoneE1

/-- **capstone, `qrcode/main.py:QRCode.best_fit`** = the Spec's minimal-version function: the assembled translated source returns
    `Spec.minVersion start l counts`, the smallest version in `max start 1 .. 40` whose ISO capacity holds the stream
    (closed-form length with that version's own count widths), and raises DataOverflowError when there is none.
    From `C07_source_bestFit_src`, `C07_source_segsBits_src` (via `CapstoneE1.bestFitSrc_eq`) and `C07_eq_minVersion`. -/
theorem C07_source_capstone_eq_minVersion (start : Nat) (hs : start ≤ 40) (l : Spec.Level) (segs : List Seg)
    (ps : List Spec.PSeg) (hv : ∀ s ∈ segs, s.Valid) (hp : toPSegs segs = some ps) :
    bestFitSrc modeSizes (segsBitsSrc segWrite) Gen.BIT_LIMIT_TABLE bisectLeft checkVersion 4 start l.indicator segs =
      (match Spec.minVersion start l (segCounts ps) with
       | some v => .ok v
       | none => .error .dataOverflow) := by
  rw [bestFitSrc_eq]
  exact C07_eq_minVersion start hs l segs ps hv hp

/-- **capstone, `qrcode/main.py:QRCode.best_fit`**, definition-free: the version the assembled translated source returns is
    adequate (`Spec.fits`), not below the start, at most 40, and every smaller admissible version is inadequate.
    From `C07_source_bestFit_src`, `C07_source_segsBits_src` (via `CapstoneE1.bestFitSrc_eq`) and `C07_minimal`. -/
theorem C07_source_capstone_minimal (start : Nat) (hs : start ≤ 40) (l : Spec.Level) (segs : List Seg)
    (ps : List Spec.PSeg) (hv : ∀ s ∈ segs, s.Valid) (hp : toPSegs segs = some ps) (v : Nat)
    (h : bestFitSrc modeSizes (segsBitsSrc segWrite) Gen.BIT_LIMIT_TABLE bisectLeft checkVersion 4 start l.indicator segs = .ok v) :
    max start 1 ≤ v ∧ v ≤ 40 ∧ Spec.fits v l (segCounts ps) = true ∧
      ∀ u, max start 1 ≤ u → u < v → Spec.fits u l (segCounts ps) = false := by
  rw [bestFitSrc_eq] at h
  exact C07_minimal start hs l segs ps hv hp v h

/-- **capstone, `qrcode/main.py:QRCode.best_fit`**, failure: the assembled translated source raises DataOverflowError exactly when no
    version from the start up to 40 holds the stream, and raises nothing else.
    From `C07_source_bestFit_src`, `C07_source_segsBits_src` (via `CapstoneE1.bestFitSrc_eq`), `C07_overflow_iff` and
    `C07_error_only_overflow`. -/
theorem C07_source_capstone_overflow_iff (start : Nat) (hs : start ≤ 40) (l : Spec.Level) (segs : List Seg)
    (ps : List Spec.PSeg) (hv : ∀ s ∈ segs, s.Valid) (hp : toPSegs segs = some ps) :
    (bestFitSrc modeSizes (segsBitsSrc segWrite) Gen.BIT_LIMIT_TABLE bisectLeft checkVersion 4 start l.indicator segs = .error .dataOverflow ↔
      ∀ u, max start 1 ≤ u → u ≤ 40 → Spec.fits u l (segCounts ps) = false) ∧
    (∀ e, bestFitSrc modeSizes (segsBitsSrc segWrite) Gen.BIT_LIMIT_TABLE bisectLeft checkVersion 4 start l.indicator segs = .error e → e = .dataOverflow) := by
  rw [bestFitSrc_eq]
  exact ⟨C07_overflow_iff start hs l segs ps hv hp, fun e h => C07_error_only_overflow start hs l segs ps hv hp e h⟩

/-- **capstone, `qrcode/util.py:BIT_LIMIT_TABLE`** (the module-level comprehension `[[0] + [8 * sum(_data_count(b) for b in
    base.rs_blocks(version, ec)) for version in range(1, 41)] for ec in range(4)]`): the translated comprehension
    evaluates to a table whose row for each level is `0` followed by the ISO capacities `Spec.capacityBits v l`,
    `v = 1..40`. PARTLY translated: `bitLimitRow` (QR/Proofs/SourceTieA5.lean) is the translated row comprehension with
    the callee `base.rs_blocks` instantiated by `Model.rsBlocks` (tied to the source under C02).
    From `C07_source_bitLimitTable_src` and `C07_capacity_rows`. -/
theorem C07_source_capstone_capacity_rows :
    ∃ T, (List.range' bit_limit_level_range.1 (bit_limit_level_range.2 - bit_limit_level_range.1)).mapM bitLimitRow = .ok T ∧
      ∀ l ∈ allLevels, ∃ row, T[l.indicator]? = some row ∧ row.length = 41 ∧ row[0]? = some 0 ∧
        ∀ v, v < 40 → row[v + 1]? = some (Spec.capacityBits (v + 1) l) :=
  ⟨Gen.BIT_LIMIT_TABLE, C07_source_bitLimitTable_src, C07_capacity_rows⟩

/-- the first capstone at a concrete input (200 bytes then 9 digits, level H, `start=None`): the assembled translated source
    returns version 15 - found after a re-fit, since 15 is in another count-width class than the start 1 - which is the
    Spec's minimal version for these counts -/
example : bestFitSrc modeSizes (segsBitsSrc segWrite) Gen.BIT_LIMIT_TABLE bisectLeft checkVersion 4 0 Spec.Level.H.indicator
    [⟨4, List.replicate 200 65⟩, ⟨1, List.replicate 9 48⟩] = .ok 15 := by
  have hv : ∀ s ∈ ([⟨4, List.replicate 200 65⟩, ⟨1, List.replicate 9 48⟩] : List Seg), s.Valid := by
    intro s hs
    simp only [List.mem_cons, List.not_mem_nil, or_false] at hs
    rcases hs with rfl | rfl
    · exact Or.inr (Or.inr ⟨rfl, by decide +kernel⟩)
    · exact Or.inl ⟨rfl, by decide +kernel⟩
  have hm : Spec.minVersion 0 .H (segCounts [⟨.byte, List.replicate 200 65⟩, ⟨.numeric, List.replicate 9 48⟩]) = some 15 := by
    decide +kernel
  rw [C07_source_capstone_eq_minVersion 0 (by decide) .H _ [⟨.byte, List.replicate 200 65⟩, ⟨.numeric, List.replicate 9 48⟩] hv
    (by decide +kernel), hm]
/-- the same evaluated directly by the kernel on the assembled translated definitions -/
example : (bestFitSrc modeSizes (segsBitsSrc segWrite) Gen.BIT_LIMIT_TABLE bisectLeft checkVersion 4 0 Spec.Level.H.indicator
    [⟨4, List.replicate 200 65⟩, ⟨1, List.replicate 9 48⟩]).toOption = some 15 := by decide +kernel

end Capstone

/-- the Python functions this property's model mirrors have, in /repo's current working tree, exactly the normalised
    ASTs the model was written and validated against (fingerprints regenerated by T1 on every run) -/
theorem C07_source_fingerprints : QR.Gen.fp_C07 = QR.Pinned.fp_C07 := by decide

end QR.Props
