import QR.Model.QRObject
import QR.Proofs.Except
/-
C11 - a compile depends only on current data and settings, never on history.  (Invariant proof under construction.)
-/
namespace QR.Props
open QR QR.Model

/-- the process-wide cache never holds anything but the blank of its key -/
def Global.Inv (g : Global) : Prop := ∀ v b, g.blanks.lookup v = some b → blank v = .ok b

theorem Global.inv_empty : Global.Inv { blanks := [] } := by
  intro v b h; simp at h

/-- fetching a blank through the cache returns the blank and preserves the invariant -/
theorem C11_blank_cache (g : Global) (hg : Global.Inv g) (v : Nat) :
    (∀ g' b, blankG g v = .ok (g', b) → blank v = .ok b ∧ Global.Inv g') ∧
    (∀ e, blankG g v = .error e → blank v = .error e) := by
  unfold blankG
  cases hl : g.blanks.lookup v with
  | some b =>
    simp only
    refine ⟨?_, ?_⟩
    · intro g' b' h; injection h with h; injection h with h1 h2; subst h1; subst h2; exact ⟨hg v b hl, hg⟩
    · intro e h; cases h
  | none =>
    simp only
    cases hb : blank v with
    | error e => simp [hb]
    | ok b =>
      simp only [R.bind_ok, R.pure_eq]
      refine ⟨?_, ?_⟩
      · intro g' b' h
        injection h with h; injection h with h1 h2; subst h1; subst h2
        refine ⟨rfl, ?_⟩
        intro w c hw
        simp only [List.lookup_cons] at hw
        by_cases hwv : w = v
        · subst hwv; simp at hw; subst hw; exact hb
        · have : (w == v) = false := by simpa using hwv
          simp only [this] at hw
          exact hg w c hw
      · intro e h; cases h

end QR.Props
