import QR.Proofs.SourceTieD2
import QR.Model.QRObject
import QR.Proofs.Except
import QR.Proofs.History
import QR.Proofs.SourceTieC11
import QR.Proofs.Pinned
import QR.Proofs.SourceTieB2
import QR.Proofs.CapstoneE3
import QR.Proofs.CapstoneE5
/-
C11 - a compile depends only on current data and settings, never on history.  (Invariant proof under construction.)
-/
namespace QR.Props
open QR QR.Model

/-- the process-wide cache never holds anything but the blank of its key -/
def Global.Inv (g : Global) : Prop := ∀ v b, g.blanks.lookup v = some b → blank v = .ok b

theorem Global.inv_empty : Global.Inv { blanks := [] } := by
  intro v b h; simp at h

/-- fetching a blank through the cache returns the blank and preserves the invariant -/
theorem C11_blank_cache (g : Global) (hg : Global.Inv g) (v : Nat) :
    (∀ g' b, blankG g v = .ok (g', b) → blank v = .ok b ∧ Global.Inv g') ∧
    (∀ e, blankG g v = .error e → blank v = .error e) := by
  unfold blankG
  cases hl : g.blanks.lookup v with
  | some b =>
    simp only
    refine ⟨?_, ?_⟩
    · intro g' b' h; injection h with h; injection h with h1 h2; subst h1; subst h2; exact ⟨hg v b hl, hg⟩
    · intro e h; cases h
  | none =>
    simp only
    cases hb : blank v with
    | error e => simp [hb]
    | ok b =>
      simp only [R.bind_ok, R.pure_eq]
      refine ⟨?_, ?_⟩
      · intro g' b' h
        injection h with h; injection h with h1 h2; subst h1; subst h2
        refine ⟨rfl, ?_⟩
        intro w c hw
        simp only [List.lookup_cons] at hw
        by_cases hwv : w = v
        · subst hwv; simp at hw; subst hw; exact hb
        · have : (w == v) = false := by simpa using hwv
          simp only [this] at hw
          exact hg w c hw
      · intro e h; cases h

/-! ### the cached compile against the cache-free compile (proofs: QR/Proofs/History.lean) -/

theorem Global.inv_iff (g : Global) : Global.Inv g ↔ GInv g := Iff.rfl

/-- **B1** `makeImplS` (blank cache + data cache) is the cache-free `makeImpl` on the cached / freshly encoded data -/
theorem C11_makeImpl (test : Bool) (mask : Nat) (g : Global) (hg : Global.Inv g) (s : QRState) :
    (∀ g' s', makeImplS test mask (g, s) = ((g', s'), .ok ()) →
      Global.Inv g' ∧
      ∃ data, (s.dataCache = some data ∨
                (s.dataCache = none ∧ createData s.version s.level s.dataList = .ok data)) ∧
        s'.dataCache = some data ∧ makeImpl s.version s.level test mask data = .ok s'.modules ∧
        s'.version = s.version ∧ s'.level = s.level ∧ s'.mask = s.mask ∧ s'.border = s.border ∧
        s'.boxSize = s.boxSize ∧ s'.dataList = s.dataList) ∧
    (∀ g' s' e, makeImplS test mask (g, s) = ((g', s'), .error e) →
      Global.Inv g' ∧
      (blank s.version = .error e ∨
       (∃ b, blank s.version = .ok b ∧
          ((s.dataCache = none ∧ createData s.version s.level s.dataList = .error e) ∨
           (∃ data, (s.dataCache = some data ∨
                      (s.dataCache = none ∧ createData s.version s.level s.dataList = .ok data)) ∧
              7 < mask ∧ e = .typeError ∧ makeImpl s.version s.level test mask data = .error e)))) ∧
      s'.version = s.version ∧ s'.level = s.level ∧ s'.mask = s.mask ∧ s'.border = s.border ∧
      s'.boxSize = s.boxSize ∧ s'.dataList = s.dataList) := by
  refine ⟨?_, ?_⟩
  · intro g' s' h
    obtain ⟨a1, a2, _, _, data, a5, a6, a7⟩ := makeImplS_ok hg h
    exact ⟨a1, data, a5, a6, a7, a2.version, a2.level, a2.mask, a2.border, a2.boxSize, a2.dataList⟩
  · intro g' s' e h
    obtain ⟨a1, a2, _, a4⟩ := makeImplS_error hg h
    refine ⟨a1, ?_, a2.version, a2.level, a2.mask, a2.border, a2.boxSize, a2.dataList⟩
    rcases a4 with ⟨hb, _⟩ | ⟨b, hb, ⟨h1, h2, _⟩ | ⟨data, h1, _, h3, h4⟩⟩
    · exact Or.inl hb
    · exact Or.inr ⟨b, hb, Or.inl ⟨h1, h2⟩⟩
    · refine Or.inr ⟨b, hb, Or.inr ⟨data, h1, h3, h4, ?_⟩⟩
      subst h4
      simp only [makeImpl_eq, hb, R.bind_ok, h3, if_true]

/-- **B2** `bestFitS` returns what `bestFit` returns; it only ever assigns checked versions to `version` -/
theorem C11_bestFit (fuel start : Nat) (s : QRState) :
    (bestFitS fuel start s).2 = bestFit fuel start s.level s.dataList ∧
    (∃ v', (bestFitS fuel start s).1 = { s with version := v' } ∧ (v' = s.version ∨ (1 ≤ v' ∧ v' ≤ 40))) ∧
    (∀ v, (bestFitS fuel start s).2 = .ok v → (bestFitS fuel start s).1 = { s with version := v }) := by
  refine ⟨bestFitS_result fuel start s, bestFitS_state fuel start s, fun v h => (bestFitS_ok h).1⟩

/-- **B3** with the data known (cached, or computable), `bestMaskS` is `bestMaskPattern` -/
theorem C11_bestMask (g : Global) (hg : Global.Inv g) (s : QRState) (data : List Nat)
    (hd : s.dataCache = some data ∨ (s.dataCache = none ∧ createData s.version s.level s.dataList = .ok data)) :
    (∀ g' s' m, bestMaskS (g, s) = ((g', s'), .ok m) →
        Global.Inv g' ∧ s'.dataCache = some data ∧ bestMaskPattern s.version s.level data = .ok m ∧
        s'.version = s.version ∧ s'.level = s.level ∧ s'.mask = s.mask ∧ s'.border = s.border ∧
        s'.boxSize = s.boxSize ∧ s'.dataList = s.dataList) ∧
    (∀ g' s' e, bestMaskS (g, s) = ((g', s'), .error e) →
        Global.Inv g' ∧ bestMaskPattern s.version s.level data = .error e ∧
        s'.version = s.version ∧ s'.level = s.level ∧ s'.mask = s.mask ∧ s'.border = s.border ∧
        s'.boxSize = s.boxSize ∧ s'.dataList = s.dataList) := by
  obtain ⟨h1, h2⟩ := bestMaskS_spec g s data hg hd
  refine ⟨?_, ?_⟩
  · intro g' s' m h
    obtain ⟨a1, a2, a3, a4⟩ := h1 g' s' m h
    exact ⟨a1, a3, a4, a2.version, a2.level, a2.mask, a2.border, a2.boxSize, a2.dataList⟩
  · intro g' s' e h
    obtain ⟨a1, a2, a3⟩ := h2 g' s' e h
    exact ⟨a1, a3, a2.version, a2.level, a2.mask, a2.border, a2.boxSize, a2.dataList⟩

/-- **B4 (main)**: whatever the two caches hold (subject to the invariant of the blank cache), `make(fit)` produces
    exactly what the cache-free compile of a fresh object with the same settings and data produces, or fails with the
    same error.  `version ≤ 40` is needed for the error clause only (see `C11_make_any`). -/
theorem C11_make (fit : Bool) (g : Global) (hg : Global.Inv g) (s : QRState) (hv : s.version ≤ 40) :
    match makeS fit (g, s) with
    | ((g', s'), .ok ()) => Global.Inv g' ∧
        ∃ m, compile { version := s.version, level := s.level, mask := s.mask, fit := fit } s.dataList =
          .ok (s'.version, m, s'.modules)
    | ((g', _), .error e) => Global.Inv g' ∧
        compile { version := s.version, level := s.level, mask := s.mask, fit := fit } s.dataList = .error e :=
  makeS_agrees fit g s hg hv

/-- B4 for an arbitrary state: success is always that of the cache-free compile; a failure is a failure of the
    cache-free compile, of the same class as soon as `version ≤ 40` -/
theorem C11_make_any (fit : Bool) (g : Global) (hg : Global.Inv g) (s : QRState) :
    match makeS fit (g, s) with
    | ((g', s'), .ok ()) => Global.Inv g' ∧
        ∃ m, compile { version := s.version, level := s.level, mask := s.mask, fit := fit } s.dataList =
          .ok (s'.version, m, s'.modules)
    | ((g', _), .error e) => Global.Inv g' ∧
        (∃ e', compile { version := s.version, level := s.level, mask := s.mask, fit := fit } s.dataList = .error e') ∧
        (s.version ≤ 40 →
          compile { version := s.version, level := s.level, mask := s.mask, fit := fit } s.dataList = .error e) :=
  makeS_agrees_weak fit g s hg

/-- the hypothesis of the error clause cannot be dropped: `blank` exists exactly for `version ≤ 40`, and `makeImpl`
    consults it before `create_data` while `compile` encodes first -/
theorem C11_blank_total (v : Nat) : (∃ b, blank v = .ok b) ↔ v ≤ 40 :=
  ⟨fun ⟨_, h⟩ => le_of_blank_ok h, blank_ok_of_le⟩

/-- **B5**: every operation preserves the invariant of the process-wide cache, and the range of the settings -/
theorem C11_step_inv (g : Global) (hg : Global.Inv g) (s : QRState) (op : Op) :
    Global.Inv (step (g, s) op).1.1 ∧ (s.version ≤ 40 → (step (g, s) op).1.2.version ≤ 40) ∧
      ((∀ m, s.mask = some m → m ≤ 7) → ∀ m, (step (g, s) op).1.2.mask = some m → m ≤ 7) := by
  obtain ⟨a1, a2, a3, _⟩ := step_inv g s op hg
  exact ⟨a1, a2, a3⟩

/-- **C11**: after ANY sequence of operations (adds, clears, failed and successful compiles, setter calls, caller
    writes into the matrix, compiles by other objects of the process), from any state with `version ≤ 40` (in
    particular any constructed object), the cache invariant holds and a compile yields exactly what a fresh object
    with the current settings and data yields, or fails with the same error -/
theorem C11_history_free (ops : List Op) (g0 : Global) (hg : Global.Inv g0) (s0 : QRState) (hv : s0.version ≤ 40) :
    match run (g0, s0) ops with
    | ((g, s), _) => Global.Inv g ∧ ∀ fit : Bool,
        match makeS fit (g, s) with
        | ((g', s'), .ok ()) => Global.Inv g' ∧
            ∃ m, compile { version := s.version, level := s.level, mask := s.mask, fit := fit } s.dataList =
              .ok (s'.version, m, s'.modules)
        | ((g', _), .error e) => Global.Inv g' ∧
            compile { version := s.version, level := s.level, mask := s.mask, fit := fit } s.dataList = .error e := by
  cases h : run (g0, s0) ops with
  | mk st outs =>
    obtain ⟨g, s⟩ := st
    have key := fun fit => history_free ops g0 hg s0 hv fit
    rw [h] at key
    exact ⟨(key true).1, fun fit => (key fit).2⟩

/-- ... in particular from every constructed object and the empty process cache -/
theorem C11_history_free_constructed (version : Option Int) (level : Nat) (box border : Int) (mask : Option Int)
    (s0 : QRState) (hc : construct version level box border mask = .ok s0) (ops : List Op) :
    match run ({ blanks := [] }, s0) ops with
    | ((g, s), _) => Global.Inv g ∧ ∀ fit : Bool,
        match makeS fit (g, s) with
        | ((g', s'), .ok ()) => Global.Inv g' ∧
            ∃ m, compile { version := s.version, level := s.level, mask := s.mask, fit := fit } s.dataList =
              .ok (s'.version, m, s'.modules)
        | ((g', _), .error e) => Global.Inv g' ∧
            compile { version := s.version, level := s.level, mask := s.mask, fit := fit } s.dataList = .error e :=
  C11_history_free ops _ Global.inv_empty s0 (construct_inv hc).1.1

/-- from an arbitrary state (even `version > 40`, which no setter admits) only the error class may differ -/
theorem C11_history_free_any (ops : List Op) (g0 : Global) (hg : Global.Inv g0) (s0 : QRState) :
    match run (g0, s0) ops with
    | ((g, s), _) => Global.Inv g ∧ ∀ fit : Bool,
        match makeS fit (g, s) with
        | ((g', s'), .ok ()) => Global.Inv g' ∧
            ∃ m, compile { version := s.version, level := s.level, mask := s.mask, fit := fit } s.dataList =
              .ok (s'.version, m, s'.modules)
        | ((g', _), .error e) => Global.Inv g' ∧
            (∃ e', compile { version := s.version, level := s.level, mask := s.mask, fit := fit } s.dataList =
              .error e') ∧
            (s.version ≤ 40 →
              compile { version := s.version, level := s.level, mask := s.mask, fit := fit } s.dataList =
                .error e) := by
  cases h : run (g0, s0) ops with
  | mk st outs =>
    obtain ⟨g, s⟩ := st
    have key := fun fit => history_free_weak ops g0 hg s0 fit
    rw [h] at key
    exact ⟨(key true).1, fun fit => (key fit).2⟩

/-! ### tie to the source: the model's expressions are the ones translated from the current Python AST (T2) -/

/-- `make` calls best_fit, makeImpl, best_mask_pattern, makeImpl - the calls the state machine composes -/
theorem C11_source_structure :
    Gen.Code.make_calls = ["self.best_fit", "self.makeImpl", "self.best_mask_pattern", "self.makeImpl"] :=
  QR.SourceTie.structure_make


/-! ### Source tie, part 2 (T2 plugins `tools/t2_fragments/`): the hand-written Model equals the definitions translated from
    /repo's current Python AST (`QR.Gen.Code`, regenerated on every run). Restated verbatim from `QR/Proofs/SourceTie*.lean`. -/
section SourceTieT2
open QR.Model QR.Gen.Code QR.SourceTieB

/-- which callee stands where -/
theorem C11_source_make_literals :
    make_fit_default = true ∧ make_reset_target = "self.data_cache" ∧ make_fit_call = "self.best_fit" ∧
    make_none_call = "self.makeImpl" ∧ make_none_mask_call = "self.best_mask_pattern()" ∧
    make_some_call = "self.makeImpl" :=
  QR.SourceTieB.make_literals

theorem C11_source_makeImpl_literals :
    makeImpl_cache_name = "precomputed_qr_blanks" ∧ makeImpl_hit_copy = "copy_2d_array" ∧
    makeImpl_copy_body = "[row[:] for row in x]" ∧ makeImpl_empty_fill = "None" ∧
    makeImpl_setup_calls = ["self.setup_position_probe_pattern", "self.setup_position_probe_pattern",
      "self.setup_position_probe_pattern", "self.setup_position_adjust_pattern", "self.setup_timing_pattern"] ∧
    makeImpl_store_value = "copy_2d_array(self.modules)" ∧ makeImpl_type_info_call = "self.setup_type_info" ∧
    makeImpl_type_number_call = "self.setup_type_number" ∧ makeImpl_create_call = "util.create_data" ∧
    (∀ v l, (makeImpl_create_args v l).2.2 = "self.data_list") ∧ makeImpl_map_call = "self.map_data" ∧
    (∀ m, (makeImpl_map_args m).1 = "self.data_cache") :=
  QR.SourceTieB.makeImpl_literals

/-- `make(fit)`: `self.data_cache = None` first; reading the `version` property (in the test when `fit` is false, in the
    call's argument otherwise) runs `best_fit()` when `_version is None`, so that the value read is never `None`
    (second argument of `make_fit_test`); then the re-fit from the current version; then `makeImpl(False, ...)` with the
    mask of `best_mask_pattern()` when `mask_pattern is None`, the configured mask otherwise -/
theorem C11_source_makeS_src (fit : Bool) (g : Global) (s : QRState) :
    makeS fit (g, s) =
      (let s := { s with dataCache := make_reset_value }
       let (s, r1) := if s.version = 0 then bestFitS 4 0 s else (s, .ok s.version)
       match r1 with
       | .error e => ((g, s), .error e)
       | .ok _ =>
         let (s, r2) := if make_fit_test fit false then bestFitS 4 (make_fit_start s.version) s else (s, .ok s.version)
         match r2 with
         | .error e => ((g, s), .error e)
         | .ok _ =>
           if make_mask_test s.mask.isNone then
             match bestMaskS (g, s) with
             | (st, .error e) => (st, .error e)
             | (st, .ok m) => makeImplS make_none_test_arg m st
           else makeImplS make_some_test_arg (make_some_mask_arg (s.mask.getD 0)) (g, s)) :=
  QR.SourceTieB.makeS_src fit g s

/-- the cache of blanks: the membership test, the key read on a hit and the key stored on a miss -/
theorem C11_source_blankG_src (g : Global) (version : Nat) :
    blankG g version =
      (if (g.blanks.lookup (makeImpl_cache_key version)).isSome then
        .ok (g, (g.blanks.lookup (makeImpl_hit_key version)).getD default)
      else do
        let b ← blank version
        pure ({ blanks := (makeImpl_store_key version, b) :: g.blanks }, b)) :=
  QR.SourceTieB.blankG_src g version

/-- `makeImpl(test, mask_pattern)` on the object: every statement of the source, in order -/
theorem C11_source_makeImplS_src (test : Bool) (mask : Nat) (g : Global) (s : QRState) :
    makeImplS test mask (g, s) =
      (let n := makeImpl_modules_count s.version
       let s := { s with modulesCount := n }
       match blankG g s.version with
       | .error e => ((g, s), .error e)
       | .ok (g, b) =>
         let m := setupTypeInfo n s.level b (makeImpl_type_info_args test mask).1 (makeImpl_type_info_args test mask).2
         let m := if makeImpl_type_number_test s.version then setupTypeNumber n s.version m (makeImpl_type_number_arg test)
                  else m
         let s := { s with modules := m }
         match (if makeImpl_data_test s.dataCache.isNone then
                  createData (makeImpl_create_args s.version s.level).1 (makeImpl_create_args s.version s.level).2.1 s.dataList
                else .ok (s.dataCache.getD [])) with
         | .error e => ((g, s), .error e)
         | .ok d =>
           let s := { s with dataCache := some d }
           if (makeImpl_map_args mask).2 > 7 then ((g, s), .error .typeError)
           else ((g, { s with modules := mapData n m d (makeImpl_map_args mask).2 }), .ok ())) :=
  QR.SourceTieB.makeImplS_src test mask g s

end SourceTieT2

/-! ### Source tie, part 4 (T2 plugin `tools/t2_fragments/frag_d2.py`): the QRCode object's own methods, translated statement by
    statement from /repo's current Python AST (`QR.Gen.Code.ob_*`), against the Model. Restated verbatim from
    `QR/Proofs/SourceTieD2*.lean`. -/
section SourceTieD2
open QR.Model QR.Gen.Code QR.SourceTieD2

/-- texts recorded by the translator for the object methods of qrcode/main.py (raise messages, `add_data` branches, `__init__` defaults, class attributes) -/
theorem C11_source_literals_src :
    ob_check_box_size_raise0 = "ValueError(f'Invalid box size (was {size}, expected larger than 0)')" ∧
    ob_check_border_raise0 = "ValueError('Invalid border value (was %s, expected 0 or larger than that)' % size)" ∧
    ob_check_mask_pattern_raise0 = "TypeError(f'Invalid mask pattern (was {type(mask_pattern)}, expected int)')" ∧
    ob_check_mask_pattern_raise1 = "ValueError(f'Mask pattern should be in range(8) (got {mask_pattern})')" ∧
    ob_get_version_cast_type = "int" ∧ ob_add_data_optimize_default = 20 ∧
    ob_add_data_branches = ["self.data_list.append(data)",
      "self.data_list.extend(util.optimal_data_chunks(data, minimum=optimize))", "self.data_list.append(util.QRData(data))"] ∧
    ob_init_defaults = [("version", "None", "None"), ("error_correction", "constants.ERROR_CORRECT_M", "0"),
      ("box_size", "10", "10"), ("border", "4", "4"), ("image_factory", "None", "None"), ("mask_pattern", "None", "None")] ∧
    ob_class_attributes = ["_version: Optional[int] = None"] := by
  first | exact QR.SourceTieD2.literals_src | (apply QR.SourceTieD2.literals_src <;> assumption)

/-- `clear()` = `QRState.cleared` -/
theorem C11_source_cleared_src {F : Type} (fac : Option F) (s : QRState) : ob_clear (toOb fac s) = toOb fac s.cleared := by
  first | exact QR.SourceTieD2.cleared_src | (apply QR.SourceTieD2.cleared_src <;> assumption)

/-- `clear()` does not depend on (and overwrites) the four attributes it assigns: on ANY object -/
theorem C11_source_clear_fields_src {D C F : Type} (o : ob_QR D C F) :
    ob_clear o = { o with modules := [[]], modules_count := 0, data_cache := none, data_list := [] } := by
  first | exact QR.SourceTieD2.clear_fields_src | (apply QR.SourceTieD2.clear_fields_src <;> assumption)

/-- the last statement of `add_data` is `self.data_cache = None` (the Model's `.addData` / `.addSeg` reset the cache) -/
theorem C11_source_add_data_reset_src {F : Type} (fac : Option F) (s : QRState) :
    ob_add_data_reset (toOb fac s) = toOb fac { s with dataCache := none } := by
  first | exact QR.SourceTieD2.add_data_reset_src | (apply QR.SourceTieD2.add_data_reset_src <;> assumption)

/-- **`add_data(data, optimize)`** on a byte string = the Model's `.addData`: with `optimize` truthy the chunks of
    `util.optimal_data_chunks(data, minimum=optimize)` are appended, else the single `util.QRData(data)`; then
    `self.data_cache = None` -/
theorem C11_source_addData_src {F : Type} (fac : Option F) (g : Global) (s : QRState) (d : Bytes) (n : Nat) :
    Agrees fac g s
      (.ok (ob_add_data (fun d k => optimalDataChunks d k.toNat) (fun d => ({ mode := optimalMode d, data := d } : Seg))
        (toOb fac s) (.inr d) (n : Int)))
      (step (g, s) (.addData d n)) := by
  first | exact QR.SourceTieD2.addData_src | (apply QR.SourceTieD2.addData_src <;> assumption)

/-- `add_data(data)` on a `QRData` object = the Model's `.addSeg`: the object itself is appended (whatever `optimize`),
    then `self.data_cache = None` -/
theorem C11_source_addSeg_src {F X : Type} (fac : Option F) (g : Global) (s : QRState) (x : Seg) (k : Int)
    (chunks : X → Int → List Seg) (mk : X → Seg) :
    Agrees fac g s (.ok (ob_add_data chunks mk (toOb fac s) (.inl x) k)) (step (g, s) (.addSeg x)) := by
  first | exact QR.SourceTieD2.addSeg_src | (apply QR.SourceTieD2.addSeg_src <;> assumption)

/-- `clear()` as an operation -/
theorem C11_source_stepClear_src {F : Type} (fac : Option F) (g : Global) (s : QRState) :
    Agrees fac g s (.ok (ob_clear (toOb fac s))) (step (g, s) .clear) := by
  first | exact QR.SourceTieD2.stepClear_src | (apply QR.SourceTieD2.stepClear_src <;> assumption)

/-- **the tail of `__init__`**, for arguments of ANY type and any `util.check_version`: whenever the constructor returns an
    object, it has stored the `image_factory` argument, that argument passed `assert issubclass(image_factory, BaseImage)`
    (if not `None`), and the last statement `self.clear()` has run: `modules == [[]]`, `modules_count == 0`,
    `data_cache is None`, `data_list == []` -/
theorem C11_source_init_cleared_src {D C F : Type} (cv : ob_Val → Except String Unit) (issub : F → Bool) (self0 : ob_QR D C F)
    (version level box border : ob_Val) (fac : Option F) (mask : ob_Val) (o : ob_QR D C F)
    (h : ob_init cv issub self0 version level box border fac mask = .ok o) :
    o.modules = [[]] ∧ o.modules_count = 0 ∧ o.data_cache = none ∧ o.data_list = [] ∧ o.image_factory = fac ∧
      (∀ f, fac = some f → issub f = true) := by
  first | exact QR.SourceTieD2.init_cleared_src | (apply QR.SourceTieD2.init_cleared_src <;> assumption)

/-- reading `self.version`: `best_fit()` runs first when `_version is None`, and the value read afterwards is the stored
    attribute (not what `best_fit` returned) - the first line of the Model's `makeS` -/
theorem C11_source_getVersion_src {F : Type} (fac : Option F) (g : Global) (s : QRState) :
    ob_get_version (bestFitOb fac) g (toOb fac s) =
      (let p := if s.version = 0 then bestFitS 4 0 s else (s, .ok s.version)
       ((g, toOb fac p.1), liftR (p.2.map fun _ => (toOb fac p.1)._version))) := by
  first | exact QR.SourceTieD2.getVersion_src | (apply QR.SourceTieD2.getVersion_src <;> assumption)

end SourceTieD2

/-! ### Capstones: (bridge) + (property) composed - the TRANSLATED `make` / `clear` / `add_data` themselves are history free
against the cache-free reference compile. -/
section Capstone
open QR.Gen.Code QR.SourceTieD2 QR.CapstoneE3

/-- **capstone, `main.py:QRCode.make(fit)`** as assembled from its translated pieces (`CapstoneE3.makeSrc` = verbatim the right-hand
    side of `C11_source_makeS_src`: `self.data_cache = None`, the `version` property read, the re-fit, the mask branch).  Partly
    translated chain: the callees `best_fit`, `best_mask_pattern`, `makeImpl` are the Model's `bestFitS`, `bestMaskS`, `makeImplS`
    (each with its own bridge, e.g. `C11_source_makeImplS_src`, `C11_source_blankG_src`).  Whatever the two caches hold
    (blank-cache invariant `Global.Inv`, `version ≤ 40`), it produces exactly what the cache-free reference compile
    (`Model.compile`, the property's reference: a fresh object with the same settings and data) produces, or fails with the same
    error.  From `C11_source_makeS_src`, `C11_make`. -/
theorem C11_source_capstone_make (fit : Bool) (g : Global) (hg : Global.Inv g) (s : QRState) (hv : s.version ≤ 40) :
    match makeSrc fit g s with
    | ((g', s'), .ok ()) => Global.Inv g' ∧
        ∃ m, compile { version := s.version, level := s.level, mask := s.mask, fit := fit } s.dataList =
          .ok (s'.version, m, s'.modules)
    | ((g', _), .error e) => Global.Inv g' ∧
        compile { version := s.version, level := s.level, mask := s.mask, fit := fit } s.dataList = .error e := by
  rw [← makeS_eq_makeSrc]; exact C11_make fit g hg s hv

/-- **capstone (history-freedom ingredient), `main.py:QRCode.clear`** (translated `ob_clear`) followed by `make(fit)` (`makeSrc`, as
    above): the object after `clear()` is the object of a state on which a compile yields exactly what the reference compile of
    the SAME settings with NO data yields - nothing of the earlier data, matrix or cache survives.
    From `C11_source_cleared_src`, `C11_source_makeS_src`, `C11_make`. -/
theorem C11_source_capstone_clear {F : Type} (fac : Option F) (g : Global) (hg : Global.Inv g) (s : QRState)
    (hv : s.version ≤ 40) (fit : Bool) :
    ∃ s', ob_clear (toOb fac s) = toOb fac s' ∧
      match makeSrc fit g s' with
      | ((g', s''), .ok ()) => Global.Inv g' ∧
          ∃ m, compile { version := s.version, level := s.level, mask := s.mask, fit := fit } [] =
            .ok (s''.version, m, s''.modules)
      | ((g', _), .error e) => Global.Inv g' ∧
          compile { version := s.version, level := s.level, mask := s.mask, fit := fit } [] = .error e := by
  refine ⟨s.cleared, C11_source_cleared_src fac s, ?_⟩
  have h := C11_source_capstone_make fit g hg s.cleared (by simpa [QRState.cleared] using hv)
  simpa [QRState.cleared] using h

/-- **capstone (history-freedom ingredient), `main.py:QRCode.add_data(bytes, optimize)`** (translated `ob_add_data`; the callees
    `util.optimal_data_chunks` / `util.QRData` are the explicit parameters `Model.optimalDataChunks` / the Model segment
    constructor, tied to the source in C10) followed by `make(fit)` (`makeSrc`): the object after `add_data` is the object of a
    state `s'` with an EMPTY data cache, on which a compile yields exactly what the reference compile of the same settings and
    the new data list yields - a previously cached stream cannot leak into the result.
    From `C11_source_addData_src`, `C11_source_makeS_src`, `C11_make`. -/
theorem C11_source_capstone_add_data {F : Type} (fac : Option F) (g : Global) (hg : Global.Inv g) (s : QRState)
    (hv : s.version ≤ 40) (d : Bytes) (n : Nat) (fit : Bool) :
    ∃ s', ob_add_data (fun d k => optimalDataChunks d k.toNat) (fun d => ({ mode := optimalMode d, data := d } : Seg))
        (toOb fac s) (.inr d) (n : Int) = toOb fac s' ∧ s'.dataCache = none ∧
      match makeSrc fit g s' with
      | ((g', s''), .ok ()) => Global.Inv g' ∧
          ∃ m, compile { version := s.version, level := s.level, mask := s.mask, fit := fit } s'.dataList =
            .ok (s''.version, m, s''.modules)
      | ((g', _), .error e) => Global.Inv g' ∧
          compile { version := s.version, level := s.level, mask := s.mask, fit := fit } s'.dataList = .error e := by
  have ha := C11_source_addData_src fac g s d n
  simp only [Agrees, step] at ha
  refine ⟨_, Except.ok.inj ha.1, rfl, ?_⟩
  exact C11_source_capstone_make fit g hg { s with dataList := s.dataList ++ addData d n, dataCache := none } hv

/-! #### operation sequences executed by the translated code (`QR.CapstoneE5.stepSrc` / `runSrc`) -/
section CapstoneSeq
open QR.CapstoneE5

/-- **capstone (C11 itself), ANY sequence of operations executed by the TRANSLATED code** (`CapstoneE5.runSrc`, the fold of
    `stepSrc`: `main.py:QRCode.add_data` = `ob_add_data`, `clear` = `ob_clear`, `make` = `makeSrc`, the property setters
    `version` / `mask_pattern` / `border` = `ob_set_*`, `get_matrix` = `get_matrix_compile_test` + `make` + `get_matrix_early` /
    `get_matrix_code`, `make_image` = `ob_make_image`, `print_ascii` / `print_tty` = their translated implicit-compile tests +
    `make`, a compile by another object = `makeSrc`; `error_correction` / `box_size` are plain attribute assignments; the only
    Model fallback is `.mutateModules`, which is the CALLER writing into `qr.modules`, not library code), started on the object
    of any state with `version ≤ 40` and a blank cache satisfying the invariant: the run ends on the object of a state `s`
    (unique: `toOb_injective`) with the cache invariant, and `make(fit)` (`makeSrc`, the translated `make`; callees `best_fit`,
    `best_mask_pattern`, `makeImpl` = the Model's `bestFitS`, `bestMaskS`, `makeImplS`) then yields exactly what the cache-free
    reference compile (`Model.compile`) of a fresh object with the same settings and data yields, or the same error.
    From `CapstoneE5.runSrc_sim_gen` (induction over the single-step bridges `C11_source_*`, `C18_source_*`), `C11_source_makeS_src`,
    `C11_history_free`.  Hypotheses of the `make_image` bridge kept: no embedded image in `kwargs`, or level H throughout (`hk`, `CapstoneE5.EmbeddedOK`), the factory argument a
    subclass of `BaseImage` (`hf`); the arguments of the setters are integers or `None` (by the type of `Model.Op`). -/
theorem C11_source_capstone_history_free {F K : Type} (E : ImgEnv F K)
    (hf : ∀ f, E.arg = some f → E.issub f = true) (fac : Option F) (ops : List Op) (g0 : Global) (hg : Global.Inv g0)
    (s0 : QRState) (hv : s0.version ≤ 40) (hk : EmbeddedOK E s0 ops) :
    ∃ g s outs, runSrc E (g0, toOb fac s0) ops = ((g, toOb fac s), outs) ∧ Global.Inv g ∧ ∀ fit : Bool,
      match makeSrc fit g s with
      | ((g', s'), .ok ()) => Global.Inv g' ∧
          ∃ m, compile { version := s.version, level := s.level, mask := s.mask, fit := fit } s.dataList =
            .ok (s'.version, m, s'.modules)
      | ((g', _), .error e) => Global.Inv g' ∧
          compile { version := s.version, level := s.level, mask := s.mask, fit := fit } s.dataList = .error e := by
  have sim := runSrc_sim_gen E hf fac g0 hg s0 ops hk
  have h := C11_history_free ops g0 hg s0 hv
  cases hr : run (g0, s0) ops with
  | mk st outs =>
    obtain ⟨g, s⟩ := st
    rw [hr] at sim h
    refine ⟨g, s, _, sim, h.1, fun fit => ?_⟩
    rw [← makeS_eq_makeSrc]
    exact h.2 fit

/-- **capstone, the same from ANY state** (even `version > 40`, which no setter accepts): success is always that of the
    reference compile; a failure is a failure of the reference compile, of the same class as soon as `version ≤ 40`.
    From `CapstoneE5.runSrc_sim_gen`, `C11_source_makeS_src`, `C11_history_free_any`. -/
theorem C11_source_capstone_history_free_any {F K : Type} (E : ImgEnv F K)
    (hf : ∀ f, E.arg = some f → E.issub f = true) (fac : Option F) (ops : List Op) (g0 : Global) (hg : Global.Inv g0)
    (s0 : QRState) (hk : EmbeddedOK E s0 ops) :
    ∃ g s outs, runSrc E (g0, toOb fac s0) ops = ((g, toOb fac s), outs) ∧ Global.Inv g ∧ ∀ fit : Bool,
      match makeSrc fit g s with
      | ((g', s'), .ok ()) => Global.Inv g' ∧
          ∃ m, compile { version := s.version, level := s.level, mask := s.mask, fit := fit } s.dataList =
            .ok (s'.version, m, s'.modules)
      | ((g', _), .error e) => Global.Inv g' ∧
          (∃ e', compile { version := s.version, level := s.level, mask := s.mask, fit := fit } s.dataList =
            .error e') ∧
          (s.version ≤ 40 →
            compile { version := s.version, level := s.level, mask := s.mask, fit := fit } s.dataList = .error e) := by
  have sim := runSrc_sim_gen E hf fac g0 hg s0 ops hk
  have h := C11_history_free_any ops g0 hg s0
  cases hr : run (g0, s0) ops with
  | mk st outs =>
    obtain ⟨g, s⟩ := st
    rw [hr] at sim h
    refine ⟨g, s, _, sim, h.1, fun fit => ?_⟩
    rw [← makeS_eq_makeSrc]
    exact h.2 fit

/-- **capstone, from the constructor on**: whenever the translated `main.py:QRCode.__init__` (`ob_init`, with `util.check_version`
    = `checkVersionOb`, integer / `None` arguments, `image_factory` `None` or a subclass of `BaseImage`) returns an object `o`,
    every sequence of operations executed by the translated code on `o`, from the empty process cache, ends on the object of a
    state on which `make(fit)` (`makeSrc`) yields exactly what the reference compile of the same settings and data yields, or
    the same error.  From `C18_source_construct_src` (restated here from `SourceTieD2.construct_src`),
    `C11_source_capstone_history_free`. -/
theorem C11_source_capstone_history_free_constructed {F K : Type} (E : ImgEnv F K)
    (hf : ∀ f, E.arg = some f → E.issub f = true) (fac : Option F) (hfac : ∀ f, fac = some f → E.issub f = true)
    (self0 : ob_QR Seg (List Nat) F) (version : Option Int) (level : Nat) (box border : Int) (mask : Option Int)
    (o : ob_QR Seg (List Nat) F)
    (hc : ob_init checkVersionOb E.issub self0 (optVal version) (.int level) (.int box) (.int border) fac (optVal mask) = .ok o)
    (ops : List Op) (hk : E.embedded = false ∨ (level = 2 ∧ ∀ l, Op.setLevel l ∈ ops → l = 2)) :
    ∃ g s outs, runSrc E ({ blanks := [] }, o) ops = ((g, toOb fac s), outs) ∧ Global.Inv g ∧ ∀ fit : Bool,
      match makeSrc fit g s with
      | ((g', s'), .ok ()) => Global.Inv g' ∧
          ∃ m, compile { version := s.version, level := s.level, mask := s.mask, fit := fit } s.dataList =
            .ok (s'.version, m, s'.modules)
      | ((g', _), .error e) => Global.Inv g' ∧
          compile { version := s.version, level := s.level, mask := s.mask, fit := fit } s.dataList = .error e := by
  rw [QR.SourceTieD2.construct_src E.issub fac hfac] at hc
  cases hcon : construct version level box border mask with
  | error e => rw [hcon] at hc; simp [liftR, Except.map] at hc
  | ok s0 =>
    rw [hcon] at hc
    simp only [liftR, Except.map, Except.ok.injEq] at hc
    subst hc
    exact C11_source_capstone_history_free E hf fac ops _ Global.inv_empty s0 (construct_inv hcon).1.1
      (hk.imp id fun h => ⟨(construct_level hcon).trans h.1, h.2⟩)

/-- instance: the translated code runs `add_data(b"123", optimize=0)`, `clear()`, `version = 5`, `mask_pattern = 3` on `QRCode()` and
    ends (evaluated by `rfl`) on the object of the default state with version 5, mask 3 and NO data; by
    `C11_source_capstone_history_free` a `make(fit)` there is the reference compile of exactly these settings and data -/
example :
    (runSrc exampleEnv ({ blanks := [] }, toOb none exampleState)
      [.addData [49, 50, 51] 0, .clear, .setVersion (some 5), .setMask (some 3)]).1.2 =
      toOb none { exampleState with version := 5, mask := some 3 } ∧
    ∃ g s outs, runSrc exampleEnv ({ blanks := [] }, toOb none exampleState)
      [.addData [49, 50, 51] 0, .clear, .setVersion (some 5), .setMask (some 3)] = ((g, toOb none s), outs) ∧
      Global.Inv g ∧ ∀ fit : Bool,
        match QR.CapstoneE3.makeSrc fit g s with
        | ((g', s'), .ok ()) => Global.Inv g' ∧
            ∃ m, compile { version := s.version, level := s.level, mask := s.mask, fit := fit } s.dataList =
              .ok (s'.version, m, s'.modules)
        | ((g', _), .error e) => Global.Inv g' ∧
            compile { version := s.version, level := s.level, mask := s.mask, fit := fit } s.dataList = .error e :=
  ⟨rfl, C11_source_capstone_history_free exampleEnv (by intro f h; cases h)
    (none : Option Unit) [.addData [49, 50, 51] 0, .clear, .setVersion (some 5), .setMask (some 3)]
    { blanks := [] } Global.inv_empty exampleState (by decide) (Or.inl rfl)⟩

end CapstoneSeq
end Capstone

/-- the Python functions this property's model mirrors have, in /repo's current working tree, exactly the normalised
    ASTs the model was written and validated against (fingerprints regenerated by T1 on every run) -/
theorem C11_source_fingerprints : QR.Gen.fp_C11 = QR.Pinned.fp_C11 := by decide

end QR.Props
