import QR.Model.QRObject
import QR.Proofs.Except
import QR.Proofs.History
import QR.Proofs.SourceTieC11
import QR.Proofs.Pinned
/-
C11 - a compile depends only on current data and settings, never on history.  (Invariant proof under construction.)
-/
namespace QR.Props
open QR QR.Model

/-- the process-wide cache never holds anything but the blank of its key -/
def Global.Inv (g : Global) : Prop := ∀ v b, g.blanks.lookup v = some b → blank v = .ok b

theorem Global.inv_empty : Global.Inv { blanks := [] } := by
  intro v b h; simp at h

/-- fetching a blank through the cache returns the blank and preserves the invariant -/
theorem C11_blank_cache (g : Global) (hg : Global.Inv g) (v : Nat) :
    (∀ g' b, blankG g v = .ok (g', b) → blank v = .ok b ∧ Global.Inv g') ∧
    (∀ e, blankG g v = .error e → blank v = .error e) := by
  unfold blankG
  cases hl : g.blanks.lookup v with
  | some b =>
    simp only
    refine ⟨?_, ?_⟩
    · intro g' b' h; injection h with h; injection h with h1 h2; subst h1; subst h2; exact ⟨hg v b hl, hg⟩
    · intro e h; cases h
  | none =>
    simp only
    cases hb : blank v with
    | error e => simp [hb]
    | ok b =>
      simp only [R.bind_ok, R.pure_eq]
      refine ⟨?_, ?_⟩
      · intro g' b' h
        injection h with h; injection h with h1 h2; subst h1; subst h2
        refine ⟨rfl, ?_⟩
        intro w c hw
        simp only [List.lookup_cons] at hw
        by_cases hwv : w = v
        · subst hwv; simp at hw; subst hw; exact hb
        · have : (w == v) = false := by simpa using hwv
          simp only [this] at hw
          exact hg w c hw
      · intro e h; cases h

/-! ### the cached compile against the cache-free compile (proofs: QR/Proofs/History.lean) -/

theorem Global.inv_iff (g : Global) : Global.Inv g ↔ GInv g := Iff.rfl

/-- **B1** `makeImplS` (blank cache + data cache) is the cache-free `makeImpl` on the cached / freshly encoded data -/
theorem C11_makeImpl (test : Bool) (mask : Nat) (g : Global) (hg : Global.Inv g) (s : QRState) :
    (∀ g' s', makeImplS test mask (g, s) = ((g', s'), .ok ()) →
      Global.Inv g' ∧
      ∃ data, (s.dataCache = some data ∨
                (s.dataCache = none ∧ createData s.version s.level s.dataList = .ok data)) ∧
        s'.dataCache = some data ∧ makeImpl s.version s.level test mask data = .ok s'.modules ∧
        s'.version = s.version ∧ s'.level = s.level ∧ s'.mask = s.mask ∧ s'.border = s.border ∧
        s'.boxSize = s.boxSize ∧ s'.dataList = s.dataList) ∧
    (∀ g' s' e, makeImplS test mask (g, s) = ((g', s'), .error e) →
      Global.Inv g' ∧
      (blank s.version = .error e ∨
       (∃ b, blank s.version = .ok b ∧
          ((s.dataCache = none ∧ createData s.version s.level s.dataList = .error e) ∨
           (∃ data, (s.dataCache = some data ∨
                      (s.dataCache = none ∧ createData s.version s.level s.dataList = .ok data)) ∧
              7 < mask ∧ e = .typeError ∧ makeImpl s.version s.level test mask data = .error e)))) ∧
      s'.version = s.version ∧ s'.level = s.level ∧ s'.mask = s.mask ∧ s'.border = s.border ∧
      s'.boxSize = s.boxSize ∧ s'.dataList = s.dataList) := by
  refine ⟨?_, ?_⟩
  · intro g' s' h
    obtain ⟨a1, a2, _, _, data, a5, a6, a7⟩ := makeImplS_ok hg h
    exact ⟨a1, data, a5, a6, a7, a2.version, a2.level, a2.mask, a2.border, a2.boxSize, a2.dataList⟩
  · intro g' s' e h
    obtain ⟨a1, a2, _, a4⟩ := makeImplS_error hg h
    refine ⟨a1, ?_, a2.version, a2.level, a2.mask, a2.border, a2.boxSize, a2.dataList⟩
    rcases a4 with ⟨hb, _⟩ | ⟨b, hb, ⟨h1, h2, _⟩ | ⟨data, h1, _, h3, h4⟩⟩
    · exact Or.inl hb
    · exact Or.inr ⟨b, hb, Or.inl ⟨h1, h2⟩⟩
    · refine Or.inr ⟨b, hb, Or.inr ⟨data, h1, h3, h4, ?_⟩⟩
      subst h4
      simp only [makeImpl_eq, hb, R.bind_ok, h3, if_true]

/-- **B2** `bestFitS` returns what `bestFit` returns; it only ever assigns checked versions to `version` -/
theorem C11_bestFit (fuel start : Nat) (s : QRState) :
    (bestFitS fuel start s).2 = bestFit fuel start s.level s.dataList ∧
    (∃ v', (bestFitS fuel start s).1 = { s with version := v' } ∧ (v' = s.version ∨ (1 ≤ v' ∧ v' ≤ 40))) ∧
    (∀ v, (bestFitS fuel start s).2 = .ok v → (bestFitS fuel start s).1 = { s with version := v }) := by
  refine ⟨bestFitS_result fuel start s, bestFitS_state fuel start s, fun v h => (bestFitS_ok h).1⟩

/-- **B3** with the data known (cached, or computable), `bestMaskS` is `bestMaskPattern` -/
theorem C11_bestMask (g : Global) (hg : Global.Inv g) (s : QRState) (data : List Nat)
    (hd : s.dataCache = some data ∨ (s.dataCache = none ∧ createData s.version s.level s.dataList = .ok data)) :
    (∀ g' s' m, bestMaskS (g, s) = ((g', s'), .ok m) →
        Global.Inv g' ∧ s'.dataCache = some data ∧ bestMaskPattern s.version s.level data = .ok m ∧
        s'.version = s.version ∧ s'.level = s.level ∧ s'.mask = s.mask ∧ s'.border = s.border ∧
        s'.boxSize = s.boxSize ∧ s'.dataList = s.dataList) ∧
    (∀ g' s' e, bestMaskS (g, s) = ((g', s'), .error e) →
        Global.Inv g' ∧ bestMaskPattern s.version s.level data = .error e ∧
        s'.version = s.version ∧ s'.level = s.level ∧ s'.mask = s.mask ∧ s'.border = s.border ∧
        s'.boxSize = s.boxSize ∧ s'.dataList = s.dataList) := by
  obtain ⟨h1, h2⟩ := bestMaskS_spec g s data hg hd
  refine ⟨?_, ?_⟩
  · intro g' s' m h
    obtain ⟨a1, a2, a3, a4⟩ := h1 g' s' m h
    exact ⟨a1, a3, a4, a2.version, a2.level, a2.mask, a2.border, a2.boxSize, a2.dataList⟩
  · intro g' s' e h
    obtain ⟨a1, a2, a3⟩ := h2 g' s' e h
    exact ⟨a1, a3, a2.version, a2.level, a2.mask, a2.border, a2.boxSize, a2.dataList⟩

/-- **B4 (main)**: whatever the two caches hold (subject to the invariant of the blank cache), `make(fit)` produces
    exactly what the cache-free compile of a fresh object with the same settings and data produces, or fails with the
    same error.  `version ≤ 40` is needed for the error clause only (see `C11_make_any`). -/
theorem C11_make (fit : Bool) (g : Global) (hg : Global.Inv g) (s : QRState) (hv : s.version ≤ 40) :
    match makeS fit (g, s) with
    | ((g', s'), .ok ()) => Global.Inv g' ∧
        ∃ m, compile { version := s.version, level := s.level, mask := s.mask, fit := fit } s.dataList =
          .ok (s'.version, m, s'.modules)
    | ((g', _), .error e) => Global.Inv g' ∧
        compile { version := s.version, level := s.level, mask := s.mask, fit := fit } s.dataList = .error e :=
  makeS_agrees fit g s hg hv

/-- B4 for an arbitrary state: success is always that of the cache-free compile; a failure is a failure of the
    cache-free compile, of the same class as soon as `version ≤ 40` -/
theorem C11_make_any (fit : Bool) (g : Global) (hg : Global.Inv g) (s : QRState) :
    match makeS fit (g, s) with
    | ((g', s'), .ok ()) => Global.Inv g' ∧
        ∃ m, compile { version := s.version, level := s.level, mask := s.mask, fit := fit } s.dataList =
          .ok (s'.version, m, s'.modules)
    | ((g', _), .error e) => Global.Inv g' ∧
        (∃ e', compile { version := s.version, level := s.level, mask := s.mask, fit := fit } s.dataList = .error e') ∧
        (s.version ≤ 40 →
          compile { version := s.version, level := s.level, mask := s.mask, fit := fit } s.dataList = .error e) :=
  makeS_agrees_weak fit g s hg

/-- the hypothesis of the error clause cannot be dropped: `blank` exists exactly for `version ≤ 40`, and `makeImpl`
    consults it before `create_data` while `compile` encodes first -/
theorem C11_blank_total (v : Nat) : (∃ b, blank v = .ok b) ↔ v ≤ 40 :=
  ⟨fun ⟨_, h⟩ => le_of_blank_ok h, blank_ok_of_le⟩

/-- **B5**: every operation preserves the invariant of the process-wide cache, and the range of the settings -/
theorem C11_step_inv (g : Global) (hg : Global.Inv g) (s : QRState) (op : Op) :
    Global.Inv (step (g, s) op).1.1 ∧ (s.version ≤ 40 → (step (g, s) op).1.2.version ≤ 40) ∧
      ((∀ m, s.mask = some m → m ≤ 7) → ∀ m, (step (g, s) op).1.2.mask = some m → m ≤ 7) := by
  obtain ⟨a1, a2, a3, _⟩ := step_inv g s op hg
  exact ⟨a1, a2, a3⟩

/-- **C11**: after ANY sequence of operations (adds, clears, failed and successful compiles, setter calls, caller
    writes into the matrix, compiles by other objects of the process), from any state with `version ≤ 40` (in
    particular any constructed object), the cache invariant holds and a compile yields exactly what a fresh object
    with the current settings and data yields, or fails with the same error -/
theorem C11_history_free (ops : List Op) (g0 : Global) (hg : Global.Inv g0) (s0 : QRState) (hv : s0.version ≤ 40) :
    match run (g0, s0) ops with
    | ((g, s), _) => Global.Inv g ∧ ∀ fit : Bool,
        match makeS fit (g, s) with
        | ((g', s'), .ok ()) => Global.Inv g' ∧
            ∃ m, compile { version := s.version, level := s.level, mask := s.mask, fit := fit } s.dataList =
              .ok (s'.version, m, s'.modules)
        | ((g', _), .error e) => Global.Inv g' ∧
            compile { version := s.version, level := s.level, mask := s.mask, fit := fit } s.dataList = .error e := by
  cases h : run (g0, s0) ops with
  | mk st outs =>
    obtain ⟨g, s⟩ := st
    have key := fun fit => history_free ops g0 hg s0 hv fit
    rw [h] at key
    exact ⟨(key true).1, fun fit => (key fit).2⟩

/-- ... in particular from every constructed object and the empty process cache -/
theorem C11_history_free_constructed (version : Option Int) (level : Nat) (box border : Int) (mask : Option Int)
    (s0 : QRState) (hc : construct version level box border mask = .ok s0) (ops : List Op) :
    match run ({ blanks := [] }, s0) ops with
    | ((g, s), _) => Global.Inv g ∧ ∀ fit : Bool,
        match makeS fit (g, s) with
        | ((g', s'), .ok ()) => Global.Inv g' ∧
            ∃ m, compile { version := s.version, level := s.level, mask := s.mask, fit := fit } s.dataList =
              .ok (s'.version, m, s'.modules)
        | ((g', _), .error e) => Global.Inv g' ∧
            compile { version := s.version, level := s.level, mask := s.mask, fit := fit } s.dataList = .error e :=
  C11_history_free ops _ Global.inv_empty s0 (construct_inv hc).1.1

/-- from an arbitrary state (even `version > 40`, which no setter admits) only the error class may differ -/
theorem C11_history_free_any (ops : List Op) (g0 : Global) (hg : Global.Inv g0) (s0 : QRState) :
    match run (g0, s0) ops with
    | ((g, s), _) => Global.Inv g ∧ ∀ fit : Bool,
        match makeS fit (g, s) with
        | ((g', s'), .ok ()) => Global.Inv g' ∧
            ∃ m, compile { version := s.version, level := s.level, mask := s.mask, fit := fit } s.dataList =
              .ok (s'.version, m, s'.modules)
        | ((g', _), .error e) => Global.Inv g' ∧
            (∃ e', compile { version := s.version, level := s.level, mask := s.mask, fit := fit } s.dataList =
              .error e') ∧
            (s.version ≤ 40 →
              compile { version := s.version, level := s.level, mask := s.mask, fit := fit } s.dataList =
                .error e) := by
  cases h : run (g0, s0) ops with
  | mk st outs =>
    obtain ⟨g, s⟩ := st
    have key := fun fit => history_free_weak ops g0 hg s0 fit
    rw [h] at key
    exact ⟨(key true).1, fun fit => (key fit).2⟩

/-! ### tie to the source: the model's expressions are the ones translated from the current Python AST (T2) -/

/-- `make` calls best_fit, makeImpl, best_mask_pattern, makeImpl - the calls the state machine composes -/
theorem C11_source_structure :
    Gen.Code.make_calls = ["self.best_fit", "self.makeImpl", "self.best_mask_pattern", "self.makeImpl"] :=
  QR.SourceTie.structure_make

/-- the Python functions this property's model mirrors have, in /repo's current working tree, exactly the normalised
    ASTs the model was written and validated against (fingerprints regenerated by T1 on every run) -/
theorem C11_source_fingerprints : QR.Gen.fp_C11 = QR.Pinned.fp_C11 := by decide

end QR.Props
