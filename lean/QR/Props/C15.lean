import QR.Model.Render
import QR.Spec.Render
import QR.Proofs.Text
import QR.Proofs.Pinned
import QR.Proofs.SourceTieC15
import QR.Proofs.SourceTieB4
/-
C15 - terminal renderings read back to the module matrix.
-/
namespace QR.Props
open QR QR.Model

/-- kernel-checked instance of the read-back statement on a 3x3 matrix with border 1, all three variants -/
theorem C15_example :
    let M : Mods := [[true, false, true], [false, true, true], [true, true, false]]
    ((Spec.readHalfBlocks false (printAscii M 3 1 false false)).map (·.take 5) == some (Spec.frame M 3 1)) &&
    ((Spec.readHalfBlocks true (printAscii M 3 1 false true)).map (·.take 5) == some (Spec.frame M 3 1)) &&
    ((Spec.readHalfBlocks true (printAscii M 3 1 true false)).map (·.take 5) == some (Spec.frame M 3 1)) &&
    (Spec.readTty (printTty M 3) == some (Spec.frame M 3 1)) = true := by decide +kernel

/-- **C15 (print_ascii)**: for every n x n matrix, every border and all four (tty, invert) combinations, the half-block
text read back by the independent reader `Spec.readHalfBlocks` (SGR escapes stripped, lines split at newlines, each
glyph decoded to its upper/lower ink; ink = dark normally, ink = light when inverted, and tty forces invert) is
exactly the symbol framed by `border` light modules.  When the height n + 2*border is odd the last text line carries
a phantom lower half-row, which `take` drops.  Holds for n = 0 and border = 0 as well. -/
theorem C15_ascii (M : List (List Bool)) (n border : Nat)
    (hlen : M.length = n) (hrow : ∀ row ∈ M, row.length = n) (tty invert : Bool) :
    (Spec.readHalfBlocks (invert || tty) (printAscii M n border tty invert)).map (·.take (n + 2 * border))
      = some (Spec.frame M n border) :=
  Proofs.Text.readHalfBlocks_printAscii M n border hlen hrow tty invert

/-- every text line of `print_ascii` (escapes stripped) has exactly n + 2*border glyphs, and there are
ceil((n + 2*border) / 2) lines -/
theorem C15_ascii_lines (M : List (List Bool)) (n border : Nat) (tty invert : Bool) :
    let text := printAscii M n border tty invert
    let lines := Spec.splitLines (text.length + 1) (Spec.stripSgr (text.length + 1) text)
    lines.length = (n + 2 * border + 1) / 2 ∧ ∀ line ∈ lines, line.length = n + 2 * border :=
  ⟨Proofs.Text.printAscii_line_count M n border tty invert, Proofs.Text.printAscii_line_length M n border tty invert⟩

/-- **C15 (print_tty)**: for every n x n matrix the colour-escape text read back by `Spec.readTty` (background 47 =
light, 40 = dark, two spaces per module) is exactly the symbol framed by one light module -/
theorem C15_tty (M : List (List Bool)) (n : Nat)
    (hlen : M.length = n) (hrow : ∀ row ∈ M, row.length = n) :
    Spec.readTty (printTty M n) = some (Spec.frame M n 1) :=
  Proofs.Text.readTty_printTty M n hlen hrow

/-- non-vacuity: instances of the general theorems on a concrete 2 x 2 symbol, with the expected matrix spelled out;
the reader is not constant (a different symbol reads back differently) and rejects foreign text -/
example : (Spec.readHalfBlocks true (printAscii [[true, false], [true, true]] 2 1 true false)).map (·.take 4) =
    some [[false, false, false, false], [false, true, false, false], [false, true, true, false],
      [false, false, false, false]] :=
  (C15_ascii [[true, false], [true, true]] 2 1 rfl (by decide) true false).trans (by decide)
example : Spec.readTty (printTty [[true, false], [true, true]] 2) =
    some [[false, false, false, false], [false, true, false, false], [false, true, true, false],
      [false, false, false, false]] :=
  (C15_tty [[true, false], [true, true]] 2 rfl (by decide)).trans (by decide)
example : Spec.readTty (printTty [[true]] 1) ≠ Spec.readTty (printTty [[false]] 1) := by
  rw [C15_tty [[true]] 1 rfl (by decide), C15_tty [[false]] 1 rfl (by decide)]; decide
example : Spec.readHalfBlocks false [65, 10] = none := by decide
example : Spec.readTty [65, 10] = none := by decide


/-! ### Source tie, part 2 (T2 plugins `tools/t2_fragments/`): the hand-written Model equals the definitions translated from
    /repo's current Python AST (`QR.Gen.Code`, regenerated on every run). Restated verbatim from `QR/Proofs/SourceTie*.lean`. -/
section SourceTieT2
open QR.Model QR.Gen.Code QR.SourceTieB

/-- `range(-border, modcount + border)` -/
theorem C15_source_colRange_eq (modcount border : Nat) :
    pyRange (-(border : Int)) ((modcount : Int) + border) = (List.range (modcount + 2 * border)).map fun (j : Nat) => (j : Int) - border :=
  QR.SourceTieB.colRange_eq modcount border

/-- `range(-border, modcount + border, 2)` -/
theorem C15_source_rowRange_eq (modcount border : Nat) :
    pyRangeStep (-(border : Int)) ((modcount : Int) + border) 2 =
      (List.range ((modcount + 2 * border + 1) / 2)).map fun (k : Nat) => ((2 * k : Nat) : Int) - border :=
  QR.SourceTieB.rowRange_eq modcount border

theorem C15_source_printAscii_literals :
    print_ascii_default_stream = "sys.stdout" ∧ print_ascii_refuse_exc = "OSError" ∧
    print_ascii_compile_call = "self.make()" ∧ print_ascii_modcount = "self.modules_count" ∧
    print_ascii_code_bytes = [255, 223, 220, 219] ∧ print_ascii_codec = "cp437" ∧ print_ascii_tail = "out.flush()" :=
  QR.SourceTieB.printAscii_literals

/-- the four cp437 bytes decode to the model's code points, in the same order -/
theorem C15_source_asciiCodes_src : print_ascii_code_points = asciiCodes :=
  QR.SourceTieB.asciiCodes_src

/-- the text of `print_ascii(out, tty, invert)`, for every matrix, size, border and flag combination -/
theorem C15_source_printAscii_src (M : Mods) (modcount border : Nat) (tty invert : Bool) :
    printAscii M modcount border tty invert =
      (let inv := print_ascii_invert tty invert
       print_ascii_text (getModule M modcount border inv) (print_ascii_codes inv) modcount border tty inv) :=
  QR.SourceTieB.printAscii_src M modcount border tty invert

/-- `print_ascii` including its tty check -/
theorem C15_source_printAsciiOut_src (M : Mods) (modcount border : Nat) (tty invert isatty : Bool) :
    printAsciiOut M modcount border tty invert isatty =
      if print_ascii_refuse tty isatty then .error .osError else .ok (printAscii M modcount border tty invert) :=
  QR.SourceTieB.printAsciiOut_src M modcount border tty invert isatty

theorem C15_source_printTty_literals :
    print_tty_default_stream = "sys.stdout" ∧ print_tty_refuse_exc = "OSError" ∧
    print_tty_compile_call = "self.make()" ∧ print_tty_modcount = "self.modules_count" ∧ print_tty_tail = "out.flush()" :=
  QR.SourceTieB.printTty_literals

/-- the text of `print_tty(out)`, for every matrix and size -/
theorem C15_source_printTty_src (M : Mods) (modcount : Nat) :
    printTty M modcount = print_tty_text (fun r c => (M.getD r []).getD c false) modcount :=
  QR.SourceTieB.printTty_src M modcount

/-- `print_tty` including its tty check -/
theorem C15_source_printTtyOut_src (M : Mods) (modcount : Nat) (isatty : Bool) :
    printTtyOut M modcount isatty =
      if print_tty_refuse isatty then .error .osError else .ok (printTty M modcount) :=
  QR.SourceTieB.printTtyOut_src M modcount isatty

end SourceTieT2

/-! ### Capstones: the property composed with the source tie. The TRANSLATED SOURCE ITSELF (`QR.Gen.Code`, regenerated
    from /repo's current Python AST on every run) satisfies the Spec statement, for all inputs; no `QR.Model` function
    occurs in a conclusion (`Model.Err.osError` is only the name of the exception). Covered:
    `qrcode/main.py:QRCode.print_ascii` - the tty check (`print_ascii_refuse`), `if tty: invert = True`
    (`print_ascii_invert`), the code table and its reversal (`print_ascii_codes`), both loops and the escape sequences
    (`print_ascii_text`), and the nested `get_module` through its translated tests `get_module_phantom` /
    `get_module_outside` and return values (its last branch `cast(int, self.modules[x][y])` is not translated as an
    expression - `Gen.Code.get_module_inside` records its text - and is written here as the list lookup);
    `qrcode/main.py:QRCode.print_tty` - the tty check (`print_tty_refuse`) and the text (`print_tty_text`, with
    `self.modules[r][c]` as the list lookup). NOT covered: the implicit `self.make()` of both (a callee, treated by
    `C16_implicit_compile`), the stream default `sys.stdout` and `out.flush()` (literals only); `modcount` is
    `self.modules_count`, here the side `n` of the matrix. -/
section Capstone
open QR.Model QR.Gen.Code QR.SourceTieB

/-- **capstone, `qrcode/main.py:QRCode.print_ascii`** (text, after the tty check): for every `n × n` matrix, every border and all
    four (tty, invert) combinations, the text the translated code builds, read back by the independent reader
    `Spec.readHalfBlocks` (ink = light iff `invert || tty`), is exactly `Spec.frame M n border`; `take` drops the phantom
    lower half-row of an odd height. From `C15_source_printAscii_src`, `C15_source_get_module` and `C15_ascii`. -/
theorem C15_source_capstone_print_ascii (M : List (List Bool)) (n border : Nat)
    (hlen : M.length = n) (hrow : ∀ row ∈ M, row.length = n) (tty invert : Bool) :
    (Spec.readHalfBlocks (invert || tty)
      (print_ascii_text
        (fun x y => if get_module_phantom n border (print_ascii_invert tty invert) x y then get_module_phantom_value
          else if get_module_outside n x y then get_module_outside_value
          else if (M.getD x.toNat []).getD y.toNat false then 1 else 0)
        (print_ascii_codes (print_ascii_invert tty invert)) n border tty (print_ascii_invert tty invert))).map (·.take (n + 2 * border))
      = some (Spec.frame M n border) := by
  have hg : (fun x y => if get_module_phantom n border (print_ascii_invert tty invert) x y then get_module_phantom_value
          else if get_module_outside n x y then get_module_outside_value
          else if (M.getD x.toNat []).getD y.toNat false then 1 else 0) = getModule M n border (print_ascii_invert tty invert) := by
    funext x y
    exact (QR.SourceTie.getModule_eq M n border (print_ascii_invert tty invert) x y).symm
  have h := C15_ascii M n border hlen hrow tty invert
  rw [C15_source_printAscii_src M n border tty invert] at h
  rw [hg]
  exact h

/-- **capstone, `qrcode/main.py:QRCode.print_tty`** (text, after the tty check): for every `n × n` matrix the colour-escape text
    the translated code builds, read back by `Spec.readTty`, is exactly the symbol framed by one light module.
    From `C15_source_printTty_src` and `C15_tty`. -/
theorem C15_source_capstone_print_tty (M : List (List Bool)) (n : Nat)
    (hlen : M.length = n) (hrow : ∀ row ∈ M, row.length = n) :
    Spec.readTty (print_tty_text (fun r c => (M.getD r []).getD c false) n) = some (Spec.frame M n 1) := by
  rw [← C15_source_printTty_src M n]
  exact C15_tty M n hlen hrow

/-- **capstone, `qrcode/main.py:QRCode.print_ascii`, end to end with its tty check**: the translated `if tty and not out.isatty():
    raise OSError` followed by the translated text - whenever that yields a text (no OSError), the text reads back to
    `Spec.frame M n border`; and OSError is raised exactly for `tty` on a non-tty stream.
    From `C15_source_capstone_print_ascii` (i.e. `C15_source_printAscii_src`, `C15_source_get_module`, `C15_ascii`);
    the shape of the check is that of `C15_source_printAsciiOut_src`. -/
theorem C15_source_capstone_print_ascii_out (M : List (List Bool)) (n border : Nat)
    (hlen : M.length = n) (hrow : ∀ row ∈ M, row.length = n) (tty invert isatty : Bool) (text : List Nat)
    (h : (if print_ascii_refuse tty isatty then (.error .osError : Except Err (List Nat)) else .ok
      (print_ascii_text
        (fun x y => if get_module_phantom n border (print_ascii_invert tty invert) x y then get_module_phantom_value
          else if get_module_outside n x y then get_module_outside_value
          else if (M.getD x.toNat []).getD y.toNat false then 1 else 0)
        (print_ascii_codes (print_ascii_invert tty invert)) n border tty (print_ascii_invert tty invert))) = .ok text) :
    (Spec.readHalfBlocks (invert || tty) text).map (·.take (n + 2 * border)) = some (Spec.frame M n border) ∧
      (print_ascii_refuse tty isatty = true ↔ (tty = true ∧ isatty = false)) := by
  refine ⟨?_, by cases tty <;> cases isatty <;> decide⟩
  split at h
  · cases h
  · cases h; exact C15_source_capstone_print_ascii M n border hlen hrow tty invert

/-- **capstone, `qrcode/main.py:QRCode.print_tty`, end to end with its tty check**: the translated `if not out.isatty(): raise
    OSError` followed by the translated text - whenever that yields a text, it reads back to the symbol framed by one
    light module; and OSError is raised exactly on a non-tty stream.
    From `C15_source_capstone_print_tty` (i.e. `C15_source_printTty_src`, `C15_tty`); the shape of the check is that of
    `C15_source_printTtyOut_src`. -/
theorem C15_source_capstone_print_tty_out (M : List (List Bool)) (n : Nat)
    (hlen : M.length = n) (hrow : ∀ row ∈ M, row.length = n) (isatty : Bool) (text : List Nat)
    (h : (if print_tty_refuse isatty then (.error .osError : Except Err (List Nat)) else .ok
      (print_tty_text (fun r c => (M.getD r []).getD c false) n)) = .ok text) :
    Spec.readTty text = some (Spec.frame M n 1) ∧ (print_tty_refuse isatty = true ↔ isatty = false) := by
  refine ⟨?_, by cases isatty <;> decide⟩
  split at h
  · cases h
  · cases h; exact C15_source_capstone_print_tty M n hlen hrow

/-- the capstones at a concrete 2 x 2 symbol: the translated `print_tty` text, and the translated `print_ascii` text with
    border 1 on a tty, read back to the framed symbol spelled out -/
example : Spec.readTty (print_tty_text (fun r c => (([[true, false], [true, true]] : List (List Bool)).getD r []).getD c false) 2) =
    some [[false, false, false, false], [false, true, false, false], [false, true, true, false],
      [false, false, false, false]] :=
  (C15_source_capstone_print_tty [[true, false], [true, true]] 2 rfl (by decide)).trans (by decide)

example : (Spec.readHalfBlocks true
      (print_ascii_text
        (fun x y => if get_module_phantom (2:Nat) (1:Nat) (print_ascii_invert true false) x y then get_module_phantom_value
          else if get_module_outside (2:Nat) x y then get_module_outside_value
          else if (([[true, false], [true, true]] : List (List Bool)).getD x.toNat []).getD y.toNat false then 1 else 0)
        (print_ascii_codes (print_ascii_invert true false)) (2:Nat) (1:Nat) true (print_ascii_invert true false))).map (·.take (2 + 2 * 1))
      = some [[false, false, false, false], [false, true, false, false], [false, true, true, false],
      [false, false, false, false]] :=
  (C15_source_capstone_print_ascii [[true, false], [true, true]] 2 1 rfl (by decide) true false).trans (by decide)
/-- the same two statements evaluated directly by the kernel on the translated definitions -/
example : Spec.readTty (print_tty_text (fun r c => (([[true, false], [true, true]] : List (List Bool)).getD r []).getD c false) 2) =
    some [[false, false, false, false], [false, true, false, false], [false, true, true, false],
      [false, false, false, false]] := by decide +kernel
example : (Spec.readHalfBlocks true
      (print_ascii_text
        (fun x y => if get_module_phantom (2:Nat) (1:Nat) (print_ascii_invert true false) x y then get_module_phantom_value
          else if get_module_outside (2:Nat) x y then get_module_outside_value
          else if (([[true, false], [true, true]] : List (List Bool)).getD x.toNat []).getD y.toNat false then 1 else 0)
        (print_ascii_codes (print_ascii_invert true false)) (2:Nat) (1:Nat) true (print_ascii_invert true false))).map (·.take (2 + 2 * 1))
      = some [[false, false, false, false], [false, true, false, false], [false, true, true, false],
      [false, false, false, false]] := by decide +kernel

end Capstone

/-- the Python functions this property's model mirrors have, in /repo's current working tree, exactly the normalised
    ASTs the model was written and validated against (fingerprints regenerated by T1 on every run) -/
theorem C15_source_fingerprints : QR.Gen.fp_C15 = QR.Pinned.fp_C15 := by decide

/-- `get_module` of print_ascii as it stands in the source (phantom half-row test, outside test) is the model's `getModule` -/
theorem C15_source_get_module (M : Model.Mods) (modcount border : Nat) (invert : Bool) (x y : Int) :
    Model.getModule M modcount border invert x y =
      if Gen.Code.get_module_phantom modcount border invert x y then Gen.Code.get_module_phantom_value
      else if Gen.Code.get_module_outside modcount x y then Gen.Code.get_module_outside_value
      else if (M.getD x.toNat []).getD y.toNat false then 1 else 0 :=
  QR.SourceTie.getModule_eq M modcount border invert x y

/-- **C15 (tty check, refusal)**: the tty variants (`print_ascii(tty=True)`, `print_tty`) on a stream that is not a tty
raise OSError; the result carries no text at all (nothing is written) -/
theorem C15_refuse (M : Mods) (n border : Nat) (invert : Bool) :
    printAsciiOut M n border true invert false = .error .osError ∧ printTtyOut M n false = .error .osError :=
  ⟨rfl, rfl⟩

/-- **C15 (tty check, acceptance)**: `print_ascii` without `tty`, or on a tty, writes exactly `printAscii`;
`print_tty` on a tty writes exactly `printTty` -/
theorem C15_accept (M : Mods) (n border : Nat) (tty invert isatty : Bool) :
    ((tty = false ∨ isatty = true) →
      printAsciiOut M n border tty invert isatty = .ok (printAscii M n border tty invert)) ∧
    (isatty = true → printTtyOut M n true = .ok (printTty M n)) := by
  refine ⟨fun h => ?_, fun _ => rfl⟩
  rcases h with h | h <;> subst h
  · rfl
  · cases tty <;> rfl

/-- the only error of the tty check is OSError, and it occurs exactly for `tty` on a non-tty stream -/
theorem C15_refuse_iff (M : Mods) (n border : Nat) (tty invert isatty : Bool) :
    (printAsciiOut M n border tty invert isatty = .error .osError ↔ (tty = true ∧ isatty = false)) ∧
    (printTtyOut M n isatty = .error .osError ↔ isatty = false) := by
  cases tty <;> cases isatty <;> simp [printAsciiOut, printTtyOut]

/-- **C15 (print_ascii, end to end)**: whenever `print_ascii` (tty check included) returns a text, that text read back
by `Spec.readHalfBlocks` is the symbol framed by `border` light modules -/
theorem C15_ascii_out (M : List (List Bool)) (n border : Nat)
    (hlen : M.length = n) (hrow : ∀ row ∈ M, row.length = n) (tty invert isatty : Bool) (text : List Nat)
    (h : printAsciiOut M n border tty invert isatty = .ok text) :
    (Spec.readHalfBlocks (invert || tty) text).map (·.take (n + 2 * border)) = some (Spec.frame M n border) := by
  unfold printAsciiOut at h
  split at h
  · cases h
  · cases h; exact C15_ascii M n border hlen hrow tty invert

/-- **C15 (print_tty, end to end)**: whenever `print_tty` (tty check included) returns a text, it reads back to the
symbol framed by one light module -/
theorem C15_tty_out (M : List (List Bool)) (n : Nat)
    (hlen : M.length = n) (hrow : ∀ row ∈ M, row.length = n) (isatty : Bool) (text : List Nat)
    (h : printTtyOut M n isatty = .ok text) :
    Spec.readTty text = some (Spec.frame M n 1) := by
  unfold printTtyOut at h
  split at h
  · cases h
  · cases h; exact C15_tty M n hlen hrow

end QR.Props
