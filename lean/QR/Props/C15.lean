import QR.Model.Render
import QR.Spec.Render
/-
C15 - terminal renderings read back to the module matrix.  (General theorems under construction.)
-/
namespace QR.Props
open QR QR.Model

/-- kernel-checked instance of the read-back statement on a 3x3 matrix with border 1, all three variants -/
theorem C15_example :
    let M : Mods := [[true, false, true], [false, true, true], [true, true, false]]
    ((Spec.readHalfBlocks false (printAscii M 3 1 false false)).map (·.take 5) == some (Spec.frame M 3 1)) &&
    ((Spec.readHalfBlocks true (printAscii M 3 1 false true)).map (·.take 5) == some (Spec.frame M 3 1)) &&
    ((Spec.readHalfBlocks true (printAscii M 3 1 true false)).map (·.take 5) == some (Spec.frame M 3 1)) &&
    (Spec.readTty (printTty M 3) == some (Spec.frame M 3 1)) = true := by decide +kernel

end QR.Props
