import QR.Model.Render
import QR.Spec.Render
import QR.Proofs.Text
/-
C15 - terminal renderings read back to the module matrix.
-/
namespace QR.Props
open QR QR.Model

/-- kernel-checked instance of the read-back statement on a 3x3 matrix with border 1, all three variants -/
theorem C15_example :
    let M : Mods := [[true, false, true], [false, true, true], [true, true, false]]
    ((Spec.readHalfBlocks false (printAscii M 3 1 false false)).map (·.take 5) == some (Spec.frame M 3 1)) &&
    ((Spec.readHalfBlocks true (printAscii M 3 1 false true)).map (·.take 5) == some (Spec.frame M 3 1)) &&
    ((Spec.readHalfBlocks true (printAscii M 3 1 true false)).map (·.take 5) == some (Spec.frame M 3 1)) &&
    (Spec.readTty (printTty M 3) == some (Spec.frame M 3 1)) = true := by decide +kernel

/-- **C15 (print_ascii)**: for every n x n matrix, every border and all four (tty, invert) combinations, the half-block
text read back by the independent reader `Spec.readHalfBlocks` (SGR escapes stripped, lines split at newlines, each
glyph decoded to its upper/lower ink; ink = dark normally, ink = light when inverted, and tty forces invert) is
exactly the symbol framed by `border` light modules.  When the height n + 2*border is odd the last text line carries
a phantom lower half-row, which `take` drops.  Holds for n = 0 and border = 0 as well. -/
theorem C15_ascii (M : List (List Bool)) (n border : Nat)
    (hlen : M.length = n) (hrow : ∀ row ∈ M, row.length = n) (tty invert : Bool) :
    (Spec.readHalfBlocks (invert || tty) (printAscii M n border tty invert)).map (·.take (n + 2 * border))
      = some (Spec.frame M n border) :=
  Proofs.Text.readHalfBlocks_printAscii M n border hlen hrow tty invert

/-- every text line of `print_ascii` (escapes stripped) has exactly n + 2*border glyphs, and there are
ceil((n + 2*border) / 2) lines -/
theorem C15_ascii_lines (M : List (List Bool)) (n border : Nat) (tty invert : Bool) :
    let text := printAscii M n border tty invert
    let lines := Spec.splitLines (text.length + 1) (Spec.stripSgr (text.length + 1) text)
    lines.length = (n + 2 * border + 1) / 2 ∧ ∀ line ∈ lines, line.length = n + 2 * border :=
  ⟨Proofs.Text.printAscii_line_count M n border tty invert, Proofs.Text.printAscii_line_length M n border tty invert⟩

/-- **C15 (print_tty)**: for every n x n matrix the colour-escape text read back by `Spec.readTty` (background 47 =
light, 40 = dark, two spaces per module) is exactly the symbol framed by one light module -/
theorem C15_tty (M : List (List Bool)) (n : Nat)
    (hlen : M.length = n) (hrow : ∀ row ∈ M, row.length = n) :
    Spec.readTty (printTty M n) = some (Spec.frame M n 1) :=
  Proofs.Text.readTty_printTty M n hlen hrow

/-- non-vacuity: instances of the general theorems on a concrete 2 x 2 symbol, with the expected matrix spelled out;
the reader is not constant (a different symbol reads back differently) and rejects foreign text -/
example : (Spec.readHalfBlocks true (printAscii [[true, false], [true, true]] 2 1 true false)).map (·.take 4) =
    some [[false, false, false, false], [false, true, false, false], [false, true, true, false],
      [false, false, false, false]] :=
  (C15_ascii [[true, false], [true, true]] 2 1 rfl (by decide) true false).trans (by decide)
example : Spec.readTty (printTty [[true, false], [true, true]] 2) =
    some [[false, false, false, false], [false, true, false, false], [false, true, true, false],
      [false, false, false, false]] :=
  (C15_tty [[true, false], [true, true]] 2 rfl (by decide)).trans (by decide)
example : Spec.readTty (printTty [[true]] 1) ≠ Spec.readTty (printTty [[false]] 1) := by
  rw [C15_tty [[true]] 1 rfl (by decide), C15_tty [[false]] 1 rfl (by decide)]; decide
example : Spec.readHalfBlocks false [65, 10] = none := by decide
example : Spec.readTty [65, 10] = none := by decide

end QR.Props
