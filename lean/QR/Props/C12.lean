import QR.Proofs.SourceTieD4a
import QR.Proofs.SourceTieD4c
import QR.Proofs.Raster
import QR.Proofs.SourceTieC12
import QR.Proofs.Pinned
import QR.Proofs.SourceTieB5
import QR.Proofs.SourceTieT5
/-
C12 - raster geometry (image/base.py, pure.py, pil.py).  Both raster back ends produce a square of
`(modules + 2*border) * box_size` pixels in which pixel (x, y) has the fill colour iff module
`(y div box_size - border, x div box_size - border)` of the symbol is dark; every pixel of the quiet zone has the
background colour (`Spec.rasterDark` = `Spec.framed` read at `(y / box, x / box)`).
Proved for every n x n matrix, every border and every box size >= 1 (Python rejects box_size <= 0).
-/
namespace QR.Props
open QR QR.Model

/-- `pixel_size` is `(n + 2*border) * box`, the PNG writer / `Image.new` get exactly that many rows of that many
pixels: the pure-PNG row iterator yields `pixel_size` rows of `pixel_size` values, the Pillow canvas keeps
`pixel_size` rows of `pixel_size` pixels after all rectangles are drawn. -/
theorem C12_size (M : Mods) (n border box : Nat) (hlen : M.length = n) (hrow : ∀ row ∈ M, row.length = n)
    (hb : 1 ≤ box) :
    pixelSize n border box = (n + 2 * border) * box ∧
    ((pypngRows M n border box).length = pixelSize n border box ∧
      ∀ row ∈ pypngRows M n border box, row.length = pixelSize n border box) ∧
    ((pilRaster M n border box).size = pixelSize n border box ∧
      ∀ row ∈ pilRaster M n border box, row.size = pixelSize n border box) := by
  have h2 := Proofs.Raster.pypngRows_spec M n border box hlen hrow hb
  have h3 := Proofs.Raster.pilRaster_spec M n border box hlen hrow hb
  exact ⟨by rw [pixelSize, Nat.mul_comm border 2], ⟨h2.1, h2.2.1⟩, ⟨h3.1, h3.2.1⟩⟩

/-- `pixel_box(row, col)` is the closed box of exactly the pixels whose module coordinates are
`(row + border, col + border)` -/
theorem C12_pixel_box (border box row col x y : Nat) (hb : 1 ≤ box) :
    let ((x0, y0), (x1, y1)) := pixelBox border box row col
    (x0 ≤ x ∧ x ≤ x1 ∧ y0 ≤ y ∧ y ≤ y1) ↔ (x / box = col + border ∧ y / box = row + border) :=
  Proofs.Raster.pixelBox_spec border box row col x y hb

/-- pure-PNG back end (`PyPNGImage.rows_iter`, 1 = white, 0 = black): `pixel_size` rows of `pixel_size` bits,
and pixel (x, y) is black iff the framed symbol is dark at module `(y / box, x / box)` -/
theorem C12_pure (M : Mods) (n border box : Nat) (hlen : M.length = n) (hrow : ∀ row ∈ M, row.length = n)
    (hb : 1 ≤ box) :
    (pypngRows M n border box).length = pixelSize n border box ∧
    (∀ row ∈ pypngRows M n border box, row.length = pixelSize n border box) ∧
    (∀ row ∈ pypngRows M n border box, ∀ v ∈ row, v = 0 ∨ v = 1) ∧
    ∀ x y, x < pixelSize n border box → y < pixelSize n border box →
      (((pypngRows M n border box).getD y []).getD x 1 = 0 ↔ Spec.rasterDark M n border box x y = true) := by
  have h := Proofs.Raster.pypngRows_spec M n border box hlen hrow hb
  exact ⟨h.1, h.2.1, Proofs.Raster.pypngRows_bits M n border box hrow, h.2.2⟩

/-- Pillow back end (`PilImage`: background canvas + one `ImageDraw.rectangle(pixel_box(r, c))` per dark module,
under assumption A-PIL that `rectangle` fills exactly the closed box): pixel (x, y) has the fill colour iff the
framed symbol is dark at module `(y / box, x / box)` -/
theorem C12_pil (M : Mods) (n border box : Nat) (hlen : M.length = n) (hrow : ∀ row ∈ M, row.length = n)
    (hb : 1 ≤ box) :
    (pilRaster M n border box).size = pixelSize n border box ∧
    (∀ row ∈ pilRaster M n border box, row.size = pixelSize n border box) ∧
    ∀ x y, x < pixelSize n border box → y < pixelSize n border box →
      ((pilRaster M n border box).getD y #[]).getD x false = Spec.rasterDark M n border box x y :=
  Proofs.Raster.pilRaster_spec M n border box hlen hrow hb

/-- the two back ends agree pixel by pixel -/
theorem C12_agree (M : Mods) (n border box : Nat) (hlen : M.length = n) (hrow : ∀ row ∈ M, row.length = n)
    (hb : 1 ≤ box) (x y : Nat) (hx : x < pixelSize n border box) (hy : y < pixelSize n border box) :
    ((pypngRows M n border box).getD y []).getD x 1 = 0 ↔
      ((pilRaster M n border box).getD y #[]).getD x false = true := by
  rw [(C12_pure M n border box hlen hrow hb).2.2.2 x y hx hy, (C12_pil M n border box hlen hrow hb).2.2 x y hx hy]

/-- the mode `PilImage.new_image` selects: bilevel for black on white, RGBA for a transparent background -/
theorem C12_mode : pilMode (some "black") (some "white") = "1" ∧
    pilMode (some "red") (some "transparent") = "RGBA" ∧ pilMode none (some "white") = "RGB" := by decide

/-- non-vacuity: a 2 x 2 symbol, border 1, box 2 satisfies the hypotheses, gives an 8 x 8 image with both colours,
and both back ends produce the expected pixels -/
example : let M : Mods := [[true, false], [false, true]]
    M.length = 2 ∧ (∀ row ∈ M, row.length = 2) ∧ pixelSize 2 1 2 = 8 ∧
    pixelBox 1 2 0 1 = ((4, 2), (5, 3)) ∧
    Spec.rasterDark M 2 1 2 2 3 = true ∧ Spec.rasterDark M 2 1 2 4 3 = false ∧ Spec.rasterDark M 2 1 2 1 3 = false ∧
    pypngRows M 2 1 2 =
      [[1,1,1,1,1,1,1,1], [1,1,1,1,1,1,1,1],
       [1,1,0,0,1,1,1,1], [1,1,0,0,1,1,1,1],
       [1,1,1,1,0,0,1,1], [1,1,1,1,0,0,1,1],
       [1,1,1,1,1,1,1,1], [1,1,1,1,1,1,1,1]] ∧
    (pilRaster M 2 1 2).toList.map (fun r => r.toList.map fun b => if b then 0 else 1) = pypngRows M 2 1 2 := by
  decide

/-! ### tie to the source: the model's expressions are the ones translated from the current Python AST (T2) -/

/-- `BaseImage.pixel_box` as it stands in the source is the model's `pixelBox` -/
theorem C12_source_pixel_box (border box row col : Nat) :
    Gen.Code.pixel_box border box row col = pixelBox border box row col := QR.SourceTie.pixelBox_eq border box row col


/-! ### Source tie, part 2 (T2 plugins `tools/t2_fragments/`): the hand-written Model equals the definitions translated from
    /repo's current Python AST (`QR.Gen.Code`, regenerated on every run). Restated verbatim from `QR/Proofs/SourceTie*.lean`. -/
section SourceTieT2
open QR.Model QR.Gen.Code QR.SourceTieB

/-- `border_rows_iter()`: `border * box_size` rows of `box_size * (width + border * 2)` ones -/
theorem C12_source_pypngBorderRows_src (width border boxSize : Nat) :
    pypng_border_rows width border boxSize =
      List.replicate (border * boxSize) (List.replicate (boxSize * (width + border * 2)) 1) :=
  QR.SourceTieB.pypngBorderRows_src width border boxSize

/-- `rows_iter()`: for every matrix (any shape), width, border and box size -/
theorem C12_source_pypngRows_src (M : Mods) (width border boxSize : Nat) :
    pypngRows M width border boxSize = pypng_rows M width border boxSize :=
  QR.SourceTieB.pypngRows_src M width border boxSize

/-- `new_image`: a square greyscale image of `pixel_size`, one bit per pixel; `save` feeds it `rows_iter()` -/
theorem C12_source_pypngWriter_src :
    pypng_writer = "qrcode.compat.png.PngWriter" ∧ (∀ p, pypng_writer_args p = (p, p, true, 1)) ∧
    pypng_save_call = "self._img.write(stream, self.rows_iter())" :=
  QR.SourceTieB.pypngWriter_src

/-- `BaseImage.__init__`: `pixel_size` -/
theorem C12_source_pixelSize_src (width border boxSize : Nat) : pixelSize width border boxSize = pixel_size border width boxSize :=
  QR.SourceTieB.pixelSize_src width border boxSize

/-- every row of the PNG has `pixel_size` entries when the matrix is `width` wide, and there are `pixel_size` rows when it
    is `width` high: the image handed to `PngWriter(pixel_size, pixel_size, ...)` has the declared size -/
theorem C12_source_pypngRows_dims (M : Mods) (width border boxSize : Nat) (hlen : M.length = width)
    (hrow : ∀ row ∈ M, row.length = width) :
    (pypng_rows M width border boxSize).length = (pypng_writer_args (pixel_size border width boxSize)).2.1 ∧
    ∀ row ∈ pypng_rows M width border boxSize, row.length = (pypng_writer_args (pixel_size border width boxSize)).1 :=
  QR.SourceTieB.pypngRows_dims M width border boxSize hlen hrow

end SourceTieT2


/-! ### Source tie, part 2 (T2 plugins `tools/t2_fragments/`): (second plugin round, `frag_c.py`) the hand-written Model equals the definitions translated from
    /repo's current Python AST (`QR.Gen.Code`, regenerated on every run). Restated verbatim from `QR/Proofs/SourceTie*.lean`. -/
section SourceTieT2b
open QR.Model QR.Gen QR.Gen.Code QR.SourceTieT

/-- **mode** `Model.pilMode` applied to the lower-cased colours (keyword argument or default) is the first argument of
    `Image.new` in the source; `lower` is Python's `str.lower`, arbitrary here -/
theorem C12_source_pilMode_src {α : Type} (lower : String → String) (kwBack kwFill : Option (pil_Val α)) :
    pil_new_image_mode lower kwBack kwFill =
      pilMode (pilStrOf ((kwFill.getD (.str "black")).lowered lower)) (pilStrOf ((kwBack.getD (.str "white")).lowered lower)) :=
  QR.SourceTieT.pilMode_src lower kwBack kwFill

/-- the colours handed on (no Model counterpart; characterisation by mode): in mode "1" fill 0 on background 255, in mode
    "RGBA" the (lower-cased) fill on background `None`, in mode "RGB" the (lower-cased) colours themselves; and the mode
    is one of the three -/
theorem C12_source_pilNewImageColours_src {α : Type} (lower : String → String) (kwBack kwFill : Option (pil_Val α)) :
    let fill := (kwFill.getD (.str "black")).lowered lower
    let back := (kwBack.getD (.str "white")).lowered lower
    let mode := pil_new_image_mode lower kwBack kwFill
    (mode = "1" ∧ pil_new_image_fill lower kwBack kwFill = .int 0 ∧ pil_new_image_back lower kwBack kwFill = .int 255) ∨
    (mode = "RGBA" ∧ pil_new_image_fill lower kwBack kwFill = fill ∧ pil_new_image_back lower kwBack kwFill = .none) ∨
    (mode = "RGB" ∧ pil_new_image_fill lower kwBack kwFill = fill ∧ pil_new_image_back lower kwBack kwFill = back) :=
  QR.SourceTieT.pilNewImageColours_src lower kwBack kwFill

end SourceTieT2b

/-! ### Tie to the source, package D4 (`tools/t2_fragments/frag_d4.py`): the tail of `QRCode.make_image`, `PilImage.drawrect`,
    `PilImage.save`, `BaseImage.check_kind` / `get_image`, translated statement by statement from /repo's current Python AST.
    Restated verbatim from `QR/Proofs/SourceTieD4a.lean`, `SourceTieD4c.lean`. -/
section SourceTieD4
open QR.Model QR.Gen.Code QR.SourceTieD4

/-- `QRCode.make_image`: the factory call `image_factory(self.border, self.modules_count, self.box_size,
    qrcode_modules=self.modules, **kwargs)` - argument order and keyword as the Model's renderers assume -/
theorem C12_source_makeImage_factory_literals :
    rd_make_image_factory_args = ["self.border", "self.modules_count", "self.box_size"] ∧
    rd_make_image_factory_kwargs = [("qrcode_modules", "self.modules"), ("**", "kwargs")] :=
  QR.SourceTieD4.makeImage_factory_literals

/-- the tail of `QRCode.make_image` (`if im.needs_drawrect: for r ...: for c ...`, `if im.needs_processing: im.process()`) in
    closed form: the row-major double loop that `Model.pilRaster` and `Model.svgDoc` are written as -/
theorem C12_source_makeImageDraw_src {S : Type} (nd nc np : Bool) (n : Nat) (M : Mods) (ctx dr : Nat → Nat → S → S)
    (process : S → S) (im : S) :
    rd_make_image_draw nd nc np n M ctx dr process im =
      let cell : Nat → Nat → S → S := fun r c im =>
        if nc then ctx r c im else if (M.getD r []).getD c false then dr r c im else im
      let im := if nd then (List.range n).foldl (fun im r => (List.range n).foldl (fun im c => cell r c im) im) im else im
      if np then process im else im :=
  QR.SourceTieD4.makeImageDraw_src nd nc np n M ctx dr process im

/-- `make_image` with `PyPNGImage` (`needs_drawrect = False`, read from the class body): no per-module call at all - the image is
    entirely `Model.pypngRows` -/
theorem C12_source_pypng_untouched_src {S : Type} (n : Nat) (M : Mods) (ctx dr : Nat → Nat → S → S) (process : S → S) (im : S) :
    makeImageDraw "PyPNGImage" n M ctx dr process im = im :=
  QR.SourceTieD4.pypng_untouched_src n M ctx dr process im

/-- `PilImage.drawrect(row, col)` = one call `self._idr.rectangle(Model.pixelBox row col, fill=self.fill_color)` -/
theorem C12_source_pilDrawrect_src {Fill : Type} (border boxSize : Nat) (fill : Fill) (row col : Nat) (idr : List (rd_Box × Fill)) :
    rd_pil_drawrect border boxSize fill row col idr = idr ++ [(pixelBox border boxSize row col, fill)] :=
  QR.SourceTieD4.pilDrawrect_src border boxSize fill row col idr

/-- the callee and keyword of that call -/
theorem C12_source_pilDrawrect_literals :
    rd_pil_drawrect_callee = "self._idr.rectangle" ∧ rd_pil_drawrect_keywords = ["fill"] :=
  QR.SourceTieD4.pilDrawrect_literals

/-- `make_image` + `PilImage.drawrect` (class flags of `PilImage` read from the class bodies): the sequence of
    `rectangle(box, fill)` calls is `Model.pixelBox` of the dark cells in row-major order, fill = `self.fill_color` -/
theorem C12_source_pilCalls_src {Fill : Type} (fill : Fill) (M : Mods) (width border boxSize : Nat)
    (ctx : Nat → Nat → List (rd_Box × Fill) → List (rd_Box × Fill)) (process : List (rd_Box × Fill) → List (rd_Box × Fill))
    (idr : List (rd_Box × Fill)) :
    makeImageDraw "PilImage" width M ctx (rd_pil_drawrect border boxSize fill) process idr
      = idr ++ pilCalls fill M width border boxSize :=
  QR.SourceTieD4.pilCalls_src fill M width border boxSize ctx process idr

/-- `Model.pilRaster` is the background canvas with exactly these boxes drawn in this order -/
theorem C12_source_pilRaster_calls {Fill : Type} (fill : Fill) (M : Mods) (width border boxSize : Nat) :
    pilRaster M width border boxSize
      = ((pilCalls fill M width border boxSize).map (·.1)).foldl drawBox
          (Array.replicate (pixelSize width border boxSize) (Array.replicate (pixelSize width border boxSize) false)) :=
  QR.SourceTieD4.pilRaster_calls fill M width border boxSize

/-- end to end: the translated `make_image` tail with the translated `PilImage.drawrect`, painted on a `pixel_size` square
    canvas (size as translated from `BaseImage.__init__`), is `Model.pilRaster` -/
theorem C12_source_pilRaster_src (M : Mods) (width border boxSize : Nat)
    (ctx : Nat → Nat → List (rd_Box × Unit) → List (rd_Box × Unit)) (process : List (rd_Box × Unit) → List (rd_Box × Unit)) :
    pilRaster M width border boxSize
      = ((makeImageDraw "PilImage" width M ctx (rd_pil_drawrect border boxSize ()) process []).map (·.1)).foldl drawBox
          (Array.replicate (pixel_size border width boxSize) (Array.replicate (pixel_size border width boxSize) false)) :=
  QR.SourceTieD4.pilRaster_src M width border boxSize ctx process

/-- `PilImage.save(stream, format, **kwargs)`: format = `format`, else keyword `kind`, else the class's `kind`; `kind` is
    removed from the keywords passed to Pillow (no Model counterpart: closed form) -/
theorem C12_source_pilSave_src (selfKind : String) (format : Option String) (kwargs : List (String × String)) :
    rd_pil_save selfKind format kwargs =
      (some (format.getD ((kwargs.lookup "kind").getD selfKind)), kwargs.filter fun p => p.1 != "kind") :=
  QR.SourceTieD4.pilSave_src selfKind format kwargs

/-- the call `PilImage.save` ends with -/
theorem C12_source_pilSave_literals :
    rd_pil_save_callee = "self._img.save" ∧ rd_pil_save_call_shape = ["stream", "format=format", "**=kwargs"] :=
  QR.SourceTieD4.pilSave_literals

/-- `BaseImage.check_kind(kind, transform)` = the closed form `checkKind` (no Model counterpart), for all arguments -/
theorem C12_source_checkKind_src (selfKind : Option String) (allowed : Option (List String)) (kind : Option String)
    (transform : Option (Option String → Option String)) :
    rd_check_kind selfKind allowed kind transform.isSome (transform.getD id) = checkKind selfKind allowed kind transform :=
  QR.SourceTieD4.checkKind_src selfKind allowed kind transform

/-- `kind` / `allowed_kinds` of every image class, resolved along the class hierarchy -/
theorem C12_source_classKinds_literals :
    rd_class_kinds = [("PilImage", (some "PNG", none)), ("PyPNGImage", (some "PNG", some ["PNG"])),
      ("StyledPilImage", (some "PNG", none)), ("SvgFragmentImage", (some "SVG", some ["SVG"])),
      ("SvgImage", (some "SVG", some ["SVG"])), ("SvgFillImage", (some "SVG", some ["SVG"])),
      ("SvgPathImage", (some "SVG", some ["SVG"])), ("SvgPathFillImage", (some "SVG", some ["SVG"]))] :=
  QR.SourceTieD4.classKinds_literals

/-- `BaseImage.get_image(**kwargs)` returns `self._img` -/
theorem C12_source_getImage_src {I K : Type} (img : I) (kw : K) : rd_get_image img kw = img :=
  QR.SourceTieD4.getImage_src img kw

/-- `BaseImage.drawrect_context` / `BaseImage.process` raise NotImplementedError (a factory with `needs_context` /
    `needs_processing` must override them) -/
theorem C12_source_baseStubs_literals :
    rd_base_drawrect_context_raises = "NotImplementedError" ∧ rd_base_process_raises = "NotImplementedError" :=
  QR.SourceTieD4.baseStubs_literals

end SourceTieD4

/-! ### Capstones: (bridge) + (property) composed - the TRANSLATED raster code itself is pixel-exact against `Spec.rasterDark`. -/
section Capstone
open QR.Gen.Code QR.SourceTieD4

/-- **capstone, `image/pure.py:PyPNGImage.rows_iter` + `border_rows_iter`, `image/base.py:BaseImage.__init__` (`pixel_size`)**
    (all translated: `pypng_rows`, `pixel_size`): for every `n × n` matrix, border and box size ≥ 1 the rows handed to the PNG
    writer are a `pixel_size × pixel_size` square of bits, `pixel_size = (n + 2·border)·box`, and pixel (x, y) is black (0) iff
    the framed symbol is dark at module `(y / box, x / box)` (`Spec.rasterDark`) - pixel-exact.
    From `C12_source_pypngRows_src`, `C12_source_pixelSize_src`, `C12_pure`, `C12_size`. -/
theorem C12_source_capstone_pypng_rows (M : Mods) (n border box : Nat) (hlen : M.length = n)
    (hrow : ∀ row ∈ M, row.length = n) (hb : 1 ≤ box) :
    (pypng_rows M n border box).length = pixel_size border n box ∧
    (∀ row ∈ pypng_rows M n border box, row.length = pixel_size border n box) ∧
    (∀ row ∈ pypng_rows M n border box, ∀ v ∈ row, v = 0 ∨ v = 1) ∧
    pixel_size border n box = (n + 2 * border) * box ∧
    ∀ x y, x < pixel_size border n box → y < pixel_size border n box →
      (((pypng_rows M n border box).getD y []).getD x 1 = 0 ↔ Spec.rasterDark M n border box x y = true) := by
  have h := C12_pure M n border box hlen hrow hb
  have hs := (C12_size M n border box hlen hrow hb).1
  rw [C12_source_pypngRows_src, C12_source_pixelSize_src] at h
  rw [C12_source_pixelSize_src] at hs
  exact ⟨h.1, h.2.1, h.2.2.1, hs, h.2.2.2⟩

/-- **capstone, `main.py:QRCode.make_image` (draw loop, class flags of `PilImage`) + `image/pil.py:PilImage.drawrect` +
    `image/base.py:BaseImage.pixel_box` / `pixel_size`** (all translated).  Partly translated chain: Pillow's
    `ImageDraw.rectangle` is NOT Python source of the library; it is the explicit `Model.drawBox` (assumption A-PIL: fills exactly
    the closed box), folded over the rectangle calls the translated code makes on a `pixel_size` square background canvas.
    The resulting raster is `pixel_size × pixel_size` and pixel (x, y) has the fill colour iff `Spec.rasterDark` - pixel-exact,
    whatever `drawrect_context` / `process` are (never called for `PilImage`).  From `C12_source_pilRaster_src`,
    `C12_source_pixelSize_src`, `C12_pil`. -/
theorem C12_source_capstone_pil_raster (M : Mods) (n border box : Nat) (hlen : M.length = n)
    (hrow : ∀ row ∈ M, row.length = n) (hb : 1 ≤ box)
    (ctx : Nat → Nat → List (rd_Box × Unit) → List (rd_Box × Unit)) (process : List (rd_Box × Unit) → List (rd_Box × Unit)) :
    let R := ((makeImageDraw "PilImage" n M ctx (rd_pil_drawrect border box ()) process []).map (·.1)).foldl drawBox
          (Array.replicate (pixel_size border n box) (Array.replicate (pixel_size border n box) false))
    R.size = pixel_size border n box ∧ (∀ row ∈ R, row.size = pixel_size border n box) ∧
    ∀ x y, x < pixel_size border n box → y < pixel_size border n box →
      (R.getD y #[]).getD x false = Spec.rasterDark M n border box x y := by
  have h := C12_pil M n border box hlen hrow hb
  rw [C12_source_pilRaster_src M n border box ctx process, C12_source_pixelSize_src] at h
  exact h

/-- **capstone, `image/base.py:BaseImage.pixel_box`** (translated `Gen.Code.pixel_box`): the closed box of exactly the pixels whose
    module coordinates are `(row + border, col + border)`.  From `C12_source_pixel_box`, `C12_pixel_box`. -/
theorem C12_source_capstone_pixel_box (border box row col x y : Nat) (hb : 1 ≤ box) :
    let ((x0, y0), (x1, y1)) := Gen.Code.pixel_box border box row col
    (x0 ≤ x ∧ x ≤ x1 ∧ y0 ≤ y ∧ y ≤ y1) ↔ (x / box = col + border ∧ y / box = row + border) := by
  rw [C12_source_pixel_box]; exact C12_pixel_box border box row col x y hb

/-- the translated row iterator evaluated on a 2 x 2 symbol, border 1, box 2 (8 x 8 pixels), with two Spec pixels -/
example : let M : Mods := [[true, false], [false, true]]
    pypng_rows M 2 1 2 =
      [[1,1,1,1,1,1,1,1], [1,1,1,1,1,1,1,1],
       [1,1,0,0,1,1,1,1], [1,1,0,0,1,1,1,1],
       [1,1,1,1,0,0,1,1], [1,1,1,1,0,0,1,1],
       [1,1,1,1,1,1,1,1], [1,1,1,1,1,1,1,1]] ∧ pixel_size 1 2 2 = 8 ∧
    Spec.rasterDark M 2 1 2 2 3 = true ∧ Spec.rasterDark M 2 1 2 4 3 = false := by decide
end Capstone

/-- the Python functions this property's model mirrors have, in /repo's current working tree, exactly the normalised
    ASTs the model was written and validated against (fingerprints regenerated by T1 on every run) -/
theorem C12_source_fingerprints : QR.Gen.fp_C12 = QR.Pinned.fp_C12 := by decide

end QR.Props
