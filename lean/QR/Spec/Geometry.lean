import QR.Spec.Tables
/-
Spec layer: function-pattern geometry as per-cell predicates (no drawing order), module traversal order in
closed form, mask conditions (ISO Table 10), format/version information codes and positions.
Coordinates are (row, column), both from 0 at the top-left.
-/
namespace QR.Spec

def size (v : Nat) : Nat := 4 * v + 17

/-- |a - b| on naturals -/
def dist (a b : Nat) : Nat := if a ≥ b then a - b else b - a

/-- Chebyshev distance -/
def cheb (r c r0 c0 : Nat) : Nat := max (dist r r0) (dist c c0)

/-- centres of the three finder patterns -/
def finderCentres (n : Nat) : List (Nat × Nat) := [(3, 3), (3, n - 4), (n - 4, 3)]

/-- finder pattern + separator: within Chebyshev distance 4 of a finder centre (clipped by the symbol) -/
def inFinderArea (n r c : Nat) : Bool := (finderCentres n).any fun (r0, c0) => cheb r c r0 c0 ≤ 4

/-- colour inside a finder area: rings at distance 0,1 and 3 are dark; 2 and 4 (separator) are light -/
def finderColour (n r c : Nat) : Bool :=
  (finderCentres n).any fun (r0, c0) => let d := cheb r c r0 c0; d ≤ 1 || d == 3

/-- the alignment pattern (given by its centre) whose 5x5 area contains (r, c), if any: centres are all
    pairs of Annex E coordinates except the three that would overlap the finder patterns -/
def alignOf (v r c : Nat) : Option (Nat × Nat) :=
  let cs := alignmentCentres v
  let last := 4 * v + 10
  cs.findSome? fun r0 =>
    if dist r r0 ≤ 2 then
      cs.findSome? fun c0 =>
        if dist c c0 ≤ 2 && !((r0 == 6 && c0 == 6) || (r0 == 6 && c0 == last) || (r0 == last && c0 == 6))
        then some (r0, c0) else none
    else none

def inAlignment (v r c : Nat) : Bool := (alignOf v r c).isSome
def alignColour (v r c : Nat) : Bool :=
  match alignOf v r c with
  | some (r0, c0) => let d := cheb r c r0 c0; d == 0 || d == 2
  | none => false

def inTiming (n r c : Nat) : Bool := (r == 6 || c == 6) && !inFinderArea n r c
def timingColour (r c : Nat) : Bool := (r + c) % 2 == 0      -- on row 6 / column 6: even index is dark

/-- the dark module -/
def isDarkModule (n r c : Nat) : Bool := r == n - 8 && c == 8

/-- format information cells (both copies) -/
def inFormat (n r c : Nat) : Bool :=
  (r == 8 && (c ≤ 8 || c ≥ n - 8) && c != 6) || (c == 8 && (r ≤ 8 || r ≥ n - 7) && r != 6)

/-- version information cells (versions 7 and up) -/
def inVersion (v n r c : Nat) : Bool :=
  v ≥ 7 && ((r ≤ 5 && n - 11 ≤ c && c ≤ n - 9) || (c ≤ 5 && n - 11 ≤ r && r ≤ n - 9))

/-- every module that does not carry data/EC/remainder bits -/
def isFunction (v r c : Nat) : Bool :=
  let n := size v
  inFinderArea n r c || inAlignment v r c || inTiming n r c || isDarkModule n r c || inFormat n r c || inVersion v n r c

/-- the ISO-mandated colour of a function-pattern module (`none` for format/version cells, whose value
    depends on level, mask and version, and for data cells) -/
def fixedColour (v r c : Nat) : Option Bool :=
  let n := size v
  if inFinderArea n r c then some (finderColour n r c)
  else if inAlignment v r c then some (alignColour v r c)
  else if inTiming n r c then some (timingColour r c)
  else if isDarkModule n r c then some true
  else none

/-- right-hand columns of the two-module-wide vertical strips, right to left; the strip left of the
    vertical timing pattern is shifted by one -/
def rightCols (n : Nat) : List Nat :=
  ((List.range n).reverse).filter fun c => if c > 6 then c % 2 == 0 else c % 2 == 1

/-- module placement order (ISO 7.7.3): strips right to left, alternately upwards and downwards,
    within a strip right module before left module -/
def zigzag (n : Nat) : List (Nat × Nat) :=
  (rightCols n).flatMap fun right =>
    (List.range n).flatMap fun vert =>
      let up := ((right + 1) / 2) % 2 == 0
      let r := if up then n - 1 - vert else vert
      [(r, right), (r, right - 1)]

/-- data mask conditions, ISO Table 10 (i = row, j = column); `true` = the module is inverted -/
def maskCond (p i j : Nat) : Bool :=
  match p with
  | 0 => (i + j) % 2 == 0
  | 1 => i % 2 == 0
  | 2 => j % 3 == 0
  | 3 => (i + j) % 3 == 0
  | 4 => (i / 2 + j / 3) % 2 == 0
  | 5 => (i * j) % 2 + (i * j) % 3 == 0
  | 6 => ((i * j) % 2 + (i * j) % 3) % 2 == 0
  | 7 => ((i + j) % 2 + (i * j) % 3) % 2 == 0
  | _ => false

/-! ### BCH codes of the format and version information -/

/-- remainder of `w` (a polynomial over GF(2), bit k = coefficient of x^k) modulo `g` of degree `dg`,
    eliminating the coefficients from degree `top` down to `dg` -/
def gf2rem (g dg : Nat) : Nat → Nat → Nat
  | 0, w => w
  | k + 1, w => gf2rem g dg k (if w.testBit (dg + k) then w ^^^ (g <<< k) else w)

/-- 15-bit format information for the 5 data bits `d`: BCH(15,5) with generator x^10+x^8+x^5+x^4+x^2+x+1,
    then XOR 101010000010010 -/
def formatWord (d : Nat) : Nat := ((d <<< 10) ||| gf2rem 0x537 10 5 (d <<< 10)) ^^^ 0x5412

/-- 18-bit version information: BCH(18,6) with generator x^12+x^11+x^10+x^9+x^8+x^5+x^2+1 -/
def versionWord (v : Nat) : Nat := (v <<< 12) ||| gf2rem 0x1F25 12 6 (v <<< 12)

/-- first copy of format bit i (bit 0 = least significant), around the top-left finder (ISO Figure 25) -/
def fmtPos1 : List (Nat × Nat) :=
  [(0,8),(1,8),(2,8),(3,8),(4,8),(5,8),(7,8),(8,8),(8,7),(8,5),(8,4),(8,3),(8,2),(8,1),(8,0)]

/-- second copy of format bit i: bits 0-7 right to left below the top-right finder, bits 8-14 downwards
    right of the bottom-left finder -/
def fmtPos2 (n : Nat) : List (Nat × Nat) :=
  (List.range 15).map fun i => if i < 8 then (8, n - 1 - i) else (n - 15 + i, 8)

/-- the two copies of version bit i: 6x3 block above the bottom-left finder, 3x6 block left of the top-right -/
def verPos1 (n : Nat) : List (Nat × Nat) := (List.range 18).map fun i => (i / 3, n - 11 + i % 3)
def verPos2 (n : Nat) : List (Nat × Nat) := (List.range 18).map fun i => (n - 11 + i % 3, i / 3)

end QR.Spec
