/-
Spec layer: the four ISO/IEC 18004 mask-evaluation rules (7.8.3.1) as plain counts: no skipping, no histogram.
-/
namespace QR.Spec

abbrev BMat := List (List Bool)

def col (M : BMat) (c : Nat) : List Bool := M.map fun row => row.getD c false
def cols (M : BMat) (n : Nat) : BMat := (List.range n).map (col M)

/-- lengths of the maximal same-colour runs of a line -/
def runLengths : List Bool → List Nat
  | [] => []
  | [_] => [1]
  | a :: b :: t =>
    match runLengths (b :: t) with
    | [] => [1]
    | k :: ks => if a = b then (k + 1) :: ks else 1 :: k :: ks

/-- rule 1 on one line: every run of length L ≥ 5 scores L − 2  (N1 = 3, so 3 + (L − 5)) -/
def n1Line (l : List Bool) : Nat := ((runLengths l).map fun L => if L ≥ 5 then L - 2 else 0).sum

def N1 (M : BMat) (n : Nat) : Nat := ((M ++ cols M n).map n1Line).sum

/-- number of positions c with a monochrome 2x2 block whose top-left corner is (row pair, c) -/
def blocks2 : List Bool → List Bool → Nat
  | a :: b :: ta, c :: d :: tc => (if a = b ∧ a = c ∧ a = d then 1 else 0) + blocks2 (b :: ta) (d :: tc)
  | _, _ => 0

/-- rule 2: every 2x2 block of one colour scores 3 -/
def N2 : BMat → Nat
  | r1 :: r2 :: rest => 3 * blocks2 r1 r2 + N2 (r2 :: rest)
  | _ => 0

def pat1 : List Bool := [true,false,true,true,true,false,true,false,false,false,false]
def pat2 : List Bool := [false,false,false,false,true,false,true,true,true,false,true]

/-- number of positions where the 1:1:3:1:1 pattern with four light modules on one side starts -/
def windows3 : List Bool → Nat
  | [] => 0
  | x :: t => (if (x :: t).take 11 = pat1 ∨ (x :: t).take 11 = pat2 then 1 else 0) + windows3 t

/-- rule 3: every occurrence in a row or column scores 40 -/
def N3 (M : BMat) (n : Nat) : Nat := 40 * ((M ++ cols M n).map windows3).sum

def dark (M : BMat) : Nat := (M.map fun row => (row.filter id).length).sum

/-- rule 4: 10 points for every full 5% step of the dark proportion away from 50%:
    the largest k with |dark/total − 1/2| ≥ k·5/100, i.e. k·total ≤ |20·dark − 10·total| -/
def N4 (M : BMat) (n : Nat) : Nat :=
  let total := n * n
  let d := dark M
  let dev := if 20 * d ≥ 10 * total then 20 * d - 10 * total else 10 * total - 20 * d
  10 * (((List.range 11).filter fun k => k * total ≤ dev).length - 1)

def penalty (M : BMat) : Nat :=
  let n := M.length
  N1 M n + N2 M + N3 M n + N4 M n

/-- index of the first minimum of `f` over `0..k-1` -/
def argminFirst (k : Nat) (f : Nat → Nat) : Nat :=
  (List.range k).foldl (fun best i => if f i < f best then i else best) 0

end QR.Spec
