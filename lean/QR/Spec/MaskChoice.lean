import QR.Spec.Reader
import QR.Spec.Penalty
/-
Spec layer: automatic mask selection (ISO 7.8.3): among the eight masks, the one whose candidate symbol
(format and version information areas and the dark module left light) has the lowest penalty; lowest number on ties.
-/
namespace QR.Spec

/-- the candidate symbol for mask `i`, derived from a finished symbol `S` of version `v` that uses mask `m` -/
def candidate (S : Sym) (v m i : Nat) : BMat :=
  (List.range S.n).map fun r => (List.range S.n).map fun c =>
    if inFormat S.n r c || inVersion v S.n r c || isDarkModule S.n r c then false
    else if isFunction v r c then S.get r c
    else xor (xor (S.get r c) (maskCond m r c)) (maskCond i r c)

/-- the mask ISO selects for the data carried by `S` -/
def chooseMask (S : Sym) (v m : Nat) : Nat := argminFirst 8 fun i => penalty (candidate S v m i)

end QR.Spec
