/-
Spec layer: GF(256) = GF(2)[x]/(x^8+x^4+x^3+x^2+1) by shift-and-xor (no exp/log tables),
Reed-Solomon generator polynomials and syndromes.  Independent of QR.Gen and QR.Model.
-/
namespace QR.Spec

/-- multiply by x modulo x^8+x^4+x^3+x^2+1 (0x11D) -/
def xtime (a : Nat) : Nat := if a ≥ 128 then (2 * a - 256) ^^^ 29 else 2 * a

/-- carry-less product, `n` rounds (bit k of `b` selects `a·x^k`) -/
def gfmulAux : Nat → Nat → Nat → Nat
  | 0, _, _ => 0
  | n + 1, a, b => (if b % 2 = 1 then a else 0) ^^^ gfmulAux n (xtime a) (b / 2)

/-- product in GF(256) of two field elements `< 256` -/
def gfmul (a b : Nat) : Nat := gfmulAux 8 a b

def gfpow (a : Nat) : Nat → Nat
  | 0 => 1
  | n + 1 => gfmul (gfpow a n) a

/-- α = x = 2 is the primitive element used by ISO/IEC 18004 -/
def alpha : Nat := 2

/-- Horner evaluation, highest-order coefficient first; addition in GF(256) is xor -/
def peval (r : Nat) (p : List Nat) : Nat := p.foldl (fun acc a => gfmul acc r ^^^ a) 0

/-- polynomial product over GF(256), highest-order coefficient first -/
def pmulLin (p : List Nat) (root : Nat) : List Nat :=
  -- p(x) * (x + root) = p(x)·x  +  root·p(x)
  List.zipWith (· ^^^ ·) (p ++ [0]) (0 :: p.map (gfmul root))

/-- ISO generator polynomial with `e` error-correction codewords: ∏_{i<e} (x − α^i) -/
def generator : Nat → List Nat
  | 0 => [1]
  | e + 1 => pmulLin (generator e) (gfpow alpha e)

/-- `cw` (data followed by error correction) is a codeword of the RS code with `e` check symbols:
    all syndromes S_i = cw(α^i), i < e, vanish -/
def isCodeword (e : Nat) (cw : List Nat) : Bool :=
  (List.range e).all fun i => peval (gfpow alpha i) cw == 0

end QR.Spec
