/-
Spec layer: what the renderers must produce, as predicates / readers on their output (properties C12, C15, C16).
-/
namespace QR.Spec

abbrev Mods := List (List Bool)

def modAt (M : Mods) (r c : Nat) : Bool := (M.getD r []).getD c false

/-- the symbol framed by `border` light modules on every side, given pointwise -/
def framed (M : Mods) (n border : Nat) (r c : Nat) : Bool :=
  border ≤ r && r < border + n && border ≤ c && c < border + n && modAt M (r - border) (c - border)

def frame (M : Mods) (n border : Nat) : Mods :=
  (List.range (n + 2 * border)).map fun r => (List.range (n + 2 * border)).map fun c => framed M n border r c

/-- pixel (x, y) of a raster of a framed symbol with `box`-pixel modules is dark iff its module is dark -/
def rasterDark (M : Mods) (n border box : Nat) (x y : Nat) : Bool := framed M n border (y / box) (x / box)

/-! ### reading the half-block text (print_ascii) -/

/-- remove ANSI SGR sequences `ESC [ ... m` -/
def stripSgr : Nat → List Nat → List Nat
  | 0, _ => []
  | _ + 1, [] => []
  | fuel + 1, c :: t =>
    if c = 0x1B then stripSgr fuel ((t.dropWhile (· ≠ 109)).drop 1)     -- skip to and including 'm'
    else c :: stripSgr fuel t

def splitLines : Nat → List Nat → List (List Nat)
  | 0, _ => []
  | _ + 1, [] => []
  | fuel + 1, s => (s.takeWhile (· ≠ 10)) :: splitLines fuel ((s.dropWhile (· ≠ 10)).drop 1)

/-- ink in the (upper, lower) half of a glyph cell; `none` for any other character -/
def glyphInk (g : Nat) : Option (Bool × Bool) :=
  if g = 0xA0 then some (false, false) else if g = 0x2580 then some (true, false)
  else if g = 0x2584 then some (false, true) else if g = 0x2588 then some (true, true) else none

/-- read half-block text back to module rows: normally ink = dark; inverted (and tty) ink = light -/
def readHalfBlocks (invert : Bool) (text : List Nat) : Option Mods :=
  let lines := splitLines (text.length + 1) (stripSgr (text.length + 1) text)
  (lines.mapM fun (line : List Nat) => line.mapM glyphInk).map fun ls =>
    ls.flatMap fun cells => [cells.map (fun p => p.1 != invert), cells.map (fun p => p.2 != invert)]

/-! ### reading the colour-escape text (print_tty) -/

/-- interpret SGR parameters: background 47 = light, 40 = dark, 0 = reset; each pair of spaces is one module -/
def readTtyLine : Nat → Option Bool → List Nat → Option (List Bool)
  | 0, _, _ => none
  | _ + 1, _, [] => some []
  | fuel + 1, bg, c :: t =>
    if c = 0x1B then
      let params := (t.drop 1).takeWhile (· ≠ 109)       -- after '['
      let rest := (t.dropWhile (· ≠ 109)).drop 1
      let ps := String.ofList (params.map Char.ofNat)
      let bg' := if ps = "0" then none else if ps = "40" then some true else if ps = "1;47" then some false else bg
      readTtyLine fuel bg' rest
    else if c = 32 then
      match t, bg with
      | 32 :: t', some b => (readTtyLine fuel bg t').map (b :: ·)
      | _, _ => none
    else none

def readTty (text : List Nat) : Option Mods :=
  (splitLines (text.length + 1) text).mapM fun line => readTtyLine (line.length + 1) none line

end QR.Spec
