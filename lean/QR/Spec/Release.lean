/-
Spec layer: the clauses of property C20 as a predicate on (package name, new version, page before, result).
A well-formed header line starts with ".TH " and contains at least two double-quoted fields; the first quoted field
is the date, the second the version.
-/
namespace QR.Spec

def lineSplit : Nat → List Char → List (List Char)
  | 0, _ => []
  | _ + 1, [] => []
  | fuel + 1, s =>
    match s.span (· ≠ '\n') with
    | (pre, []) => [pre]
    | (pre, nl :: rest) => (pre ++ [nl]) :: lineSplit fuel rest

/-- positions of the double quotes of a line -/
def quotePositions (line : List Char) : List Nat :=
  (line.zipIdx.filter fun (ch, _) => ch == '"').map (·.2)

def wellFormedHeader (line : List Char) : Bool :=
  line.take 4 == ".TH ".toList && (quotePositions line).length ≥ 4

/-- the quoted field between quote number 2k and 2k+1 -/
def quotedField (line : List Char) (k : Nat) : List Char :=
  let qs := quotePositions line
  let a := qs.getD (2 * k) 0
  let b := qs.getD (2 * k + 1) 0
  (line.take b).drop (a + 1)

/-- replace the contents of quoted fields 0 (date) and 1 (version), keep everything else -/
def setHeaderFields (line date version : List Char) : List Char :=
  let qs := quotePositions line
  let q0 := qs.getD 0 0; let q1 := qs.getD 1 0; let q2 := qs.getD 2 0; let q3 := qs.getD 3 0
  line.take (q0 + 1) ++ date ++ (line.take (q2 + 1)).drop q1 ++ version ++ line.drop q3

/-- expected result: `none` = must not write; `some page'` = must write exactly page' (for the given date) -/
def expectedManpage (name version date page : List Char) : Option (List Char) :=
  if name != "qrcode".toList then none
  else
    let lines := lineSplit (page.length + 1) page
    match lines.findIdx? wellFormedHeader with
    | none => none
    | some i =>
      let line := lines.getD i []
      if quotedField line 1 == version then none
      else some ((lines.take i).flatten ++ setHeaderFields line date version ++ (lines.drop (i + 1)).flatten)

end QR.Spec
