import QR.Spec.GF
import QR.Spec.Geometry
import QR.Spec.Stream
/-
Spec layer: a strict ISO/IEC 18004 reader for an undamaged symbol, composed only of Spec definitions.
-/
namespace QR.Spec

/-- a square symbol: side and module accessor (row, column) ↦ dark? -/
structure Sym where
  n : Nat
  get : Nat → Nat → Bool

/-- the word whose bit i is the module at the i-th position -/
def wordAt (S : Sym) (ps : List (Nat × Nat)) : Nat :=
  (ps.zipIdx.map fun ((r, c), i) => if S.get r c then 2 ^ i else 0).sum

inductive ReadError
  | badSize | formatMismatch | badFormat | badVersionInfo | badFunction | rawLength | remainderNonZero
  | notCodeword (block : Nat) | badStream
  deriving Repr, DecidableEq

def ReadError.name : ReadError → String
  | .badSize => "bad-size" | .formatMismatch => "format-copies-differ" | .badFormat => "format-not-a-bch-codeword"
  | .badVersionInfo => "version-information-wrong" | .badFunction => "function-pattern-wrong"
  | .rawLength => "raw-length" | .remainderNonZero => "remainder-bits-nonzero"
  | .notCodeword b => s!"block-{b}-not-a-codeword" | .badStream => "data-stream-invalid"

/-- version from the side length -/
def versionOfSize (n : Nat) : Option Nat :=
  if n ≥ 21 ∧ (n - 17) % 4 = 0 ∧ (n - 17) / 4 ≤ 40 then some ((n - 17) / 4) else none

/-- both format copies must be the same valid BCH word; gives (level, mask) -/
def readFormat (S : Sym) : Except ReadError (Level × Nat) :=
  let w1 := wordAt S fmtPos1
  let w2 := wordAt S (fmtPos2 S.n)
  if w1 ≠ w2 then .error .formatMismatch
  else match (List.range 32).find? fun d => formatWord d == w1 with
    | none => .error .badFormat
    | some d => match Level.ofIndicator (d / 8) with
      | none => .error .badFormat
      | some l => .ok (l, d % 8)

/-- for version ≥ 7 both copies of the version information must be the BCH word of the version -/
def versionInfoOK (S : Sym) (v : Nat) : Bool :=
  v < 7 || (wordAt S (verPos1 S.n) == versionWord v && wordAt S (verPos2 S.n) == versionWord v)

/-- all function-pattern modules carry their mandated colour -/
def functionOK (S : Sym) (v : Nat) : Bool :=
  (List.range S.n).all fun r => (List.range S.n).all fun c =>
    match fixedColour v r c with
    | some b => S.get r c == b
    | none => true

/-- unmasked data-region bits in placement order -/
def readRaw (S : Sym) (v mask : Nat) : List Bool :=
  ((zigzag S.n).filter fun (r, c) => !isFunction v r c).map fun (r, c) => xor (S.get r c) (maskCond mask r c)

def bytesOfBitsAux : Nat → List Bool → List Nat
  | 0, _ => []
  | k + 1, bs => bitsVal (bs.take 8) :: bytesOfBitsAux k (bs.drop 8)

/-- cut a bit list into `k` codewords -/
def bytesOfBits (k : Nat) (bs : List Bool) : List Nat := bytesOfBitsAux k bs

def byteBits (b : Nat) : List Bool := (List.range 8).map fun i => b.testBit (7 - i)

/-- inverse of column-wise interleaving for blocks of the given lengths: consume `cw` column by column -/
def deinterleaveAux (lens : List Nat) : Nat → Nat → List Nat → List (List (Option Nat))
  | 0, _, _ => []
  | k + 1, i, cw =>
    let present := lens.map fun len => decide (i < len)
    let cnt := present.count true
    let col := (present.zipIdx.map fun (p, b) =>
      if p then (cw[(present.take b).count true]?) else none)
    col :: deinterleaveAux lens k (i + 1) (cw.drop cnt)

def deinterleave (lens : List Nat) (cw : List Nat) : List (List Nat) :=
  let m := lens.foldl max 0
  let cols := deinterleaveAux lens m 0 cw
  (List.range lens.length).map fun b => cols.filterMap fun col => (col.getD b none)

structure Block where
  data : List Nat
  ec : List Nat
  deriving Repr

/-- split the codeword sequence of a (v, l) symbol into its blocks -/
def blocksOf (v : Nat) (l : Level) (cw : List Nat) : List Block :=
  let bl := isoBlocks v l
  let dlen := bl.map (·.2)
  let elen := bl.map fun b => b.1 - b.2
  let nd := dlen.sum
  let ds := deinterleave dlen (cw.take nd)
  let es := deinterleave elen (cw.drop nd)
  (ds.zip es).map fun (d, e) => { data := d, ec := e }

structure ReadResult where
  version : Nat
  level : Level
  mask : Nat
  dataCodewords : List Nat
  segs : List PSeg
  tailConformant : Bool
  deriving Repr

/-- the strict reader -/
def read (S : Sym) : Except ReadError ReadResult := do
  let v ← match versionOfSize S.n with | some v => pure v | none => throw .badSize
  let (l, mask) ← readFormat S
  if !versionInfoOK S v then throw .badVersionInfo
  if !functionOK S v then throw .badFunction
  let raw := readRaw S v mask
  if raw.length ≠ rawModules v then throw .rawLength
  let total := totalCodewords v
  if (raw.drop (8 * total)).any id then throw .remainderNonZero
  let cw := bytesOfBits total raw
  let blocks := blocksOf v l cw
  match (blocks.zipIdx.find? fun (b, _) => !isCodeword (eccLen v l) (b.data ++ b.ec)) with
  | some (_, i) => throw (.notCodeword i)
  | none => pure ()
  let data := blocks.flatMap (·.data)
  match readStream v (data.flatMap byteBits) with
  | none => throw .badStream
  | some r => pure { version := v, level := l, mask := mask, dataCodewords := data, segs := r.segs,
                     tailConformant := r.tailConformant }

/-- the payload a reader reports: concatenation of the segments' characters -/
def ReadResult.payload (r : ReadResult) : List Nat := r.segs.flatMap (·.data)

end QR.Spec
