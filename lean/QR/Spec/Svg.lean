/-
Spec layer: the geometric clauses of property C13 as predicates on a list of shapes given by centre and extent.
All lengths in pixels as numerators over a denominator (1 pixel = 0.1 mm).
-/
namespace QR.Spec

/-- a drawn shape reduced to what the property talks about: centre and full extent, over denominator `den` -/
structure Blob where
  den : Nat
  cx : Nat
  cy : Nat
  w : Nat
  h : Nat
  deriving Repr, DecidableEq

/-- the shape is centred on the cell of module (r, c): centre = ((c + border) * box + box/2, (r + border) * box + box/2) -/
def Blob.centredOn (b : Blob) (border box r c : Nat) : Bool :=
  2 * b.cx == b.den * (2 * (c + border) * box + box) && 2 * b.cy == b.den * (2 * (r + border) * box + box)

/-- not larger than the cell -/
def Blob.fitsCell (b : Blob) (box : Nat) : Bool := b.w ≤ b.den * box && b.h ≤ b.den * box

/-- dark modules in row-major order -/
def darkCells (M : List (List Bool)) (n : Nat) : List (Nat × Nat) :=
  (List.range n).flatMap fun r => (List.range n).filterMap fun c => if (M.getD r []).getD c false then some (r, c) else none

/-- exactly one shape per dark module (in row-major order), none for light modules, each centred and fitting -/
def shapesOK (M : List (List Bool)) (n border box : Nat) (blobs : List Blob) : Bool :=
  let cells := darkCells M n
  blobs.length == cells.length &&
  (blobs.zip cells).all fun (b, (r, c)) => b.centredOn border box r c && b.fitsCell box

end QR.Spec
