import QR.Spec.Stream
/-
Spec layer: the clauses of property C10 as predicates on (threshold, data, segments) - not an algorithm.
-/
namespace QR.Spec

def isDigitChar (c : Nat) : Bool := 48 ≤ c && c ≤ 57
def isAlnumChar (c : Nat) : Bool := alnumTable.contains c

/-- a mode can represent the data -/
def canRepresent : Mode → List Nat → Bool
  | .numeric, d => d.all isDigitChar
  | .alnum, d => d.all isAlnumChar
  | .byte, _ => true

/-- the most compact mode able to represent non-empty data -/
def mostCompact (d : List Nat) : Mode :=
  if d.all isDigitChar then .numeric else if d.all isAlnumChar then .alnum else .byte

/-- mark the positions that lie in a maximal run of `true` of length at least `n` -/
def markLong (n : Nat) : Nat → List Bool → List Bool
  | 0, _ => []
  | _ + 1, [] => []
  | fuel + 1, false :: t => false :: markLong n fuel t
  | fuel + 1, true :: t =>
    let run := (true :: t).takeWhile id
    List.replicate run.length (decide (run.length ≥ n)) ++ markLong n fuel ((true :: t).drop run.length)

/-- positions inside digit runs of length ≥ n -/
def longDigit (n : Nat) (d : List Nat) : List Bool := markLong n (d.length + 1) (d.map isDigitChar)

/-- positions inside runs of ≥ n alphanumeric characters outside those digit runs -/
def longAlnum (n : Nat) (d : List Nat) : List Bool :=
  markLong n (d.length + 1) ((d.zip (longDigit n d)).map fun (c, ld) => isAlnumChar c && !ld)

/-- the mode carrying each byte position -/
def posModes (segs : List PSeg) : List Mode := segs.flatMap fun s => List.replicate s.data.length s.mode

structure SegVerdict where
  lossless : Bool
  valid : Bool
  thresholdZero : Bool     -- n = 0: one segment, most compact mode
  runsCarried : Bool       -- n > 0: long digit / alphanumeric runs carried in their mode
  minLength : Bool         -- n > 0 and |data| > n: no numeric/alphanumeric segment shorter than n
  deriving Repr

def segmentation (n : Nat) (d : List Nat) (segs : List PSeg) : SegVerdict :=
  let pm := posModes segs
  { lossless := segs.flatMap (·.data) == d
    valid := segs.all fun s => canRepresent s.mode s.data
    thresholdZero := n != 0 || (match segs with
      | [s] => d.isEmpty || s.mode == mostCompact d
      | _ => false)
    runsCarried := n == 0 ||
      ((longDigit n d).zip pm).all (fun (ld, m) => !ld || m == .numeric) &&
      ((longAlnum n d).zip pm).all (fun (la, m) => !la || m == .alnum)
    minLength := n == 0 || d.length ≤ n || segs.all fun s => s.mode == .byte || s.data.length ≥ n }

def SegVerdict.ok (v : SegVerdict) : Bool := v.lossless && v.valid && v.thresholdZero && v.runsCarried && v.minLength

end QR.Spec
