/-
Spec layer: ISO/IEC 18004 Table 9 in compact form (EC codewords per block, number of blocks, closed-form module
count), Annex E alignment centres in closed form, character-count widths.  Independent of QR.Gen / QR.Model.
-/
namespace QR.Spec

inductive Level | L | M | Q | H
  deriving DecidableEq, Repr, Inhabited

/-- two-bit error-correction level indicator of the format information (ISO Table 12): L=01 M=00 Q=11 H=10 -/
def Level.indicator : Level → Nat
  | .L => 1 | .M => 0 | .Q => 3 | .H => 2

def Level.ofIndicator : Nat → Option Level
  | 0 => some .M | 1 => some .L | 2 => some .H | 3 => some .Q | _ => none

def Level.index : Level → Nat
  | .L => 0 | .M => 1 | .Q => 2 | .H => 3

/-- EC codewords per block, rows L M Q H, columns version 1..40 (ISO Table 9) -/
def eccPerBlock : List (List Nat) := [
 [7,10,15,20,26,18,20,24,30,18,20,24,26,30,22,24,28,30,28,28,28,28,30,30,26,28,30,30,30,30,30,30,30,30,30,30,30,30,30,30],
 [10,16,26,18,24,16,18,22,22,26,30,22,22,24,24,28,28,26,26,26,26,28,28,28,28,28,28,28,28,28,28,28,28,28,28,28,28,28,28,28],
 [13,22,18,26,18,24,18,22,20,24,28,26,24,20,30,24,28,28,26,30,28,30,30,30,30,28,30,30,30,30,30,30,30,30,30,30,30,30,30,30],
 [17,28,22,16,22,28,26,26,24,28,24,28,22,24,24,30,28,28,26,28,30,24,30,30,30,30,30,30,30,30,30,30,30,30,30,30,30,30,30,30]]

/-- number of error-correction blocks, rows L M Q H, columns version 1..40 (ISO Table 9) -/
def numBlocks : List (List Nat) := [
 [1,1,1,1,1,2,2,2,2,4,4,4,4,4,6,6,6,6,7,8,8,9,9,10,12,12,12,13,14,15,16,17,18,19,19,20,21,22,24,25],
 [1,1,1,2,2,4,4,4,5,5,5,8,9,9,10,10,11,13,14,16,17,17,18,20,21,23,25,26,28,29,31,33,35,37,38,40,43,45,47,49],
 [1,1,2,2,4,4,6,6,8,8,8,10,12,16,12,17,16,18,21,20,23,23,25,27,29,34,34,35,38,40,43,45,48,51,53,56,59,62,65,68],
 [1,1,2,4,4,4,5,6,8,8,11,11,16,16,18,16,19,21,25,25,25,34,30,32,35,37,40,42,45,48,51,54,57,60,63,66,70,74,77,81]]

/-- number of alignment-pattern coordinates of version v -/
def numAlign (v : Nat) : Nat := if v = 1 then 0 else v / 7 + 2

/-- modules available for data, error correction and remainder bits (all modules minus function patterns,
    format and version information) -/
def rawModules (v : Nat) : Nat :=
  let r := (16 * v + 128) * v + 64
  if v ≥ 2 then
    let na := v / 7 + 2
    let r := r - ((25 * na - 10) * na - 55)
    if v ≥ 7 then r - 36 else r
  else r

def totalCodewords (v : Nat) : Nat := rawModules v / 8
def remainderBits (v : Nat) : Nat := rawModules v % 8

def eccLen (v : Nat) (l : Level) : Nat := (eccPerBlock.getD l.index []).getD (v - 1) 0
def blockCount (v : Nat) (l : Level) : Nat := (numBlocks.getD l.index []).getD (v - 1) 0

/-- the blocks of a (version, level) symbol as (total codewords, data codewords), short blocks first -/
def isoBlocks (v : Nat) (l : Level) : List (Nat × Nat) :=
  let raw := totalCodewords v
  let nb := blockCount v l
  let ecc := eccLen v l
  let short := raw / nb
  let nlong := raw % nb
  List.replicate (nb - nlong) (short, short - ecc) ++ List.replicate nlong (short + 1, short + 1 - ecc)

def dataCodewords (v : Nat) (l : Level) : Nat := totalCodewords v - eccLen v l * blockCount v l
def capacityBits (v : Nat) (l : Level) : Nat := 8 * dataCodewords v l

/-- Annex E: row/column coordinates of alignment pattern centres -/
def alignmentCentres (v : Nat) : List Nat :=
  if v = 1 then [] else
    let na := v / 7 + 2
    let step := if v = 32 then 26 else (v * 4 + na * 2 + 1) / (na * 2 - 2) * 2
    let last := 4 * v + 10
    6 :: ((List.range (na - 1)).map fun i => last - step * (na - 2 - i))

/-- version class 0: 1-9, 1: 10-26, 2: 27-40 -/
def versionClass (v : Nat) : Nat := if v ≤ 9 then 0 else if v ≤ 26 then 1 else 2

inductive Mode | numeric | alnum | byte
  deriving DecidableEq, Repr, Inhabited

/-- 4-bit mode indicator -/
def Mode.indicator : Mode → Nat
  | .numeric => 1 | .alnum => 2 | .byte => 4

def Mode.ofIndicator : Nat → Option Mode
  | 1 => some .numeric | 2 => some .alnum | 4 => some .byte | _ => none

/-- character count indicator width (ISO Table 3) -/
def countWidth (v : Nat) : Mode → Nat
  | .numeric => match versionClass v with | 0 => 10 | 1 => 12 | _ => 14
  | .alnum => match versionClass v with | 0 => 9 | 1 => 11 | _ => 13
  | .byte => match versionClass v with | 0 => 8 | _ => 16

end QR.Spec
