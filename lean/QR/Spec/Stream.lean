import QR.Spec.Tables
/-
Spec layer: the ISO/IEC 18004 data bit stream as a *parser* and recogniser (independent of how the encoder
builds it), plus closed-form stream lengths and capacities.
-/
namespace QR.Spec

/-- value of a big-endian bit list -/
def bitsVal (bs : List Bool) : Nat := bs.foldl (fun acc b => 2 * acc + (if b then 1 else 0)) 0

/-- the 45 characters of the alphanumeric mode (ISO Table 5) as ASCII codes, indexed by value -/
def alnumTable : List Nat :=
  [48,49,50,51,52,53,54,55,56,57, 65,66,67,68,69,70,71,72,73,74,75,76,77,78,79,80,81,82,83,84,85,86,87,88,89,90,
   32,36,37,42,43,45,46,47,58]

structure PSeg where
  mode : Mode
  data : List Nat     -- the characters as bytes (ASCII digits / alphanumeric characters / raw bytes)
  deriving DecidableEq, Repr, Inhabited

/-- `k` decimal digits of `x`, most significant first, as ASCII -/
def digitsOf (x : Nat) : Nat → List Nat
  | 0 => []
  | k + 1 => digitsOf (x / 10) k ++ [48 + x % 10]

/-- decode `count` numeric characters: groups of 3 digits in 10 bits, a final group of 2 in 7 bits, of 1 in 4 bits;
    a group value that does not fit its number of digits is invalid -/
def parseNumeric : Nat → List Bool → Option (List Nat × List Bool)
  | 0, bs => some ([], bs)
  | 1, bs => if (bs.take 4).length < 4 then none else
      let x := bitsVal (bs.take 4)
      if x > 9 then none else some (digitsOf x 1, bs.drop 4)
  | 2, bs => if (bs.take 7).length < 7 then none else
      let x := bitsVal (bs.take 7)
      if x > 99 then none else some (digitsOf x 2, bs.drop 7)
  | count + 3, bs => if (bs.take 10).length < 10 then none else
      let x := bitsVal (bs.take 10)
      if x > 999 then none else
        match parseNumeric count (bs.drop 10) with
        | none => none
        | some (ds, rest) => some (digitsOf x 3 ++ ds, rest)

/-- decode `count` alphanumeric characters: pairs in 11 bits (45·a + b), a final single character in 6 bits -/
def parseAlnum : Nat → List Bool → Option (List Nat × List Bool)
  | 0, bs => some ([], bs)
  | 1, bs => if (bs.take 6).length < 6 then none else
      let x := bitsVal (bs.take 6)
      if x ≥ 45 then none else some ([alnumTable.getD x 0], bs.drop 6)
  | count + 2, bs => if (bs.take 11).length < 11 then none else
      let x := bitsVal (bs.take 11)
      if x ≥ 45 * 45 then none else
        match parseAlnum count (bs.drop 11) with
        | none => none
        | some (cs, rest) => some (alnumTable.getD (x / 45) 0 :: alnumTable.getD (x % 45) 0 :: cs, rest)

def parseBytes : Nat → List Bool → Option (List Nat × List Bool)
  | 0, bs => some ([], bs)
  | count + 1, bs => if (bs.take 8).length < 8 then none else
      match parseBytes count (bs.drop 8) with
      | none => none
      | some (cs, rest) => some (bitsVal (bs.take 8) :: cs, rest)

/-- parse segments until the terminator (mode 0000) or until fewer than 4 bits remain; returns the segments
    and the unparsed rest (which starts at the terminator); `none` = not a valid stream -/
def parseSegs (v : Nat) : Nat → List Bool → Option (List PSeg × List Bool)
  | 0, _ => none
  | fuel + 1, bs =>
    if (bs.take 4).length < 4 then some ([], bs)
    else
      let m := bitsVal (bs.take 4)
      if m = 0 then some ([], bs)
      else match Mode.ofIndicator m with
        | none => none
        | some mode =>
          let w := countWidth v mode
          let bs := bs.drop 4
          if (bs.take w).length < w then none else
            let count := bitsVal (bs.take w)
            let body := match mode with
              | .numeric => parseNumeric count (bs.drop w)
              | .alnum => parseAlnum count (bs.drop w)
              | .byte => parseBytes count (bs.drop w)
            match body with
            | none => none
            | some (cs, rest) =>
              match parseSegs v fuel rest with
              | none => none
              | some (segs, rest') => some ({ mode := mode, data := cs } :: segs, rest')

/-- pad codewords alternate 11101100 / 00010001, starting with 11101100 -/
def padsOKAux : Nat → Nat → List Bool → Bool
  | 0, _, bs => bs.isEmpty
  | k + 1, i, bs =>
    (bs.take 8).length == 8 && bitsVal (bs.take 8) == (if i % 2 == 0 then 0xEC else 0x11) && padsOKAux k (i + 1) (bs.drop 8)

def padsOK (bs : List Bool) : Bool := padsOKAux ((bs.length + 7) / 8) 0 bs

/-- after the last segment (`used` bits consumed, `rest` left up to the data capacity): a terminator of
    min(4, |rest|) zero bits, zero bits to the next codeword boundary, then alternating pad codewords -/
def tailOK (used : Nat) (rest : List Bool) : Bool :=
  let t := min 4 rest.length
  let z := (8 - (used + t) % 8) % 8
  (rest.take (t + z)).all (· == false) && (t + z ≤ rest.length) && padsOK (rest.drop (t + z))

/-- result of reading a data-codeword bit stream -/
structure StreamResult where
  segs : List PSeg
  tailConformant : Bool
  deriving Repr

/-- parse the complete data bit stream of a version-`v` symbol -/
def readStream (v : Nat) (bits : List Bool) : Option StreamResult :=
  match parseSegs v (bits.length + 1) bits with
  | none => none
  | some (segs, rest) => some { segs := segs, tailConformant := tailOK (bits.length - rest.length) rest }

/-! ### closed-form lengths and capacities -/

/-- number of data bits of a segment body with `n` characters -/
def bodyBits : Mode → Nat → Nat
  | .numeric, n => 10 * (n / 3) + (match n % 3 with | 0 => 0 | 1 => 4 | _ => 7)
  | .alnum, n => 11 * (n / 2) + 6 * (n % 2)
  | .byte, n => 8 * n

/-- total stream length of segments given as (mode, character count) at version `v` -/
def streamBits (v : Nat) (segs : List (Mode × Nat)) : Nat :=
  (segs.map fun (m, n) => 4 + countWidth v m + bodyBits m n).sum

/-- the stream fits version `v` at level `l` -/
def fits (v : Nat) (l : Level) (segs : List (Mode × Nat)) : Bool := streamBits v segs ≤ capacityBits v l

/-- smallest version in `start..40` that holds the stream (with that version's count widths) -/
def minVersion (start : Nat) (l : Level) (segs : List (Mode × Nat)) : Option Nat :=
  ((List.range 41).filter fun v => v ≥ max start 1).find? fun v => fits v l segs

/-- ISO capacity: the largest number of characters of one segment of mode `m` that fits (v, l) -/
def isoCapacity (m : Mode) (v : Nat) (l : Level) : Nat :=
  let cap := capacityBits v l
  let avail := cap - (4 + countWidth v m)
  match m with
  | .numeric => 3 * (avail / 10) + (if avail % 10 ≥ 7 then 2 else if avail % 10 ≥ 4 then 1 else 0)
  | .alnum => 2 * (avail / 11) + (if avail % 11 ≥ 6 then 1 else 0)
  | .byte => avail / 8

end QR.Spec
