import QR.Model.Matrix
/-
Model of concurrent use of independent QRCode objects: the only process-wide mutable state is the blank cache
`precomputed_qr_blanks` (the SVG namespace registry is written once at import after the D7 repair, so it is a constant).
Atomic steps are single accesses to the shared dict (membership test, read, store) under CPython's GIL; everything
between two accesses is thread-local.  A thread's program is the list of versions of its successive makeImpl calls.
-/
namespace QR.Model

structure Shared where
  blanks : Nat → Option Mat

inductive Phase | probe | load | store
  deriving DecidableEq, Repr

/-- a thread: remaining makeImpl calls (by version), where it is inside the current one, and what it has observed:
    the blank each finished makeImpl started from -/
structure Thr where
  todo : List Nat
  phase : Phase
  log : List (Nat × Option Mat)

/-- one atomic access of one thread; `blankOf v` is the blank the thread builds locally on a cache miss -/
def stepThr (blankOf : Nat → Mat) (sh : Shared) (t : Thr) : Shared × Thr :=
  match t.todo with
  | [] => (sh, t)
  | v :: rest =>
    match t.phase with
    | .probe => if (sh.blanks v).isSome then (sh, { t with phase := .load }) else (sh, { t with phase := .store })
    | .load => (sh, { todo := rest, phase := .probe, log := t.log ++ [(v, sh.blanks v)] })
    | .store =>
      ({ blanks := fun w => if w = v then some (blankOf v) else sh.blanks w },
       { todo := rest, phase := .probe, log := t.log ++ [(v, some (blankOf v))] })

/-- run a schedule: each entry names the thread that performs its next access (entries naming no thread are skipped) -/
def runSchedule (blankOf : Nat → Mat) : Shared → List Thr → List Nat → Shared × List Thr
  | sh, ts, [] => (sh, ts)
  | sh, ts, i :: sched =>
    match ts[i]? with
    | none => runSchedule blankOf sh ts sched
    | some t =>
      let (sh', t') := stepThr blankOf sh t
      runSchedule blankOf sh' (ts.set i t') sched

end QR.Model
