/-
Model of qrcode/release.py update_manpage on the page text (a list of characters).
`re.split('"([^"]*)"', line)` is modelled by a scanner for quote pairs; the date string is a parameter.
-/
namespace QR.Model

/-- `str.readlines()` / `f.readlines()`: split after every newline, keeping it -/
def readLines : Nat → List Char → List (List Char)
  | 0, _ => []
  | _ + 1, [] => []
  | fuel + 1, s =>
    let pre := s.takeWhile (· ≠ '\n')
    match s.dropWhile (· ≠ '\n') with
    | [] => [pre]
    | nl :: rest => (pre ++ [nl]) :: readLines fuel rest

/-- `re.split(r'"([^"]*)"', line)`: [text0, quoted1, text1, quoted2, text2, ...] -/
def reSplit : Nat → List Char → List (List Char)
  | 0, s => [s]
  | fuel + 1, s =>
    let pre := s.takeWhile (· ≠ '"')
    match s.dropWhile (· ≠ '"') with
    | [] => [pre]
    | _ :: r1 =>
      let q := r1.takeWhile (· ≠ '"')
      match r1.dropWhile (· ≠ '"') with
      | [] => [s]                       -- no closing quote: no further match
      | _ :: r2 => pre :: q :: reSplit fuel r2

/-- `'"'.join(parts)` -/
def joinQuote : List (List Char) → List Char
  | [] => []
  | [p] => p
  | p :: rest => p ++ '"' :: joinQuote rest

def startsWithTH (line : List Char) : Bool := line.take 4 == ['.', 'T', 'H', ' ']

/-- the loop over the lines: returns (changed, new lines) -/
def processLines (newVersion date : List Char) : List (List Char) → Bool × List (List Char)
  | [] => (false, [])
  | line :: rest =>
    if !startsWithTH line then
      let (ch, rest') := processLines newVersion date rest
      (ch, line :: rest')
    else
      let parts := reSplit (line.length + 1) line
      if parts.length < 5 then
        let (ch, rest') := processLines newVersion date rest
        (ch, line :: rest')
      else
        let changed := parts.getD 3 [] != newVersion
        if changed then
          let parts := (parts.set 3 newVersion).set 1 date
          (true, joinQuote parts :: rest)          -- `break`
        else (false, line :: rest)                 -- `break`

/-- `update_manpage(data)`: `none` = nothing is written; `some text` = the text written to doc/qr.1 -/
def updateManpage (name newVersion date page : List Char) : Option (List Char) :=
  if name != "qrcode".toList then none
  else
    let lines := readLines (page.length + 1) page
    let (changed, lines') := processLines newVersion date lines
    if changed then some lines'.flatten else none

end QR.Model
