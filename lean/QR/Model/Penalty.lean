import QR.Model.Basic
/-
Model of util.lost_point and its four scanners, on `List (List Bool)`; mirrors the iterator tricks.
-/
namespace QR.Model

abbrev BMat := List (List Bool)

/-- column `c` of every row -/
def columns (M : BMat) (n : Nat) : BMat :=
  (List.range n).map fun c => M.map fun row => row.getD c false

/-! ### rule 1 -/

/-- the inner loop of `_lost_point_level1` on one line: lengths of the runs it records (`>= 5`),
    including the flush after the loop -/
def runScan : Bool → Nat → List Bool → List Nat
  | _, len, [] => if len ≥ 5 then [len] else []
  | prev, len, x :: xs =>
    if x = prev then runScan prev (len + 1) xs
    else (if len ≥ 5 then [len] else []) ++ runScan x 1 xs

def lineRuns : List Bool → List Nat
  | [] => []
  | x :: xs => runScan x 0 (x :: xs)

/-- `_lost_point_level1`: the `container` histogram weighted by `length - 2` for lengths `5..n` -/
def level1 (M : BMat) (n : Nat) : Nat :=
  let runs := (M ++ columns M n).flatMap lineRuns
  ((List.range (n + 1 - 5)).map fun k => runs.count (k + 5) * (k + 5 - 2)).sum

/-! ### rule 2 -/

/-- one row pair of `_lost_point_level2`; `skip` is the pending `next(iter)` -/
def l2scan : Bool → List Bool → List Bool → Nat
  | skip, a :: b :: ta, c :: d :: tc =>
    if skip then l2scan false (b :: ta) (d :: tc)
    else if b ≠ d then l2scan true (b :: ta) (d :: tc)
    else if b ≠ a then l2scan false (b :: ta) (d :: tc)
    else if b ≠ c then l2scan false (b :: ta) (d :: tc)
    else 3 + l2scan false (b :: ta) (d :: tc)
  | _, _, _ => 0

def level2 : BMat → Nat
  | r1 :: r2 :: rest => l2scan false r1 r2 + level2 (r2 :: rest)
  | _ => 0

/-! ### rule 3 -/

def cond3 (a0 a1 a2 a3 a4 a5 a6 a7 a8 a9 a10 : Bool) : Bool :=
  !a1 && a4 && !a5 && a6 && !a9 &&
    ((a0 && a2 && a3 && !a7 && !a8 && !a10) || (!a0 && !a2 && !a3 && a7 && a8 && a10))

/-- one line of `_lost_point_level3`, with the Horspool skip (`next(iter)` when position +10 is dark) -/
def l3scan : List Bool → Nat
  | a0::a1::a2::a3::a4::a5::a6::a7::a8::a9::a10::t =>
    (if cond3 a0 a1 a2 a3 a4 a5 a6 a7 a8 a9 a10 then 40 else 0) +
      (if a10 then l3scan (a2::a3::a4::a5::a6::a7::a8::a9::a10::t)
       else l3scan (a1::a2::a3::a4::a5::a6::a7::a8::a9::a10::t))
  | _ => 0
termination_by l => l.length

def level3 (M : BMat) (n : Nat) : Nat :=
  ((M ++ columns M n).map l3scan).sum

/-! ### rule 4 -/

def darkCount (M : BMat) : Nat := (M.map fun row => row.count true).sum

/-- integer form of `int(abs(float(dark)/n**2*100 - 50)/5) * 10` (tied to the float formula exhaustively
    over all QR sizes by the correspondence check) -/
def level4 (M : BMat) (n : Nat) : Nat :=
  let d := darkCount M
  let x := if 20 * d ≥ 10 * (n * n) then 20 * d - 10 * (n * n) else 10 * (n * n) - 20 * d
  (x / (n * n)) * 10

/-- `util.lost_point(modules)` -/
def lostPoint (M : BMat) : Nat :=
  let n := M.length
  level1 M n + level2 M + level3 M n + level4 M n

end QR.Model
