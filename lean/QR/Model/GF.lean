import QR.Gen.Tables
import QR.Model.Basic
/-
Model of qrcode/base.py: gexp, glog, Polynomial.__init__/__mul__/__mod__.
Tables come from QR.Gen (regenerated from the source on every run).
-/
namespace QR.Model
open QR

/-- `base.gexp(n)` for any Python int `n` (Python's `%` is non-negative for a positive modulus). -/
def gexp (n : Int) : R Nat := idx Gen.EXP_TABLE (n % 255).toNat

/-- `base.glog(n)`: `ValueError` below 1. -/
def glog (n : Nat) : R Nat :=
  if n < 1 then .error .valueError else idx Gen.LOG_TABLE n

/-- leading-zero stripping of `Polynomial.__init__`: the loop stops at the first non-zero entry or at the
    last index, so an all-zero list keeps exactly its last element. -/
def stripZ : List Nat → List Nat
  | [] => []
  | [a] => [a]
  | a :: b :: t => if a ≠ 0 then a :: b :: t else stripZ (b :: t)

/-- `Polynomial(num, shift).num` -/
def polyMk (num : List Nat) (shift : Nat) : R (List Nat) :=
  if num.isEmpty then .error .other else .ok (stripZ num ++ List.replicate shift 0)

/-- the list comprehension of `__mod__`: `item ^ gexp(glog(other_item) + ratio)` over `zip(self, other)` -/
def modStep (ratio : Int) : List Nat → List Nat → R (List Nat)
  | x :: xs, y :: ys => do
      let ly ← glog y
      let e ← gexp (ly + ratio)
      let rest ← modStep ratio xs ys
      pure ((x ^^^ e) :: rest)
  | _, _ => pure []

/-- `Polynomial.__mod__` on the coefficient lists (`self`, `other` are `.num` of constructed polynomials).
    Recursion depth is bounded by `fuel`; running out of fuel models Python's RecursionError. -/
def polyMod : Nat → List Nat → List Nat → R (List Nat)
  | 0, _, _ => .error .other
  | fuel + 1, self, other =>
    if self.length < other.length then .ok self
    else do
      let s0 ← idx self 0
      if s0 = 0 then .ok self          -- (fix D1) a leading zero means the zero polynomial
      else do
        let ls ← glog s0
        let o0 ← idx other 0
        let lo ← glog o0
        let ratio : Int := (ls : Int) - (lo : Int)
        let num ← modStep ratio self other
        let num := num ++ self.drop other.length      -- `self[-difference:]` when difference > 0
        let p ← polyMk num 0
        polyMod fuel p other

/-- one row of `__mul__`'s double loop -/
def mulAcc (a : Nat) (other : List Nat) (i : Nat) (num : List Nat) : R (List Nat) :=
  (List.range other.length).foldlM (fun num j => do
      let la ← glog a
      let lb ← glog (other.getD j 0)
      let e ← gexp ((la : Int) + (lb : Int))
      pure (num.set (i + j) ((num.getD (i + j) 0) ^^^ e))) num

/-- `Polynomial.__mul__` -/
def polyMul (self other : List Nat) : R (List Nat) := do
  let num0 := List.replicate (self.length + other.length - 1) 0
  let num ← (List.range self.length).foldlM (fun num i => mulAcc (self.getD i 0) other i num) num0
  polyMk num 0

end QR.Model
