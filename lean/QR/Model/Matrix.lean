import QR.Model.Data
/-
Model of the matrix-building half of qrcode/main.py: function patterns, format/version information,
mask functions and map_data.  `none` cells are Python's `None`.
-/
namespace QR.Model
open QR

abbrev Mat := Array (Array (Option Bool))

def Mat.get (m : Mat) (r c : Nat) : Option Bool := (m.getD r #[]).getD c none
def Mat.set (m : Mat) (r c : Nat) (x : Option Bool) : Mat :=
  m.modify r fun row => row.setIfInBounds c x
def Mat.empty (n : Nat) : Mat := Array.replicate n (Array.replicate n none)

/-- write at signed coordinates; rows/columns outside `0..n-1` are the `continue` of the probe pattern -/
def Mat.setI (m : Mat) (n : Nat) (r c : Int) (x : Bool) : Mat :=
  if r ≤ -1 ∨ (n : Int) ≤ r ∨ c ≤ -1 ∨ (n : Int) ≤ c then m else m.set r.toNat c.toNat (some x)

/-- `setup_position_probe_pattern(row, col)` -/
def setupProbe (n : Nat) (m : Mat) (row col : Nat) : Mat :=
  (List.range 9).foldl (fun m (r' : Nat) =>
    (List.range 9).foldl (fun m (c' : Nat) =>
      let r : Int := Int.ofNat r' - 1
      let c : Int := Int.ofNat c' - 1
      let dark := (0 ≤ r ∧ r ≤ 6 ∧ (c = 0 ∨ c = 6)) ∨ (0 ≤ c ∧ c ≤ 6 ∧ (r = 0 ∨ r = 6)) ∨ (2 ≤ r ∧ r ≤ 4 ∧ 2 ≤ c ∧ c ≤ 4)
      m.setI n ((row : Int) + r) ((col : Int) + c) (decide dark)) m) m

/-- `util.pattern_position(version)` -/
def patternPosition (version : Nat) : R (List Nat) := idx Gen.PATTERN_POSITION_TABLE (version - 1)

/-- the 5x5 alignment pattern centred at (row, col) -/
def drawAlign (m : Mat) (row col : Nat) : Mat :=
  (List.range 5).foldl (fun m r' =>
    (List.range 5).foldl (fun m c' =>
      let dark := r' = 0 ∨ r' = 4 ∨ c' = 0 ∨ c' = 4 ∨ (r' = 2 ∧ c' = 2)
      m.set (row + r' - 2) (col + c' - 2) (some (decide dark))) m) m

/-- `setup_position_adjust_pattern()` -/
def setupAdjust (m : Mat) (pos : List Nat) : Mat :=
  pos.foldl (fun m row => pos.foldl (fun m col =>
    if (m.get row col).isSome then m else drawAlign m row col) m) m

/-- `setup_timing_pattern()` -/
def setupTiming (n : Nat) (m : Mat) : Mat :=
  let m := (List.range (n - 16)).foldl (fun m k =>
    let r := k + 8
    if (m.get r 6).isSome then m else m.set r 6 (some (r % 2 = 0))) m
  (List.range (n - 16)).foldl (fun m k =>
    let c := k + 8
    if (m.get 6 c).isSome then m else m.set 6 c (some (c % 2 = 0))) m

/-- the matrix `makeImpl` stores in `precomputed_qr_blanks[version]` -/
def blank (version : Nat) : R Mat := do
  let n := version * 4 + 17
  let m := Mat.empty n
  let m := setupProbe n m 0 0
  let m := setupProbe n m (n - 7) 0
  let m := setupProbe n m 0 (n - 7)
  let pos ← patternPosition version
  let m := setupAdjust m pos
  pure (setupTiming n m)

/-! ### BCH codes -/

/-- `util.BCH_digit` -/
def bchDigit (d : Nat) : Nat := if d = 0 then 0 else Nat.log2 d + 1

/-- the `while` loop shared by `BCH_type_info` / `BCH_type_number` -/
def bchRem (g : Nat) : Nat → Nat → Nat
  | 0, d => d
  | fuel + 1, d =>
    if bchDigit d ≥ bchDigit g then bchRem g fuel (d ^^^ (g <<< (bchDigit d - bchDigit g))) else d

/-- `util.BCH_type_info(data)` -/
def bchTypeInfo (data : Nat) : Nat :=
  ((data <<< 10) ||| bchRem Gen.G15 (bchDigit (data <<< 10) + 1) (data <<< 10)) ^^^ Gen.G15_MASK

/-- `util.BCH_type_number(data)` -/
def bchTypeNumber (data : Nat) : Nat :=
  (data <<< 12) ||| bchRem Gen.G18 (bchDigit (data <<< 12) + 1) (data <<< 12)

/-- `setup_type_info(test, mask_pattern)` -/
def setupTypeInfo (n level : Nat) (m : Mat) (test : Bool) (mask : Nat) : Mat :=
  let bits := bchTypeInfo ((level <<< 3) ||| mask)
  let m := (List.range 15).foldl (fun m i =>
    let mod := !test && bits.testBit i
    if i < 6 then m.set i 8 (some mod)
    else if i < 8 then m.set (i + 1) 8 (some mod)
    else m.set (n - 15 + i) 8 (some mod)) m
  let m := (List.range 15).foldl (fun m i =>
    let mod := !test && bits.testBit i
    if i < 8 then m.set 8 (n - i - 1) (some mod)
    else if i < 9 then m.set 8 (15 - i - 1 + 1) (some mod)
    else m.set 8 (15 - i - 1) (some mod)) m
  m.set (n - 8) 8 (some (!test))

/-- `setup_type_number(test)` -/
def setupTypeNumber (n version : Nat) (m : Mat) (test : Bool) : Mat :=
  let bits := bchTypeNumber version
  let m := (List.range 18).foldl (fun m i =>
    m.set (i / 3) (i % 3 + n - 8 - 3) (some (!test && bits.testBit i))) m
  (List.range 18).foldl (fun m i =>
    m.set (i % 3 + n - 8 - 3) (i / 3) (some (!test && bits.testBit i))) m

/-! ### masks and data placement -/

/-- `util.mask_func(pattern)(i, j)`; `math.floor(i / 2)` on floats is exact for the coordinates in use -/
def maskFunc (pattern i j : Nat) : Bool :=
  match pattern with
  | 0 => (i + j) % 2 = 0
  | 1 => i % 2 = 0
  | 2 => j % 3 = 0
  | 3 => (i + j) % 3 = 0
  | 4 => (i / 2 + j / 3) % 2 = 0
  | 5 => (i * j) % 2 + (i * j) % 3 = 0
  | 6 => ((i * j) % 2 + (i * j) % 3) % 2 = 0
  | 7 => ((i * j) % 3 + (i + j) % 2) % 2 = 0
  | _ => false

/-- right-hand column of the k-th column pair visited by `map_data` (`range(n-1, 0, -2)` with the
    `if col <= 6: col -= 1` adjustment) -/
def pairCol (n k : Nat) : Nat :=
  let col := n - 1 - 2 * k
  if col ≤ 6 then col - 1 else col

/-- the cells `map_data` visits, in order: pair k is walked upwards when k is even, downwards when odd -/
def trav (n : Nat) : List (Nat × Nat) :=
  (List.range (n / 2)).flatMap fun k =>
    let col := pairCol n k
    let rows := if k % 2 = 0 then (List.range n).reverse else List.range n
    rows.flatMap fun r => [(r, col), (r, col - 1)]

/-- the bit stream `map_data` consumes: MSB first per codeword -/
def codewordBits (data : List Nat) : List Bool := data.flatMap fun b => bitsBE b 8

/-- one visited cell: written only if still `None`; consumes one bit (zero once the data is exhausted) -/
def placeCell (mask : Nat) (st : Mat × List Bool) (p : Nat × Nat) : Mat × List Bool :=
  let (m, bits) := st
  match m.get p.1 p.2 with
  | some _ => (m, bits)
  | none => (m.set p.1 p.2 (some (xor (bits.headD false) (maskFunc mask p.1 p.2))), bits.tail)

/-- `map_data(data, mask_pattern)` -/
def mapData (n : Nat) (m : Mat) (data : List Nat) (mask : Nat) : Mat :=
  ((trav n).foldl (placeCell mask) (m, codewordBits data)).1

/-- `makeImpl(test, mask_pattern)` given the encoded codewords (`data_cache`) -/
def makeImpl (version level : Nat) (test : Bool) (mask : Nat) (data : List Nat) : R Mat := do
  let n := version * 4 + 17
  let m ← blank version
  let m := setupTypeInfo n level m test mask
  let m := if version ≥ 7 then setupTypeNumber n version m test else m
  if mask > 7 then .error .typeError          -- `mask_func` raises for an unknown pattern
  else pure (mapData n m data mask)

end QR.Model
