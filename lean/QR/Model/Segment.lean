import QR.Model.Data
/-
Model of the segmentation half of qrcode/util.py: optimal_mode, QRData.__init__, optimal_data_chunks,
_optimal_split (the four regular expressions as run scanners) and of QRCode.add_data.
`re` semantics assumed: `\d` on bytes = ASCII digits; `[...]{n,}` leftmost-longest = first maximal run of length >= n;
`^X+$` under re.search = whole string is X+ optionally followed by one final "\n" (the match ends before it).
-/
namespace QR.Model
open QR

def isDigit (c : Nat) : Bool := 48 ≤ c && c ≤ 57
def isAlnum (c : Nat) : Bool := Gen.ALPHA_NUM.contains c

/-- `util.optimal_mode(data)` -/
def optimalMode (data : Bytes) : Nat :=
  if !data.isEmpty && data.all isDigit then Gen.MODE_NUMBER       -- bytes.isdigit(): non-empty, ASCII digits
  else if data.all isAlnum then Gen.MODE_ALPHA_NUM                 -- ^[...]*\Z (the empty string matches)
  else Gen.MODE_8BIT_BYTE

/-- `QRData(data, mode, check_data)` on a byte string -/
def mkQRData (data : Bytes) (mode : Option Nat) (checkData : Bool) : R Seg :=
  match mode with
  | none => .ok { mode := optimalMode data, data := data }
  | some m =>
    if ¬ (m = Gen.MODE_NUMBER ∨ m = Gen.MODE_ALPHA_NUM ∨ m = Gen.MODE_8BIT_BYTE) then .error .typeError
    else if checkData ∧ m < optimalMode data then .error .valueError
    else .ok { mode := m, data := data }

/-- leftmost match of `[class]{n,}`: (text before, the maximal run, text after) -/
def findRun (p : Nat → Bool) (n : Nat) : Nat → List Nat → Option (List Nat × List Nat × List Nat)
  | 0, _ => none
  | fuel + 1, data =>
    let pre := data.takeWhile (fun c => !p c)
    let rest := data.dropWhile (fun c => !p c)
    if rest.isEmpty then none
    else
      let run := rest.takeWhile p
      let after := rest.dropWhile p
      if run.length ≥ n then some (pre, run, after)
      else match findRun p n fuel after with
        | none => none
        | some (b, r, a) => some (pre ++ run ++ b, r, a)

/-- `_optimal_split(data, compile(class{n,}))` -/
def splitRuns (p : Nat → Bool) (n : Nat) : Nat → List Nat → List (Bool × List Nat)
  | 0, data => if data.isEmpty then [] else [(false, data)]
  | fuel + 1, data =>
    if data.isEmpty then []
    else match findRun p n (data.length + 1) data with
      | none => [(false, data)]
      | some (pre, run, after) =>
        (if pre.isEmpty then [] else [(false, pre)]) ++ (true, run) :: splitRuns p n fuel after

/-- `_optimal_split(data, compile(^class+$))` -/
def splitAnchored (p : Nat → Bool) (data : List Nat) : List (Bool × List Nat) :=
  let run := data.takeWhile p
  let rest := data.dropWhile p
  if !run.isEmpty && (rest.isEmpty || rest == [10]) then
    (true, run) :: (if rest.isEmpty then [] else [(false, rest)])
  else if data.isEmpty then [] else [(false, data)]

/-- `util.optimal_data_chunks(data, minimum)` for `minimum ≥ 1` -/
def optimalDataChunks (data : Bytes) (minimum : Nat) : List Seg :=
  let anchored := data.length ≤ minimum
  let split (p : Nat → Bool) (d : List Nat) : List (Bool × List Nat) :=
    if anchored then splitAnchored p d else splitRuns p minimum d.length d
  (split isDigit data).flatMap fun (isNum, chunk) =>
    if isNum then [{ mode := Gen.MODE_NUMBER, data := chunk }]
    else (split isAlnum chunk).map fun (isAlpha, sub) =>
      { mode := if isAlpha then Gen.MODE_ALPHA_NUM else Gen.MODE_8BIT_BYTE, data := sub }

/-- the segments `add_data(data, optimize)` appends for a byte string -/
def addData (data : Bytes) (optimize : Nat) : List Seg :=
  if optimize ≠ 0 then optimalDataChunks data optimize
  else [{ mode := optimalMode data, data := data }]

end QR.Model
