import QR.Model.Render
/-
Model of the colour logic of qrcode/image/styledpil.py and styles/colormasks.py on *exact* pixels (pixels that are
exactly the background or exactly the paint colour - what the square drawers produce), and of the embedded-image geometry.
Python's float arithmetic is replaced by rationals: on exact pixels the floats are exactly 0.0 / 1.0.
-/
namespace QR.Model

abbrev Colour := List Int     -- 3 (RGB) or 4 (RGBA) channels

/-- `StyledPilImage.paint_color`: black, or (for a mask with transparency) the background's RGB with alpha 255 -/
def paintColour (back : Colour) : Colour :=
  if back.length = 4 then back.take 3 ++ [255] else back.map fun _ => 0

/-- `extrap_color(col1, col2, interped)`: mean of the per-channel interpolation coefficients over the channels where the
    two colours differ; `none` when they differ nowhere -/
def extrapColor : Colour → Colour → Colour → List Rat
  | c1 :: t1, c2 :: t2, ci :: ti =>
    if c2 = c1 then extrapColor t1 t2 ti else ((ci - c1 : Int) / (c2 - c1 : Int) : Rat) :: extrapColor t1 t2 ti
  | _, _, _ => []

def mean (l : List Rat) : Option Rat := if l.isEmpty then none else some (l.sum / l.length)

/-- Python `int(x)`: truncation toward zero -/
def truncInt (q : Rat) : Int := if q ≥ 0 then q.floor else -((-q).floor)

/-- `interp_color(col1, col2, norm)` (as long as col2 has a channel for every channel of col1) -/
def interpColor : Colour → Colour → Rat → Colour
  | c1 :: t1, c2 :: t2, norm => truncInt (c2 * norm + c1 * (1 - norm)) :: interpColor t1 t2 norm
  | _, _, _ => []

/-- the body of `QRColorMask.apply_mask` for one pixel: `fg` is `get_fg_pixel(image, x, y)` -/
def applyMaskPixel (back paint fg pix : Colour) : Colour :=
  match mean (extrapColor back paint pix) with
  | some norm => interpColor back fg norm
  | none => back

/-- `draw_embeded_image` geometry: `w` is `int(total_width * embeded_image_ratio)`; returns (offset, side) -/
def logoGeometry (total box w : Nat) : Nat × Nat :=
  let offset := ((total / 2 - w / 2) / box) * box
  (offset, total - offset * 2)

end QR.Model
