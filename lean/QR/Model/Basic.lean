/-
Model layer, common definitions.  Mathlib-free (imported by the native driver).
Python exceptions are values of `Err`; only the class matters.
-/
namespace QR

inductive Err where
  | dataOverflow   -- qrcode.exceptions.DataOverflowError
  | valueError
  | typeError
  | osError
  | indexError
  | keyError
  | other          -- bare Exception / AssertionError / RecursionError ...
  deriving DecidableEq, Repr, Inhabited

def Err.name : Err → String
  | .dataOverflow => "DataOverflowError"
  | .valueError => "ValueError"
  | .typeError => "TypeError"
  | .osError => "OSError"
  | .indexError => "IndexError"
  | .keyError => "KeyError"
  | .other => "Exception"

abbrev R := Except Err

abbrev Bytes := List Nat   -- every element < 256 where it matters

/-- Python `list[i]` for `i ≥ 0`: IndexError when out of range. -/
def idx (l : List α) (i : Nat) : R α :=
  match l[i]? with
  | some a => .ok a
  | none => .error .indexError

/-- Python `dict[k]`: KeyError when absent. -/
def dictGet (d : List (Nat × β)) (k : Nat) : R β :=
  match d.lookup k with
  | some b => .ok b
  | none => .error .keyError

/-- Big-endian bits of `num`, `len` of them: `BitBuffer.put(num, len)` appends exactly these. -/
def bitsBE (num : Nat) : Nat → List Bool
  | 0 => []
  | len + 1 => num.testBit len :: bitsBE num len

/-- value of a big-endian bit list -/
def natOfBits (bs : List Bool) : Nat := bs.foldl (fun acc b => 2 * acc + (if b then 1 else 0)) 0

/-- one byte from (up to) eight bits, MSB first, missing bits are zero -/
def byteOfBits (bs : List Bool) : Nat :=
  natOfBits (bs.take 8 ++ List.replicate (8 - (bs.take 8).length) false)

def packBytesAux : Nat → List Bool → List Nat
  | 0, _ => []
  | k + 1, bs => byteOfBits bs :: packBytesAux k (bs.drop 8)

/-- `BitBuffer.buffer`: bits packed MSB-first into bytes, last byte zero-padded. -/
def packBytes (bs : List Bool) : List Nat := packBytesAux ((bs.length + 7) / 8) bs

end QR
