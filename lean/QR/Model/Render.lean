import QR.Model.Basic
/-
Model of the matrix-level renderers of qrcode/main.py (get_matrix, print_ascii, print_tty) and of the raster
geometry of qrcode/image/base.py, pure.py, pil.py.  Modules here are definite (`List (List Bool)`, row-major).
-/
namespace QR.Model

abbrev Mods := List (List Bool)

/-- `get_matrix()` once compiled: `border = 0` returns the modules themselves -/
def getMatrix (M : Mods) (border : Nat) : Mods :=
  if border = 0 then M
  else
    let width := M.length + border * 2
    List.replicate border (List.replicate width false)
      ++ M.map (fun row => List.replicate border false ++ row ++ List.replicate border false)
      ++ List.replicate border (List.replicate width false)

/-! ### print_ascii -/

/-- cp437 255, 223, 220, 219 decoded: NBSP, upper half block, lower half block, full block -/
def asciiCodes : List Nat := [0xA0, 0x2580, 0x2584, 0x2588]

/-- `get_module(x, y)` of `print_ascii` (x = row, y = column, both may be out of range) -/
def getModule (M : Mods) (modcount border : Nat) (invert : Bool) (x y : Int) : Nat :=
  if invert ∧ border ≠ 0 ∧ max x y ≥ (modcount : Int) + border then 1
  else if min x y < 0 ∨ max x y ≥ (modcount : Int) then 0
  else if (M.getD x.toNat []).getD y.toNat false then 1 else 0

def esc (s : String) : List Nat := (0x1B :: s.toList.map Char.toNat)

/-- the text `print_ascii(out, tty, invert)` writes, as code points (after the tty check) -/
def printAscii (M : Mods) (modcount border : Nat) (tty invert : Bool) : List Nat :=
  let invert := invert || tty
  let codes := if invert then asciiCodes.reverse else asciiCodes
  let total := modcount + 2 * border
  (List.range ((total + 1) / 2)).flatMap fun k =>
    let r : Int := (2 * k : Nat) - (border : Int)
    (if tty then
        (if !invert ∨ r < (modcount : Int) + border - 1 then esc "[48;5;232m" else []) ++ esc "[38;5;255m"
      else []) ++
    ((List.range total).map fun j =>
      let c : Int := (j : Nat) - (border : Int)
      let pos := getModule M modcount border invert r c + 2 * getModule M modcount border invert (r + 1) c
      codes.getD pos 0) ++
    (if tty then esc "[0m" else []) ++ [10]

/-! ### print_tty -/

def sp (n : Nat) : List Nat := List.replicate n 32

/-- the text `print_tty(out)` writes (after the tty check) -/
def printTty (M : Mods) (modcount : Nat) : List Nat :=
  let frameLine := esc "[1;47m" ++ sp (modcount * 2 + 4) ++ esc "[0m" ++ [10]
  frameLine ++
  ((List.range modcount).flatMap fun r =>
    esc "[1;47m" ++ sp 2 ++ esc "[40m" ++
    ((List.range modcount).flatMap fun c =>
      if (M.getD r []).getD c false then sp 2 else esc "[1;47m" ++ sp 2 ++ esc "[40m") ++
    esc "[1;47m" ++ sp 2 ++ esc "[0m" ++ [10]) ++
  frameLine

/-- `print_ascii` including its tty check: with `tty=True` on a stream that is not a tty it raises OSError before compiling or
    writing anything -/
def printAsciiOut (M : Mods) (modcount border : Nat) (tty invert isatty : Bool) : Except Err (List Nat) :=
  if tty && !isatty then .error .osError else .ok (printAscii M modcount border tty invert)

/-- `print_tty` including its tty check -/
def printTtyOut (M : Mods) (modcount : Nat) (isatty : Bool) : Except Err (List Nat) :=
  if !isatty then .error .osError else .ok (printTty M modcount)

/-! ### raster geometry (image/base.py, pure.py, pil.py) -/

/-- `BaseImage.pixel_size` -/
def pixelSize (width border boxSize : Nat) : Nat := (width + border * 2) * boxSize

/-- `BaseImage.pixel_box(row, col)`: ((x0, y0), (x1, y1)), closed box -/
def pixelBox (border boxSize row col : Nat) : (Nat × Nat) × (Nat × Nat) :=
  let x := (col + border) * boxSize
  let y := (row + border) * boxSize
  ((x, y), (x + boxSize - 1, y + boxSize - 1))

/-- `PyPNGImage.rows_iter()`: greyscale rows, 1 = white, 0 = black -/
def pypngRows (M : Mods) (width border boxSize : Nat) : List (List Nat) :=
  let borderRows := List.replicate (border * boxSize) (List.replicate (boxSize * (width + border * 2)) 1)
  let borderCol := List.replicate (boxSize * border) 1
  borderRows ++
  (M.flatMap fun moduleRow =>
    let row := borderCol ++ (moduleRow.flatMap fun point => List.replicate boxSize (if point then 0 else 1)) ++ borderCol
    List.replicate boxSize row) ++
  borderRows

/-- a canvas of dark flags; `ImageDraw.rectangle(box, fill)` sets exactly the pixels of the closed box (A-PIL) -/
abbrev Canvas := Array (Array Bool)

def drawBox (cv : Canvas) (box : (Nat × Nat) × (Nat × Nat)) : Canvas :=
  let ((x0, y0), (x1, y1)) := box
  (List.range (y1 + 1 - y0)).foldl (fun cv dy =>
    cv.modify (y0 + dy) fun row =>
      (List.range (x1 + 1 - x0)).foldl (fun row dx => row.setIfInBounds (x0 + dx) true) row) cv

/-- `PilImage`: canvas of `pixel_size` square filled with the background, one rectangle per dark module -/
def pilRaster (M : Mods) (width border boxSize : Nat) : Canvas :=
  let size := pixelSize width border boxSize
  let cv : Canvas := Array.replicate size (Array.replicate size false)
  (List.range width).foldl (fun cv r =>
    (List.range width).foldl (fun cv c =>
      if (M.getD r []).getD c false then drawBox cv (pixelBox border boxSize r c) else cv) cv) cv

/-- the image mode `PilImage.new_image` selects; colours are lower-cased names or tuples (`none` = a tuple) -/
def pilMode (fill back : Option String) : String :=
  if fill = some "black" ∧ back = some "white" then "1"
  else if back = some "transparent" then "RGBA"
  else "RGB"

end QR.Model
