import QR.Model.Matrix
import QR.Model.Penalty
/-
Model of QRCode.best_mask_pattern and QRCode.make on a fresh object.
-/
namespace QR.Model
open QR

/-- compiled matrices contain no `None`; scoring treats a (never occurring) `None` as light -/
def Mat.toBMat (m : Mat) : BMat := m.toList.map fun row => row.toList.map fun c => c.getD false

/-- the update of `(min_lost_point, pattern)` in the loop of `best_mask_pattern`: strict `>` keeps the first minimum -/
def pickMask (st : Nat × Nat) (i lost : Nat) : Nat × Nat :=
  if i = 0 ∨ st.1 > lost then (lost, i) else st

/-- `best_mask_pattern()` -/
def bestMaskPattern (version level : Nat) (data : List Nat) : R Nat := do
  let (_, pattern) ← (List.range 8).foldlM (fun (st : Nat × Nat) i => do
      let m ← makeImpl version level true i data
      pure (pickMask st i (lostPoint m.toBMat))) (0, 0)
  pure pattern

structure Cfg where
  version : Nat          -- 0 = None
  level : Nat
  mask : Option Nat
  fit : Bool
  deriving Repr

/-- the version `make(fit)` compiles at -/
def chooseVersion (cfg : Cfg) (segs : List Seg) : R Nat := do
  -- reading `self.version` when `_version is None` runs `best_fit()` first
  let v0 ← if cfg.version = 0 then bestFit 4 0 cfg.level segs else pure cfg.version
  if cfg.fit then bestFit 4 v0 cfg.level segs else pure v0

/-- `QRCode(version, error_correction, mask_pattern)`, `data_list = segs`, `make(fit)`:
    (version, mask used, modules) -/
def compile (cfg : Cfg) (segs : List Seg) : R (Nat × Nat × Mat) := do
  let v ← chooseVersion cfg segs
  let data ← createData v cfg.level segs
  let mask ← match cfg.mask with
    | some m => pure m
    | none => bestMaskPattern v cfg.level data
  let m ← makeImpl v cfg.level false mask data
  pure (v, mask, m)

end QR.Model
