import QR.Model.GF
/-
Model of qrcode/base.py rs_blocks and of qrcode/util.py: mode tables, QRData.write, BitBuffer (as a bit list),
create_data, create_bytes; and of QRCode.best_fit (with bisect_left).
-/
namespace QR.Model
open QR

/-- a data segment: `QRData.mode`, `QRData.data` -/
structure Seg where
  mode : Nat
  data : Bytes
  deriving DecidableEq, Repr, Inhabited

/-! ### base.rs_blocks -/

/-- `rs_block[i:i+3]` unpacked three at a time; a short tail is Python's unpack ValueError -/
def rsRow : Nat → List Nat → R (List (Nat × Nat))
  | _, [] => .ok []
  | fuel + 1, count :: total :: data :: rest => do
      let tl ← rsRow fuel rest
      pure (List.replicate count (total, data) ++ tl)
  | _, _ => .error .valueError

/-- `base.rs_blocks(version, error_correction)` as a list of `(total_count, data_count)` -/
def rsBlocks (version level : Nat) : R (List (Nat × Nat)) :=
  match Gen.RS_BLOCK_OFFSET.lookup level with
  | none => .error .other
  | some offset => do
      let row ← idx Gen.RS_BLOCK_TABLE ((version - 1) * 4 + offset)
      rsRow row.length row

/-! ### util: versions and mode sizes -/

def checkVersion (version : Int) : R Unit :=
  if version < 1 ∨ version > 40 then .error .valueError else .ok ()

/-- which of the three `MODE_SIZE_*` dicts `mode_sizes_for_version` returns (0 small, 1 medium, 2 large) -/
def sizeClass (version : Nat) : Nat := if version < 10 then 0 else if version < 27 then 1 else 2

def modeSizes (version : Nat) : List (Nat × Nat) :=
  match sizeClass version with
  | 0 => Gen.MODE_SIZE_SMALL
  | 1 => Gen.MODE_SIZE_MEDIUM
  | _ => Gen.MODE_SIZE_LARGE

/-- `util.length_in_bits(mode, version)` -/
def lengthInBits (mode version : Nat) : R Nat :=
  if ¬ (mode = Gen.MODE_NUMBER ∨ mode = Gen.MODE_ALPHA_NUM ∨ mode = Gen.MODE_8BIT_BYTE ∨ mode = Gen.MODE_KANJI) then
    .error .typeError
  else do
    checkVersion version
    dictGet (modeSizes version) mode

/-! ### QRData.write -/

/-- `int(chars)` for a chunk of ASCII digits; anything else is a ValueError (Python's `int` also accepts
    signs, whitespace and underscores - outside `Seg.Valid`, not modelled) -/
def intOfDigits (cs : List Nat) : R Nat :=
  cs.foldlM (fun acc c => if 48 ≤ c ∧ c ≤ 57 then pure (acc * 10 + (c - 48)) else .error .valueError) 0

/-- `ALPHA_NUM.find(c)`; the model rejects characters outside the table (Python would return -1) -/
def alphaFind (c : Nat) : R Nat :=
  match Gen.ALPHA_NUM.idxOf? c with
  | some i => .ok i
  | none => .error .other

def writeNumeric : Nat → List Nat → R (List Bool)
  | _, [] => .ok []
  | fuel + 1, cs@(_ :: _) => do
      let chars := cs.take 3
      let len ← dictGet Gen.NUMBER_LENGTH chars.length
      let v ← intOfDigits chars
      let rest ← writeNumeric fuel (cs.drop 3)
      pure (bitsBE v len ++ rest)
  | 0, _ :: _ => .error .other

def writeAlnum : List Nat → R (List Bool)
  | [] => .ok []
  | [a] => do let x ← alphaFind a; pure (bitsBE x 6)
  | a :: b :: rest => do
      let x ← alphaFind a
      let y ← alphaFind b
      let tl ← writeAlnum rest
      pure (bitsBE (x * 45 + y) 11 ++ tl)

def writeBytes (cs : List Nat) : List Bool := cs.flatMap fun c => bitsBE c 8

/-- `QRData.write(buffer)`: the bits appended -/
def segWrite (s : Seg) : R (List Bool) :=
  if s.mode = Gen.MODE_NUMBER then writeNumeric s.data.length s.data
  else if s.mode = Gen.MODE_ALPHA_NUM then writeAlnum s.data
  else .ok (writeBytes s.data)

/-! ### create_bytes -/

/-- the generator polynomial used for `ecCount`: the LUT entry, or the product built by the fallback loop -/
def rsPolyFallback (ecCount : Nat) : R (List Nat) :=
  (List.range ecCount).foldlM (fun p (i : Nat) => do
      let e ← gexp (Int.ofNat i)
      let q ← polyMk [1, e] 0
      polyMul p q) [1]

def rsPolyFor (ecCount : Nat) : R (List Nat) :=
  match Gen.rsPoly_LUT.lookup ecCount with
  | some l => polyMk l 0
  | none => rsPolyFallback ecCount

/-- error-correction codewords of one block (`current_ec`) -/
def ecOfBlock (dc : List Nat) (ecCount : Nat) : R (List Nat) := do
  let rsPoly ← rsPolyFor ecCount
  let rawPoly ← polyMk dc (rsPoly.length - 1)
  let modPoly ← polyMod (rawPoly.length + 1) rawPoly rsPoly
  let modOffset : Int := (modPoly.length : Int) - (ecCount : Int)
  pure ((List.range ecCount).map fun (i : Nat) =>
    let modIndex : Int := (i : Int) + modOffset
    if modIndex ≥ 0 then modPoly.getD modIndex.toNat 0 else 0)

/-- the first loop of `create_bytes`: cut the buffer bytes into blocks and compute each block's EC codewords -/
def splitBlocks : List Nat → List (Nat × Nat) → R (List (List Nat × List Nat))
  | _, [] => .ok []
  | buf, (total, dcCount) :: rest => do
      if buf.length < dcCount then .error .indexError
      else do
        let dc := (buf.take dcCount).map (· % 256)      -- `0xFF & buffer.buffer[i + offset]`
        let ec ← ecOfBlock dc (total - dcCount)
        let tl ← splitBlocks (buf.drop dcCount) rest
        pure ((dc, ec) :: tl)

/-- column-wise interleaving: `for i in range(max): for b in blocks: if i < len(b): append b[i]` -/
def interleave (blocks : List (List Nat)) : List Nat :=
  let m := blocks.foldl (fun m b => max m b.length) 0
  (List.range m).flatMap fun i => blocks.filterMap fun b => b[i]?

/-- `util.create_bytes(buffer, rs_blocks)` with `buffer.buffer = buf` -/
def createBytes (buf : List Nat) (blocks : List (Nat × Nat)) : R (List Nat) := do
  let bs ← splitBlocks buf blocks
  pure (interleave (bs.map (·.1)) ++ interleave (bs.map (·.2)))

/-! ### create_data -/

/-- header + data bits of the segments, with the character-count width given by `width mode` -/
def segsBits (width : Nat → R Nat) : List Seg → R (List Bool)
  | [] => .ok []
  | s :: rest => do
      let w ← width s.mode
      let d ← segWrite s
      let tl ← segsBits width rest
      pure (bitsBE s.mode 4 ++ bitsBE s.data.length w ++ d ++ tl)

/-- alternating pad codewords -/
def padBytes (n : Nat) : List Bool :=
  (List.range n).flatMap fun i => bitsBE (if i % 2 = 0 then Gen.PAD0 else Gen.PAD1) 8

/-- the bit buffer of `create_data` just before `create_bytes` (or DataOverflowError) -/
def dataBits (version level : Nat) (segs : List Seg) : R (List Bool) := do
  let buffer ← segsBits (fun m => lengthInBits m version) segs
  let blocks ← rsBlocks version level
  let bitLimit := (blocks.map fun b => b.2 * 8).sum
  if buffer.length > bitLimit then .error .dataOverflow
  else
    let buffer := buffer ++ List.replicate (min (bitLimit - buffer.length) 4) false
    let delimit := buffer.length % 8
    let buffer := if delimit ≠ 0 then buffer ++ List.replicate (8 - delimit) false else buffer
    let bytesToFill := (bitLimit - buffer.length) / 8
    pure (buffer ++ padBytes bytesToFill)

/-- `util.create_data(version, error_correction, data_list)` -/
def createData (version level : Nat) (segs : List Seg) : R (List Nat) := do
  let bits ← dataBits version level segs
  let blocks ← rsBlocks version level
  createBytes (packBytes bits) blocks

/-! ### QRCode.best_fit -/

/-- `bisect.bisect_left(a, x, lo)` with `hi = len(a)`; `fuel ≥ hi - lo` -/
def bisectLeft (a : List Nat) (x : Nat) : Nat → Nat → Nat → Nat
  | 0, lo, _ => lo
  | fuel + 1, lo, hi =>
    if lo < hi then
      let mid := (lo + hi) / 2
      if a.getD mid 0 < x then bisectLeft a x fuel (mid + 1) hi else bisectLeft a x fuel lo mid
    else lo

/-- `QRCode.best_fit(start)` (`start = 0` stands for `None`); returns the version stored and returned.
    `fuel` bounds the re-fit recursion (at most two class changes). -/
def bestFit : Nat → Nat → Nat → List Seg → R Nat
  | 0, _, _, _ => .error .other
  | fuel + 1, start, level, segs => do
      let start := if start = 0 then 1 else start
      checkVersion start
      let sizes := modeSizes start
      let buffer ← segsBits (fun m => dictGet sizes m) segs
      let needed := buffer.length
      let row ← idx Gen.BIT_LIMIT_TABLE level
      let version := bisectLeft row needed (row.length + 1) start row.length
      if version = 41 then .error .dataOverflow
      else do
        checkVersion version          -- the version setter
        if sizeClass start ≠ sizeClass version then bestFit fuel version level segs
        else pure version

end QR.Model
