import QR.Model.Render
/-
Model of the SVG factories (qrcode/image/svg.py) and SVG module drawers (qrcode/image/styles/moduledrawers/svg.py):
which shapes are emitted, in which order, where.  Coordinates are exact: pixel coordinates as integers over the common
denominator `2 * den` where the drawer's size ratio is `num / den` (Python computes in Decimal; for ratio 1 exactly,
for other ratios to 28 digits - the correspondence check compares numerically).  1 pixel = 0.1 mm.
-/
namespace QR.Model

inductive SvgFactory | fragment | image | fill | path | pathFill
  deriving DecidableEq, Repr

inductive SvgDrawerKind | square | circle
  deriving DecidableEq, Repr

structure SvgDrawer where
  kind : SvgDrawerKind
  num : Nat          -- size_ratio = num / den
  den : Nat
  deriving Repr

/-- a shape with coordinates as numerators over `2 * den` pixels -/
inductive SvgShape where
  | rect (x y w h : Nat)                 -- <rect x y width height>
  | circle (cx cy r : Nat)               -- <circle cx cy r>
  | pathSquare (x0 y0 x1 y1 : Nat)       -- M x0,y0 H x1 V y1 H x0 z
  | pathCircle (x0 yh x1 h : Nat)        -- M x0,yh A h,h 0 0 0 x1,yh A h,h 0 0 0 x0,yh z
  deriving Repr, DecidableEq

def SvgFactory.isPath : SvgFactory → Bool
  | .path | .pathFill => true
  | _ => false

def SvgFactory.hasBackground : SvgFactory → Bool
  | .fill | .pathFill => true
  | _ => false

/-- `BaseImage.is_eye(row, col)` -/
def isEye (width row col : Nat) : Bool :=
  (row < 7 && col < 7) || (row < 7 && width - col < 8) || (width - row < 8 && col < 7)

/-- the shape one drawer emits for the active module whose pixel box starts at (X, Y) (`coords(box)`) -/
def drawShape (isPath : Bool) (d : SvgDrawer) (boxSize X Y : Nat) : SvgShape :=
  let D := 2 * d.den
  let delta := (d.den - d.num) * boxSize          -- box_delta * D
  let size := 2 * d.num * boxSize                 -- box_size * D
  let half := d.num * boxSize                     -- box_half * D
  let x0 := X * D + delta
  let y0 := Y * D + delta
  match isPath, d.kind with
  | false, .square => .rect x0 y0 size size
  | false, .circle => .circle (x0 + half) (y0 + half) half
  | true, .square => .pathSquare x0 y0 (x0 + size) (y0 + size)
  | true, .circle => .pathCircle x0 (y0 + half) (x0 + size) (half - delta)

structure SvgDoc where
  pixelSize : Nat                 -- width = height = pixelSize / 10 mm
  viewBox : Bool                  -- path factories: viewBox "0 0 d d"
  background : Bool               -- a full-size white rect first
  shapes : List (Nat × SvgShape)  -- (denominator 2*den, shape), in emission order
  deriving Repr

/-- `make_image` with an SVG factory: row-major loop, eye drawer on the three 7x7 eyes, one shape per active module -/
def svgDoc (f : SvgFactory) (moduleDrawer eyeDrawer : SvgDrawer) (M : Mods) (width border boxSize : Nat) : SvgDoc :=
  { pixelSize := pixelSize width border boxSize
    viewBox := f.isPath
    background := f.hasBackground
    shapes := (List.range width).flatMap fun r => (List.range width).filterMap fun c =>
      if (M.getD r []).getD c false then
        let d := if isEye width r c then eyeDrawer else moduleDrawer
        some (2 * d.den, drawShape f.isPath d boxSize ((c + border) * boxSize) ((r + border) * boxSize))
      else none }

/-! ### `SvgFragmentImage.units(pixels)` as text -/

/-- round half to even of `a / b` (b > 0) -/
def roundHalfEven (a b : Nat) : Nat :=
  let q := a / b
  let r := a % b
  if 2 * r < b then q else if 2 * r > b then q + 1 else if q % 2 = 0 then q else q + 1

/-- decimal digits of `x`, exactly `k` of them (leading zeros kept) -/
def digitsK (x : Nat) : Nat → List Char
  | 0 => []
  | k + 1 => digitsK (x / 10) k ++ [Nat.digitChar (x % 10)]

/-- a length given in thousandths of a millimetre, printed like Python's Decimal after the quantize cascade of `units()`:
    three decimals with trailing zeros (and a bare point) removed -/
def fmtThousandths (t : Nat) : String :=
  let whole := toString (t / 1000)
  let frac := t % 1000
  if frac = 0 then whole
  else if frac % 100 = 0 then whole ++ "." ++ String.ofList (digitsK (frac / 100) 1)
  else if frac % 10 = 0 then whole ++ "." ++ String.ofList (digitsK (frac / 10) 2)
  else whole ++ "." ++ String.ofList (digitsK frac 3)

/-- `units(pixels)` for `pixels = num / den` (1 pixel = 0.1 mm): quantised half-even to 0.001 mm, text with unit -/
def units (num den : Nat) : String := fmtThousandths (roundHalfEven (100 * num) den) ++ "mm"

end QR.Model
