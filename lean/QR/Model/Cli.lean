import QR.Gen.Tables
import QR.Model.Segment
/-
Model of the decision logic of qrcode/console_scripts.py `main` (after the D5 repair): option validation, factory and
drawer resolution, payload source, sink selection.  optparse, imports and the renderers are outside (parameters).
-/
namespace QR.Model

structure CliInput where
  factory : Option String          -- --factory
  drawer : Option String           -- --factory-drawer
  optimize : Option Nat            -- --optimize
  level : String                   -- --error-correction (default "M")
  ascii : Bool                     -- --ascii
  output : Option String           -- --output
  arg : Option Bytes               -- first positional argument, as bytes
  stdin : Bytes
  stdoutIsTty : Bool
  importable : Bool                -- a dotted --factory path outside the shortcuts imports to an image factory
  importedAliases : List String    -- ... and these are the drawer aliases of that factory class
  deriving Repr

inductive Sink | file (path : String) | stdout
  deriving Repr, DecidableEq

inductive CliOutcome where
  | fail                                                            -- non-zero exit status, nothing written
  | ascii (tty : Bool) (level : Nat) (segs : List Seg)              -- print_ascii(tty=...)
  | image (factory : Option String) (drawer : Option String) (level : Nat) (segs : List Seg) (sink : Sink)
  deriving Repr

/-- the dotted path a --factory value resolves to -/
def resolveFactory (f : String) : String := (Gen.CLI_FACTORIES.lookup f).getD f

/-- drawer aliases of the resolved factory (only the built-in SVG factories have any) -/
def drawerAliases (f : Option String) (imported : List String := []) : List String :=
  match f with
  | none => []
  | some f =>
    match Gen.CLI_FACTORIES.find? fun (k, path) => k == f || path == f with
    | some (k, _) => (Gen.CLI_DRAWER_ALIASES.lookup k).getD []
    | none => imported

/-- the factory option is acceptable: a shortcut, or a dotted path that imports -/
def factoryOK (i : CliInput) : Bool :=
  match i.factory with
  | none => true
  | some f =>
    let path := resolveFactory f
    path.contains '.' && ((Gen.CLI_FACTORIES.any fun (_, p) => p == path) || i.importable)

/-- the drawer option is acceptable: absent, or an alias of the selected factory -/
def drawerOK (i : CliInput) : Bool :=
  match i.drawer with
  | none => true
  | some d => (drawerAliases i.factory i.importedAliases).contains d

/-- the payload: the argument if present, else all of standard input -/
def payloadOf (i : CliInput) : Bytes := i.arg.getD i.stdin

/-- `qr.add_data(data)` / `qr.add_data(data, optimize=n)` -/
def segsOf (i : CliInput) : List Seg := addData (payloadOf i) (i.optimize.getD 20)

def cli (i : CliInput) : CliOutcome :=
  match Gen.CLI_LEVELS.lookup i.level with
  | none => .fail                                           -- optparse `choice` rejects the value
  | some level =>
    if !factoryOK i then .fail
    else if !drawerOK i then .fail
    else match i.output with
      | some path => .image i.factory i.drawer level (segsOf i) (.file path)
      | none =>
        if i.factory.isNone && (i.stdoutIsTty || i.ascii) then .ascii (!i.ascii) level (segsOf i)
        else .image i.factory i.drawer level (segsOf i) .stdout

end QR.Model
