import QR.Model.Compile
import QR.Model.Segment
import QR.Model.Render
/-
Model of the QRCode object as a state machine: settings, data list, the two caches (`data_cache` per object,
`precomputed_qr_blanks` per process), the setters with their validators, and the operations that compile implicitly.
State is threaded explicitly; a Python exception leaves the state as it was at the `raise`.
-/
namespace QR.Model
open QR

/-- process-wide state: `qrcode.main.precomputed_qr_blanks` -/
structure Global where
  blanks : List (Nat × Mat)
  deriving Inhabited

structure QRState where
  version : Nat                 -- `_version`, 0 = None
  level : Nat                   -- `error_correction`
  mask : Option Nat             -- `_mask_pattern`
  border : Nat
  boxSize : Int                 -- plain attribute: assignment is not validated
  dataList : List Seg
  dataCache : Option (List Nat)
  modules : Mat
  modulesCount : Nat
  deriving Inhabited

abbrev St := Global × QRState

/-- `clear()` (also the tail of `__init__`) -/
def QRState.cleared (s : QRState) : QRState :=
  { s with modules := #[#[]], modulesCount := 0, dataCache := none, dataList := [] }

/-! ### validators (integers; non-integer arguments are exercised by the correspondence check only) -/

def checkBoxSize (x : Int) : R Unit := if x ≤ 0 then .error .valueError else .ok ()
def checkBorder (x : Int) : R Unit := if x < 0 then .error .valueError else .ok ()
def checkMaskPattern (x : Option Int) : R Unit :=
  match x with
  | none => .ok ()
  | some m => if m < 0 ∨ m > 7 then .error .valueError else .ok ()

/-- `QRCode(version, error_correction, box_size, border, mask_pattern)`; argument checks in the constructor's order -/
def construct (version : Option Int) (level : Nat) (boxSize border : Int) (mask : Option Int) : R QRState := do
  checkBoxSize boxSize
  checkBorder border
  match version with
  | some v => checkVersion v
  | none => pure ()
  checkBorder border            -- the `border` property setter validates again
  checkMaskPattern mask
  pure ({ version := (version.getD 0).toNat, level := level, mask := mask.map Int.toNat, border := border.toNat,
          boxSize := boxSize, dataList := [], dataCache := none, modules := #[#[]], modulesCount := 0 } : QRState)

/-! ### compile with the caches -/

/-- the blank of `version`: from the process-wide cache, else built and stored -/
def blankG (g : Global) (version : Nat) : R (Global × Mat) :=
  match g.blanks.lookup version with
  | some b => .ok (g, b)
  | none => do
      let b ← blank version
      pure ({ blanks := (version, b) :: g.blanks }, b)

/-- `makeImpl(test, mask_pattern)` -/
def makeImplS (test : Bool) (mask : Nat) (st : St) : St × R Unit :=
  let (g, s) := st
  let n := s.version * 4 + 17
  let s := { s with modulesCount := n }
  match blankG g s.version with
  | .error e => ((g, s), .error e)
  | .ok (g, b) =>
    let m := setupTypeInfo n s.level b test mask
    let m := if s.version ≥ 7 then setupTypeNumber n s.version m test else m
    let s := { s with modules := m }
    match (match s.dataCache with
           | some d => (.ok d : R (List Nat))
           | none => createData s.version s.level s.dataList) with
    | .error e => ((g, s), .error e)
    | .ok d =>
      let s := { s with dataCache := some d }
      if mask > 7 then ((g, s), .error .typeError)
      else ((g, { s with modules := mapData n m d mask }), .ok ())

/-- `best_fit(start)` with the assignments to `self.version` it performs on the way (the last one survives an
    overflow raised by a re-fit) -/
def bestFitS : Nat → Nat → QRState → QRState × R Nat
  | 0, _, s => (s, .error .other)
  | fuel + 1, start, s =>
    let start := if start = 0 then 1 else start
    match checkVersion start with
    | .error e => (s, .error e)
    | .ok _ =>
      let sizes := modeSizes start
      match segsBits (fun m => dictGet sizes m) s.dataList with
      | .error e => (s, .error e)
      | .ok buffer =>
        match idx Gen.BIT_LIMIT_TABLE s.level with
        | .error e => (s, .error e)
        | .ok row =>
          let version := bisectLeft row buffer.length (row.length + 1) start row.length
          if version = 41 then (s, .error .dataOverflow)
          else match checkVersion version with
            | .error e => (s, .error e)
            | .ok _ =>
              let s := { s with version := version }
              if sizeClass start ≠ sizeClass version then bestFitS fuel version s else (s, .ok version)

/-- `best_mask_pattern()` -/
def bestMaskS (st : St) : St × R Nat :=
  let rec go : List Nat → St → Nat × Nat → St × R Nat
    | [], st, acc => (st, .ok acc.2)
    | i :: is, st, acc =>
      match makeImplS true i st with
      | (st, .error e) => (st, .error e)
      | (st, .ok _) => go is st (pickMask acc i (lostPoint st.2.modules.toBMat))
  go (List.range 8) st (0, 0)

/-- `make(fit)` -/
def makeS (fit : Bool) (st : St) : St × R Unit :=
  let (g, s) := st
  let s := { s with dataCache := none }
  -- reading `self.version` while `_version is None` runs `best_fit()` first
  let (s, r1) := if s.version = 0 then bestFitS 4 0 s else (s, .ok s.version)
  match r1 with
  | .error e => ((g, s), .error e)
  | .ok _ =>
    let (s, r2) := if fit then bestFitS 4 s.version s else (s, .ok s.version)
    match r2 with
    | .error e => ((g, s), .error e)
    | .ok _ =>
      match s.mask with
      | some m => makeImplS false m (g, s)
      | none =>
        match bestMaskS (g, s) with
        | (st, .error e) => (st, .error e)
        | (st, .ok m) => makeImplS false m st

/-! ### operations and observable outputs -/

inductive Op where
  | addData (d : Bytes) (optimize : Nat)
  | addSeg (s : Seg)
  | clear
  | make (fit : Bool)
  | setVersion (x : Option Int)
  | setLevel (l : Nat)
  | setMask (x : Option Int)
  | setBorder (x : Int)
  | setBoxSize (x : Int)
  | getMatrix
  | mutateModules (r c : Nat) (x : Bool)      -- the caller writes into `qr.modules` / a returned alias
  | makeImage
  | printAscii
  | printTty
  | otherCompile (cfg : Cfg) (segs : List Seg)   -- another object of the same process compiles
  deriving Inhabited

inductive Out where
  | unit
  | err (e : Err)
  | matrix (m : List (List (Option Bool)))
  | image (border modulesCount : Nat) (boxSize : Int) (m : List (List (Option Bool)))
  | text (border : Nat) (m : List (List (Option Bool)))
  deriving Inhabited

def Mat.toLists (m : Mat) : List (List (Option Bool)) := m.toList.map Array.toList

/-- compile first if `data_cache is None` -/
def ensureMade (st : St) : St × R Unit :=
  match st.2.dataCache with
  | some _ => (st, .ok ())
  | none => makeS true st

def framedOpt (m : List (List (Option Bool))) (border : Nat) : List (List (Option Bool)) :=
  if border = 0 then m
  else
    let width := m.length + border * 2
    List.replicate border (List.replicate width (some false))
      ++ m.map (fun row => List.replicate border (some false) ++ row ++ List.replicate border (some false))
      ++ List.replicate border (List.replicate width (some false))

def step (st : St) (op : Op) : St × Out :=
  let (g, s) := st
  match op with
  | .addData d n => ((g, { s with dataList := s.dataList ++ addData d n, dataCache := none }), .unit)
  | .addSeg x => ((g, { s with dataList := s.dataList ++ [x], dataCache := none }), .unit)
  | .clear => ((g, s.cleared), .unit)
  | .make fit => match makeS fit st with
      | (st, .ok _) => (st, .unit)
      | (st, .error e) => (st, .err e)
  | .setVersion x => match x with
      | none => ((g, { s with version := 0 }), .unit)
      | some v => match checkVersion v with
        | .ok _ => ((g, { s with version := v.toNat }), .unit)
        | .error e => (st, .err e)
  | .setLevel l => ((g, { s with level := l }), .unit)
  | .setMask x => match checkMaskPattern x with
      | .ok _ => ((g, { s with mask := x.map Int.toNat }), .unit)
      | .error e => (st, .err e)
  | .setBorder x => match checkBorder x with
      | .ok _ => ((g, { s with border := x.toNat }), .unit)
      | .error e => (st, .err e)
  | .setBoxSize x => ((g, { s with boxSize := x }), .unit)
  | .getMatrix => match ensureMade st with
      | (st, .error e) => (st, .err e)
      | (st, .ok _) => (st, .matrix (framedOpt st.2.modules.toLists st.2.border))
  | .mutateModules r c x => ((g, { s with modules := s.modules.set r c (some x) }), .unit)
  | .makeImage => match checkBoxSize s.boxSize with
      | .error e => (st, .err e)
      | .ok _ => match ensureMade st with
        | (st, .error e) => (st, .err e)
        | (st, .ok _) => (st, .image st.2.border st.2.modulesCount st.2.boxSize st.2.modules.toLists)
  | .printAscii => match ensureMade st with
      | (st, .error e) => (st, .err e)
      | (st, .ok _) => (st, .text st.2.border st.2.modules.toLists)
  | .printTty => match ensureMade st with
      | (st, .error e) => (st, .err e)
      | (st, .ok _) => (st, .text 1 st.2.modules.toLists)
  | .otherCompile cfg segs =>
      let o : QRState := { version := cfg.version, level := cfg.level, mask := cfg.mask, border := 4, boxSize := 10,
                           dataList := segs, dataCache := none, modules := #[#[]], modulesCount := 0 }
      match makeS cfg.fit (g, o) with
      | ((g', _), _) => ((g', s), .unit)

def run (st : St) (ops : List Op) : St × List Out :=
  ops.foldl (fun (acc : St × List Out) op => let (st', o) := step acc.1 op; (st', acc.2 ++ [o])) (st, [])

end QR.Model
