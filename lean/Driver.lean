import QR.Model.Compile
import QR.Spec.Reader
import QR.Spec.Penalty
import QR.Spec.MaskChoice
import QR.Model.Segment
import QR.Spec.Segmentation
import QR.Model.Render
import QR.Spec.Render
import QR.Model.Release
import QR.Spec.Release
import QR.Model.QRObject
import QR.Model.Svg
import QR.Model.Cli
import QR.Model.Styled
/-
Line-protocol driver (native executable `qrdrv`, Mathlib-free).
One request per line: `<op> <arg> ...` (whitespace separated); one reply per line.
  ints      decimal; lists of ints `1,2,3` (`-` = empty)
  segments  `mode:1,2,3;mode:4,5` (`-` = none)
  matrices  rows of `0`/`1`/`.` joined by `/`
  replies   `ok <payload>` or `err <ExceptionClass>`; `bad-op` for unparsable requests
The driver is stateless between lines.
-/
open QR QR.Model

def parseNat (s : String) : Option Nat := s.toNat?
def parseInt (s : String) : Option Int := s.toInt?

def parseList (s : String) : Option (List Nat) :=
  if s = "-" then some [] else (s.splitOn ",").mapM parseNat

def parseSegs (s : String) : Option (List Seg) :=
  if s = "-" then some [] else
    (s.splitOn ";").mapM fun t =>
      match t.splitOn ":" with
      | [m, d] => do pure { mode := ← parseNat m, data := ← parseList d }
      | _ => none

def parseBlocks (s : String) : Option (List (Nat × Nat)) :=
  if s = "-" then some [] else
    (s.splitOn ";").mapM fun t =>
      match t.splitOn ":" with
      | [a, b] => do pure (← parseNat a, ← parseNat b)
      | _ => none

def parseBMat (s : String) : Option BMat :=
  if s = "-" then some [] else
    (s.splitOn "/").mapM fun row => row.toList.mapM fun ch =>
      if ch = '1' then some true else if ch = '0' then some false else none

def parseBool (s : String) : Option Bool :=
  if s = "1" then some true else if s = "0" then some false else none

def fmtList (l : List Nat) : String := if l.isEmpty then "-" else ",".intercalate (l.map toString)
def fmtBits (l : List Bool) : String := if l.isEmpty then "-" else String.ofList (l.map fun b => if b then '1' else '0')
def fmtMat (m : Mat) : String :=
  "/".intercalate (m.toList.map fun row => String.ofList (row.toList.map fun c =>
    match c with | some true => '1' | some false => '0' | none => '.'))
def fmtBlocks (l : List (Nat × Nat)) : String :=
  if l.isEmpty then "-" else ";".intercalate (l.map fun (a, b) => s!"{a}:{b}")

def symOfBMat (M : BMat) : Spec.Sym :=
  let A : Array (Array Bool) := (M.map List.toArray).toArray
  { n := A.size, get := fun r c => (A.getD r #[]).getD c false }

def fmtPSegs (l : List Spec.PSeg) : String :=
  if l.isEmpty then "-" else ";".intercalate (l.map fun s => s!"{s.mode.indicator}:{fmtList s.data}")

def specRead (M : BMat) : String :=
  if M.any (fun row => row.length ≠ M.length) then "fail not-square" else
  match Spec.read (symOfBMat M) with
  | .error e => "fail " ++ e.name
  | .ok r => s!"ok {r.version} {r.level.indicator} {r.mask} {if r.tailConformant then 1 else 0} {fmtPSegs r.segs} {fmtList r.dataCodewords}"

def hexDigit (c : Char) : Option Nat :=
  if '0' ≤ c ∧ c ≤ '9' then some (c.toNat - 48) else if 'a' ≤ c ∧ c ≤ 'f' then some (c.toNat - 87) else none

def parseHexBytes : List Char → Option (List UInt8)
  | [] => some []
  | a :: b :: t => do pure (UInt8.ofNat ((← hexDigit a) * 16 + (← hexDigit b)) :: (← parseHexBytes t))
  | _ => none

/-- hex-encoded UTF-8 (`-` = empty) to a string -/
def parseHexStr (s : String) : Option String :=
  if s = "-" then some "" else do
    let bs ← parseHexBytes s.toList
    String.fromUTF8? (ByteArray.mk bs.toArray)

def hexOfNat (n : Nat) : String := String.ofList [Nat.digitChar (n / 16), Nat.digitChar (n % 16)]
def fmtHexStr (s : String) : String :=
  if s.isEmpty then "-" else String.join (s.toUTF8.toList.map fun b => hexOfNat b.toNat)
def fmtCodePoints (l : List Nat) : String := fmtHexStr (String.ofList (l.map Char.ofNat))
def fmtMods (m : List (List Bool)) : String :=
  if m.isEmpty then "-" else "/".intercalate (m.map fun row => String.ofList (row.map fun b => if b then '1' else '0'))
def fmtOptMods (m : Option (List (List Bool))) : String :=
  match m with | some m => "ok " ++ fmtMods m | none => "fail unreadable"

def hashStep (h x : Nat) : Nat := (h * 31 + x) % 1000000007
def hashOpt (m : List (List (Option Bool))) : Nat :=
  m.foldl (fun h row => hashStep (row.foldl (fun h c => hashStep h (match c with | none => 0 | some false => 1 | some true => 2)) h) 3) 7
def hashSegs (l : List Seg) : Nat :=
  l.foldl (fun h s => hashStep (s.data.foldl hashStep (hashStep h (s.mode + 300))) 299) 7

def parseOptInt (s : String) : Option (Option Int) := if s = "-" then some none else (parseInt s).map some

def parseOp (s : String) : Option Op :=
  match s.splitOn "~" with
  | ["add", d, n] => do pure (.addData (← parseList d) (← parseNat n))
  | ["addseg", sg] => do match ← parseSegs sg with | [x] => pure (.addSeg x) | _ => none
  | ["clear"] => some .clear
  | ["make", f] => do pure (.make (← parseBool f))
  | ["setv", x] => do pure (.setVersion (← parseOptInt x))
  | ["setl", l] => do pure (.setLevel (← parseNat l))
  | ["setm", x] => do pure (.setMask (← parseOptInt x))
  | ["setb", x] => do pure (.setBorder (← parseInt x))
  | ["setbox", x] => do pure (.setBoxSize (← parseInt x))
  | ["getm"] => some .getMatrix
  | ["mut", r, c, x] => do pure (.mutateModules (← parseNat r) (← parseNat c) (← parseBool x))
  | ["img"] => some .makeImage
  | ["ascii"] => some .printAscii
  | ["tty"] => some .printTty
  | ["other", v, l, m, f, sg] => do
      let m ← if m = "-" then some none else (parseNat m).map some
      pure (.otherCompile { version := ← parseNat v, level := ← parseNat l, mask := m, fit := ← parseBool f } (← parseSegs sg))
  | _ => none

def fmtOut (o : Out) : String :=
  match o with
  | .unit => "u"
  | .err e => "e:" ++ e.name
  | .matrix m => s!"m:{m.length}:{hashOpt m}"
  | .image b n box m => s!"i:{b}:{n}:{box}:{hashOpt m}"
  | .text b m => s!"t:{b}:{hashOpt m}"

def fmtState (s : QRState) : String :=
  s!"S:{s.version}:{s.level}:{match s.mask with | some m => toString m | none => "-"}:{s.border}:{s.boxSize}:{s.dataList.length}:{hashSegs s.dataList}:{if s.dataCache.isSome then 1 else 0}:{s.modulesCount}:{hashOpt s.modules.toLists}"

def objRun (ctor : String) (ops : String) (warm : String) : Option String := do
  let ops ← if ops = "-" then some [] else (ops.splitOn "|").mapM parseOp
  let warmVs ← parseList warm
  match ctor.splitOn "," with
  | [v, l, box, b, m] =>
    let v ← parseOptInt v; let l ← parseNat l; let box ← parseInt box; let b ← parseInt b; let m ← parseOptInt m
    match construct v l box b m with
    | .error e => pure ("ctor-err " ++ e.name)
    | .ok s0 =>
      let g0 : Global := { blanks := warmVs.filterMap fun v => match blank v with | .ok b => some (v, b) | .error _ => none }
      let (st, outs) := run (g0, s0) ops
      pure ("ok " ++ "|".intercalate (outs.map fmtOut) ++ " " ++ fmtState st.2 ++ " G:" ++ fmtList ((st.1.blanks.map (·.1)).mergeSort))
  | _ => none

def parseSvgFactory (s : String) : Option SvgFactory :=
  match s with
  | "fragment" => some .fragment | "image" => some .image | "fill" => some .fill
  | "path" => some .path | "pathfill" => some .pathFill | _ => none

def parseDrawer (k n d : String) : Option SvgDrawer := do
  let kind ← match k with | "square" => some SvgDrawerKind.square | "circle" => some SvgDrawerKind.circle | _ => none
  pure { kind := kind, num := ← parseNat n, den := ← parseNat d }

def fmtShape (p : Nat × SvgShape) : String :=
  match p.2 with
  | .rect x y w h => s!"{p.1}:rect:{x}:{y}:{w}:{h}"
  | .circle cx cy r => s!"{p.1}:circle:{cx}:{cy}:{r}"
  | .pathSquare x0 y0 x1 y1 => s!"{p.1}:psq:{x0}:{y0}:{x1}:{y1}"
  | .pathCircle x0 yh x1 h => s!"{p.1}:pci:{x0}:{yh}:{x1}:{h}"

def optStr (s : String) : Option String := if s = "-" then none else some s

def fmtSegList (l : List Seg) : String := if l.isEmpty then "-" else ";".intercalate (l.map fun s => s!"{s.mode}:{fmtList s.data}")

def reply (r : R String) : String :=
  match r with
  | .ok s => "ok " ++ s
  | .error e => "err " ++ e.name

def handle (toks : List String) : Option String :=
  match toks with
  | ["gexp", n] => do let n ← parseInt n; pure (reply ((gexp n).map toString))
  | ["glog", n] => do let n ← parseNat n; pure (reply ((glog n).map toString))
  | ["polymod", a, b] => do
      let a ← parseList a; let b ← parseList b
      pure (reply (do let pa ← polyMk a 0; let pb ← polyMk b 0; let r ← polyMod (pa.length + 1) pa pb; pure (fmtList r)))
  | ["polymul", a, b] => do
      let a ← parseList a; let b ← parseList b
      pure (reply (do let pa ← polyMk a 0; let pb ← polyMk b 0; let r ← polyMul pa pb; pure (fmtList r)))
  | ["rsblocks", v, l] => do let v ← parseNat v; let l ← parseNat l; pure (reply ((rsBlocks v l).map fmtBlocks))
  | ["bch15", d] => do let d ← parseNat d; pure (reply (.ok (toString (bchTypeInfo d))))
  | ["bch18", d] => do let d ← parseNat d; pure (reply (.ok (toString (bchTypeNumber d))))
  | ["maskgrid", p, n] => do
      let p ← parseNat p; let n ← parseNat n
      pure ("ok " ++ "/".intercalate ((List.range n).map fun i => String.ofList ((List.range n).map fun j =>
        if maskFunc p i j then '1' else '0')))
  | ["lengthinbits", m, v] => do let m ← parseNat m; let v ← parseNat v; pure (reply ((lengthInBits m v).map toString))
  | ["alignpos", v] => do let v ← parseNat v; pure (reply ((patternPosition v).map fmtList))
  | ["blank", v] => do let v ← parseNat v; pure (reply ((blank v).map fmtMat))
  | ["trav", n] => do
      let n ← parseNat n
      pure ("ok " ++ ";".intercalate ((trav n).map fun (r, c) => s!"{r}:{c}"))
  | ["segwrite", s] => do
      let s ← parseSegs s
      match s with
      | [s] => pure (reply ((segWrite s).map fmtBits))
      | _ => none
  | ["databits", v, l, s] => do
      let v ← parseNat v; let l ← parseNat l; let s ← parseSegs s
      pure (reply ((dataBits v l s).map fun b => fmtList (packBytes b)))
  | ["createdata", v, l, s] => do
      let v ← parseNat v; let l ← parseNat l; let s ← parseSegs s
      pure (reply ((createData v l s).map fmtList))
  | ["createbytes", buf, blocks] => do
      let buf ← parseList buf; let blocks ← parseBlocks blocks
      pure (reply ((createBytes buf blocks).map fmtList))
  | ["bestfit", start, l, s] => do
      let start ← parseNat start; let l ← parseNat l; let s ← parseSegs s
      pure (reply ((bestFit 4 start l s).map toString))
  | ["makeimpl", v, l, t, mask, cw] => do
      let v ← parseNat v; let l ← parseNat l; let t ← parseBool t; let mask ← parseNat mask; let cw ← parseList cw
      pure (reply ((makeImpl v l t mask cw).map fmtMat))
  | ["bestmask", v, l, cw] => do
      let v ← parseNat v; let l ← parseNat l; let cw ← parseList cw
      pure (reply ((bestMaskPattern v l cw).map toString))
  | ["compile", v, l, mask, fit, s] => do
      let v ← parseNat v; let l ← parseNat l; let fit ← parseBool fit; let s ← parseSegs s
      let mask ← if mask = "-" then some none else (parseNat mask).map some
      pure (reply ((compile { version := v, level := l, mask := mask, fit := fit } s).map fun (v, m, M) =>
        s!"{v} {m} {fmtMat M}"))
  | ["lostpoint", m] => do let m ← parseBMat m; pure ("ok " ++ toString (lostPoint m))
  | ["lp1", m] => do let m ← parseBMat m; pure ("ok " ++ toString (level1 m m.length))
  | ["lp2", m] => do let m ← parseBMat m; pure ("ok " ++ toString (level2 m))
  | ["lp3", m] => do let m ← parseBMat m; pure ("ok " ++ toString (level3 m m.length))
  | ["lp4", m] => do let m ← parseBMat m; pure ("ok " ++ toString (level4 m m.length))
  | ["lp4n", n, d] => do
      let n ← parseNat n; let d ← parseNat d
      let x := if 20 * d ≥ 10 * (n * n) then 20 * d - 10 * (n * n) else 10 * (n * n) - 20 * d
      pure ("ok " ++ toString ((x / (n * n)) * 10))
  | ["spec.read", m] => do let m ← parseBMat m; pure (specRead m)
  | ["spec.checkblocks", v, l, cw] => do
      let v ← parseNat v; let l ← parseNat l; let cw ← parseList cw
      let l ← Spec.Level.ofIndicator l
      let blocks := Spec.blocksOf v l cw
      let bad := match blocks.zipIdx.find? fun (b, _) => !Spec.isCodeword (Spec.eccLen v l) (b.data ++ b.ec) with
        | some (_, i) => toString i | none => "-1"
      let lensOK := cw.length == Spec.totalCodewords v
      pure s!"ok {bad} {if lensOK then 1 else 0} {fmtList (blocks.flatMap (·.data))}"
  | ["spec.fits", v, l, segs] => do
      let v ← parseNat v; let l ← parseNat l
      let l ← Spec.Level.ofIndicator l
      let segs ← parseBlocks segs
      let segs ← segs.mapM fun (m, n) => (Spec.Mode.ofIndicator m).map (·, n)
      pure ("ok " ++ (if Spec.fits v l segs then "1" else "0") ++ s!" {Spec.streamBits v segs} {Spec.capacityBits v l}")
  | ["typeinfo", v, l, t, mask] => do
      let v ← parseNat v; let l ← parseNat l; let t ← parseBool t; let mask ← parseNat mask
      let n := v * 4 + 17
      let m := setupTypeInfo n l (Mat.empty n) t mask
      let m := if v ≥ 7 then setupTypeNumber n v m t else m
      pure ("ok " ++ fmtMat m)
  | ["spec.fmtcheck", v, l, mask, m] => do
      let v ← parseNat v; let l ← parseNat l; let mask ← parseNat mask; let m ← parseBMat m
      let S := symOfBMat m
      let w := Spec.formatWord (l * 8 + mask)
      let f1 := Spec.wordAt S Spec.fmtPos1 == w
      let f2 := Spec.wordAt S (Spec.fmtPos2 S.n) == w
      let vi := Spec.versionInfoOK S v
      let dm := S.get (S.n - 8) 8
      pure s!"ok {if f1 then 1 else 0} {if f2 then 1 else 0} {if vi then 1 else 0} {if dm then 1 else 0}"
  | ["spec.stream", v, cw] => do
      let v ← parseNat v; let cw ← parseList cw
      match Spec.readStream v (cw.flatMap Spec.byteBits) with
      | none => pure "fail data-stream-invalid"
      | some r => pure s!"ok {if r.tailConformant then 1 else 0} {fmtPSegs r.segs}"
  | ["spec.bestmask", m] => do
      let m ← parseBMat m
      let S := symOfBMat m
      match Spec.versionOfSize S.n, Spec.readFormat S with
      | some v, .ok (_, mk) => pure s!"ok {mk} {Spec.chooseMask S v mk}"
      | _, _ => pure "fail unreadable"
  | "argmin" :: xs => do
      let xs ← xs.mapM parseNat
      let (_, pattern) := (List.range xs.length).foldl (fun (st : Nat × Nat) i => pickMask st i (xs.getD i 0)) (0, 0)
      pure s!"ok {pattern} {Spec.argminFirst xs.length fun i => xs.getD i 0}"
  | ["adddata", d, n] => do
      let d ← parseList d; let n ← parseNat n
      pure ("ok " ++ (let l := addData d n; if l.isEmpty then "-" else ";".intercalate (l.map fun s => s!"{s.mode}:{fmtList s.data}")))
  | ["optimalmode", d] => do let d ← parseList d; pure ("ok " ++ toString (optimalMode d))
  | ["qrdata", d, m, c] => do
      let d ← parseList d; let c ← parseBool c
      let m ← if m = "-" then some none else (parseNat m).map some
      pure (reply ((mkQRData d m c).map fun s => s!"{s.mode}:{fmtList s.data}"))
  | ["spec.segmentation", n, d, segs] => do
      let n ← parseNat n; let d ← parseList d; let segs ← parseSegs segs
      match segs.mapM fun s => (Spec.Mode.ofIndicator s.mode).map fun m => ({ mode := m, data := s.data } : Spec.PSeg) with
      | none => pure "fail unknown-mode"
      | some ps =>
        let v := Spec.segmentation n d ps
        let b (x : Bool) := if x then "1" else "0"
        pure s!"ok {b v.lossless} {b v.valid} {b v.thresholdZero} {b v.runsCarried} {b v.minLength}"
  | ["getmatrix", b, m] => do let b ← parseNat b; let m ← parseBMat m; pure ("ok " ++ fmtMods (getMatrix m b))
  | ["printascii", n, b, tty, inv, m] => do
      let n ← parseNat n; let b ← parseNat b; let tty ← parseBool tty; let inv ← parseBool inv; let m ← parseBMat m
      pure ("ok " ++ fmtCodePoints (printAscii m n b tty inv))
  | ["printtty", n, m] => do let n ← parseNat n; let m ← parseBMat m; pure ("ok " ++ fmtCodePoints (printTty m n))
  | ["pixelbox", b, box, r, c] => do
      let b ← parseNat b; let box ← parseNat box; let r ← parseNat r; let c ← parseNat c
      let ((x0, y0), (x1, y1)) := pixelBox b box r c
      pure s!"ok {x0} {y0} {x1} {y1}"
  | ["pypngrows", w, b, box, m] => do
      let w ← parseNat w; let b ← parseNat b; let box ← parseNat box; let m ← parseBMat m
      pure ("ok " ++ "/".intercalate ((pypngRows m w b box).map fun row => String.ofList (row.map fun x => if x = 0 then '0' else '1')))
  | ["pilraster", w, b, box, m] => do
      let w ← parseNat w; let b ← parseNat b; let box ← parseNat box; let m ← parseBMat m
      pure ("ok " ++ fmtMods ((pilRaster m w b box).toList.map Array.toList))
  | ["pilmode", f, bk] => do
      let f := if f = "-" then none else some f
      let bk := if bk = "-" then none else some bk
      pure ("ok " ++ pilMode f bk)
  | ["manpage", name, ver, date, page] => do
      let name ← parseHexStr name; let ver ← parseHexStr ver; let date ← parseHexStr date; let page ← parseHexStr page
      pure (match updateManpage name.toList ver.toList date.toList page.toList with
        | none => "ok none" | some t => "ok some " ++ fmtHexStr (String.ofList t))
  | ["spec.manpage", name, ver, date, page] => do
      let name ← parseHexStr name; let ver ← parseHexStr ver; let date ← parseHexStr date; let page ← parseHexStr page
      pure (match Spec.expectedManpage name.toList ver.toList date.toList page.toList with
        | none => "ok none" | some t => "ok some " ++ fmtHexStr (String.ofList t))
  | ["spec.frame", n, b, m] => do
      let n ← parseNat n; let b ← parseNat b; let m ← parseBMat m
      pure ("ok " ++ fmtMods (Spec.frame m n b))
  | ["spec.raster", n, b, box, m] => do
      let n ← parseNat n; let b ← parseNat b; let box ← parseNat box; let m ← parseBMat m
      let size := (n + 2 * b) * box
      pure ("ok " ++ fmtMods ((List.range size).map fun y => (List.range size).map fun x => Spec.rasterDark m n b box x y))
  | ["spec.readascii", inv, t] => do
      let inv ← parseBool inv; let t ← parseHexStr t
      pure (fmtOptMods (Spec.readHalfBlocks inv (t.toList.map Char.toNat)))
  | ["spec.readtty", t] => do
      let t ← parseHexStr t
      pure (fmtOptMods (Spec.readTty (t.toList.map Char.toNat)))
  | ["obj", ctor, ops, warm] => objRun ctor ops warm
  | ["svgdoc", f, mk, mn, md, ek, en, ed, w, b, box, m] => do
      let f ← parseSvgFactory f; let mdr ← parseDrawer mk mn md; let edr ← parseDrawer ek en ed
      let w ← parseNat w; let b ← parseNat b; let box ← parseNat box; let m ← parseBMat m
      let doc := svgDoc f mdr edr m w b box
      pure s!"ok {doc.pixelSize} {if doc.viewBox then 1 else 0} {if doc.background then 1 else 0} {if doc.shapes.isEmpty then "-" else ";".intercalate (doc.shapes.map fmtShape)}"
  | ["cli", fac, drw, opt, lvl, asc, outp, arg, stdin, tty, imp, impAliases] => do
      let opt ← if opt = "-" then some none else (parseNat opt).map some
      let asc ← parseBool asc; let tty ← parseBool tty; let imp ← parseBool imp
      let arg ← if arg = "none" then some none else (parseList arg).map some
      let stdin ← parseList stdin
      let i : CliInput := { factory := optStr fac, drawer := optStr drw, optimize := opt, level := lvl, ascii := asc,
                            output := optStr outp, arg := arg, stdin := stdin, stdoutIsTty := tty, importable := imp,
                            importedAliases := if impAliases = "-" then [] else impAliases.splitOn "," }
      pure (match cli i with
        | .fail => "ok fail"
        | .ascii t l segs => s!"ok ascii {if t then 1 else 0} {l} {fmtSegList segs}"
        | .image f d l segs sink => s!"ok image {f.getD "-"} {d.getD "-"} {l} {fmtSegList segs} {match sink with | .stdout => "stdout" | .file p => "file:" ++ p}")
  | ["applymask", back, paint, fg, pix] => do
      let toC (s : String) : Option Colour := (parseList s).map fun l => l.map Int.ofNat
      let back ← toC back; let paint ← toC paint; let fg ← toC fg; let pix ← toC pix
      pure ("ok " ++ fmtList ((applyMaskPixel back paint fg pix).map Int.toNat) ++ " " ++ fmtList ((paintColour back).map Int.toNat))
  | ["units", n, d] => do let n ← parseNat n; let d ← parseNat d; pure ("ok " ++ units n d)
  | ["asciiout", tty, inv, isatty] => do
      let tty ← parseBool tty; let inv ← parseBool inv; let isatty ← parseBool isatty
      pure (match printAsciiOut [[true]] 1 0 tty inv isatty with | .ok t => "ok " ++ fmtCodePoints t | .error e => "err " ++ e.name)
  | ["ttyout", isatty] => do
      let isatty ← parseBool isatty
      pure (match printTtyOut [[true]] 1 isatty with | .ok t => "ok " ++ fmtCodePoints t | .error e => "err " ++ e.name)
  | ["spec.penalty", m] => do let m ← parseBMat m; pure ("ok " ++ toString (Spec.penalty m))
  | ["spec.n1", m] => do let m ← parseBMat m; pure ("ok " ++ toString (Spec.N1 m m.length))
  | ["spec.n2", m] => do let m ← parseBMat m; pure ("ok " ++ toString (Spec.N2 m))
  | ["spec.n3", m] => do let m ← parseBMat m; pure ("ok " ++ toString (Spec.N3 m m.length))
  | ["spec.n4", m] => do let m ← parseBMat m; pure ("ok " ++ toString (Spec.N4 m m.length))
  | ["spec.iscodeword", e, cw] => do
      let e ← parseNat e; let cw ← parseList cw
      pure ("ok " ++ (if Spec.isCodeword e cw then "1" else "0"))
  | ["spec.blocks", v, l] => do
      let v ← parseNat v; let l ← parseNat l
      match Spec.Level.ofIndicator l with
      | some l => pure ("ok " ++ fmtBlocks (Spec.isoBlocks v l))
      | none => none
  | ["spec.format", d] => do let d ← parseNat d; pure ("ok " ++ toString (Spec.formatWord d))
  | ["spec.version", v] => do let v ← parseNat v; pure ("ok " ++ toString (Spec.versionWord v))
  | ["spec.align", v] => do let v ← parseNat v; pure ("ok " ++ fmtList (Spec.alignmentCentres v))
  | ["spec.function", v] => do
      let v ← parseNat v
      let n := Spec.size v
      pure ("ok " ++ "/".intercalate ((List.range n).map fun r => String.ofList ((List.range n).map fun c =>
        match Spec.fixedColour v r c with
        | some true => '1' | some false => '0'
        | none => if Spec.isFunction v r c then 'f' else '.')))
  | ["spec.minversion", start, l, segs] => do
      let start ← parseNat start; let l ← parseNat l
      let l ← Spec.Level.ofIndicator l
      let segs ← parseBlocks segs      -- (mode indicator : count) pairs
      let segs ← segs.mapM fun (m, n) => (Spec.Mode.ofIndicator m).map (·, n)
      pure ("ok " ++ (match Spec.minVersion start l segs with | some v => toString v | none => "none"))
  | ["spec.capacity", m, v, l] => do
      let m ← parseNat m; let v ← parseNat v; let l ← parseNat l
      let m ← Spec.Mode.ofIndicator m; let l ← Spec.Level.ofIndicator l
      pure ("ok " ++ toString (Spec.isoCapacity m v l))
  | _ => none

partial def loop (hin : IO.FS.Stream) (hout : IO.FS.Stream) : IO Unit := do
  let line ← hin.getLine
  if line.isEmpty then return ()
  let toks := (line.trimAscii.toString.splitOn " ").filter (· ≠ "")
  let out := match handle toks with
    | some s => s
    | none => "bad-op"
  hout.putStrLn out
  loop hin hout

def main : IO Unit := do
  let hin ← IO.getStdin
  let hout ← IO.getStdout
  loop hin hout
  hout.flush
